//! Scala declaration-subset parser.
use crate::ir::*;
use crate::lex::*;
use std::collections::BTreeSet;

pub fn ty(c: &mut Cur) -> PResult<TypeExpr> {
    if c.eat_p("(") {
        if c.eat_p(")") {
            return Ok(TypeExpr::name("Unit"));
        }
        let t = ty(c)?;
        c.expect_p(")")?;
        return Ok(t);
    }
    let mut name = c.expect_ident()?.text.clone();
    while c.is_p(".") && !c.nl_before() {
        c.bump();
        name.push('.');
        name.push_str(&c.expect_ident()?.text);
    }
    let mut args = vec![];
    if c.is_p("[") && !c.nl_before() {
        c.bump();
        loop {
            args.push(ty(c)?);
            if !c.eat_p(",") {
                break;
            }
        }
        c.expect_p("]")?;
    }
    Ok(match (name.as_str(), args.len()) {
        ("Vector", 1) | ("List", 1) | ("Seq", 1) | ("Array", 1) => TypeExpr::Seq(Box::new(args.pop().unwrap())),
        ("Option", 1) => TypeExpr::Nullable(Box::new(args.pop().unwrap())),
        ("Map", 2) => {
            let v = args.pop().unwrap();
            let k = args.pop().unwrap();
            TypeExpr::Map(Box::new(k), Box::new(v))
        }
        _ => TypeExpr::Name(name, args),
    })
}

fn generics(c: &mut Cur) -> PResult<Vec<String>> {
    let mut g = vec![];
    if c.is_p("[") && !c.nl_before() {
        c.bump();
        loop {
            g.push(c.expect_ident()?.text.clone());
            if !c.eat_p(",") {
                break;
            }
        }
        c.expect_p("]")?;
    }
    Ok(g)
}

fn params(c: &mut Cur, issues: &mut Vec<String>) -> PResult<Vec<Field>> {
    c.expect_p("(")?;
    let mut out = vec![];
    while !c.is_p(")") {
        let start = c.pos();
        while (c.is_kw("val") || c.is_kw("var") || c.is_kw("private") || c.is_kw("override")) && !c.is_p_at(1, ":") {
            c.bump();
        }
        let ident = c.expect_ident()?.text.clone();
        c.expect_p(":")?;
        let mut t = ty(c)?;
        let mut markers = BTreeSet::new();
        if c.eat_p("=") {
            if c.eat_kw("None") {
                markers.insert("=None".to_string());
            } else if c.eat_kw("_") {
                // `= _` is only legal for `var` members, never as a parameter default
                issues.push(format!("`= _` is not a valid default argument (parameter {ident})"));
                markers.insert("=_".to_string());
            } else if c.bump().is_some() {
                markers.insert("=default".to_string());
            } else {
                return c.fail(true, "expected default value");
            }
        }
        if let TypeExpr::Nullable(inner) = &t {
            markers.insert("Option".to_string());
            t = (**inner).clone();
        }
        out.push(Field { ident: ident.clone(), wire_key: ident, ty: t, markers, readonly: false, start });
        if !c.eat_p(",") {
            break;
        }
    }
    c.expect_p(")")?;
    Ok(out)
}

fn extends(c: &mut Cur) -> PResult<Vec<TypeExpr>> {
    let mut v = vec![];
    if c.eat_kw("extends") {
        loop {
            v.push(ty(c)?);
            if !c.eat_kw("with") {
                break;
            }
        }
    }
    Ok(v)
}

/// `{ val serialName: String = "x" }` / `{ def serialName: String }` -> serialName value if any
fn member_block(c: &mut Cur) -> PResult<Option<String>> {
    let inner = c.skip_balanced()?;
    let mut b = Cur::new(inner);
    let mut serial = None;
    while !b.eof() {
        while b.is_kw("override") || b.is_kw("private") {
            b.bump();
        }
        if b.eat_kw("val") || b.eat_kw("def") {
            let n = b.expect_ident()?.text.clone();
            b.expect_p(":")?;
            ty(&mut b)?;
            if b.eat_p("=") {
                if b.is_str() {
                    let s = b.expect_str()?.text.clone();
                    if n == "serialName" {
                        serial = Some(s);
                    }
                } else if b.bump().is_none() {
                    return b.fail(true, "expected value");
                }
            }
        } else {
            return b.fail(false, "unrecognised member");
        }
    }
    Ok(serial)
}

fn items(c: &mut Cur, f: &mut File, until_brace: bool) -> PResult<()> {
    while !c.eof() {
        if until_brace && c.is_p("}") {
            return Ok(());
        }
        let start = c.pos();
        if c.is_kw("package") {
            c.bump();
            if c.eat_kw("object") {
                let n = c.expect_ident()?.text.clone();
                f.imports.push(("<package object>".into(), vec![n]));
                c.expect_p("{")?;
                items(c, f, true)?;
                c.expect_p("}")?;
                continue;
            }
            let mut name = c.expect_ident()?.text.clone();
            while c.is_p(".") && !c.nl_before() {
                c.bump();
                name.push('.');
                name.push_str(&c.expect_ident()?.text);
            }
            if c.is_p("{") && !c.nl_before() {
                c.bump();
                f.package = Some(match &f.package {
                    Some(p) => format!("{p}.{name}"),
                    None => name,
                });
                items(c, f, true)?;
                c.expect_p("}")?;
            } else {
                f.package = Some(name);
            }
            continue;
        }
        if c.is_kw("import") {
            c.bump();
            let mut name = c.expect_ident()?.text.clone();
            while c.is_p(".") && !c.nl_before() {
                c.bump();
                name.push('.');
                if c.eat_kw("_") {
                    name.push('_');
                } else {
                    name.push_str(&c.expect_ident()?.text);
                }
            }
            f.imports.push((name, vec![]));
            continue;
        }
        if c.is_kw("type") {
            c.bump();
            let name = c.expect_ident()?.text.clone();
            let mut d = Def::new(DefKind::Alias, &name, start);
            d.generics = generics(c)?;
            c.expect_p("=")?;
            d.alias_target = Some(ty(c)?);
            d.end = c.pos();
            if matches!(name.as_str(), "UByte" | "UShort" | "UInt" | "ULong") {
                d.kind = DefKind::Helper;
            }
            f.defs.push(d);
        } else if c.is_kw("case") && c.is_kw_at(1, "class") {
            c.bump();
            c.bump();
            let name = c.expect_ident()?.text.clone();
            let mut d = Def::new(DefKind::Struct, &name, start);
            d.generics = generics(c)?;
            d.fields = params(c, &mut f.syntax_issues)?;
            d.parents = extends(c)?;
            if c.is_p("{") && !c.nl_before() {
                member_block(c)?;
            }
            d.end = c.pos();
            f.defs.push(d);
        } else if c.is_kw("class") {
            c.bump();
            let name = c.expect_ident()?.text.clone();
            let mut d = Def::new(DefKind::Struct, &name, start);
            d.generics = generics(c)?;
            if c.is_p("(") && !c.nl_before() {
                d.fields = params(c, &mut f.syntax_issues)?;
            }
            d.parents = extends(c)?;
            d.end = c.pos();
            f.defs.push(d);
        } else if c.is_kw("sealed") && c.is_kw_at(1, "trait") {
            c.bump();
            c.bump();
            let name = c.expect_ident()?.text.clone();
            let mut d = Def::new(DefKind::UnitEnum, &name, start);
            d.generics = generics(c)?;
            d.parents = extends(c)?;
            if c.is_p("{") {
                member_block(c)?;
            }
            // companion object with the variants must follow
            if !(c.is_kw("object") && c.is_kw_at(1, &name)) {
                d.issues.push("sealed trait without companion object".into());
                d.end = c.pos();
                f.defs.push(d);
                continue;
            }
            c.bump();
            c.bump();
            c.expect_p("{")?;
            while !c.is_p("}") {
                let vstart = c.pos();
                c.expect_kw("case")?;
                if c.eat_kw("object") {
                    let id = c.expect_ident()?.text.clone();
                    let parents = extends(c)?;
                    let serial = if c.is_p("{") { member_block(c)? } else { None };
                    d.variants.push(Variant { ident: id, wire_name: serial, payload: Payload::None, markers: BTreeSet::new(), parents, start: vstart });
                } else if c.eat_kw("class") {
                    let id = c.expect_ident()?.text.clone();
                    generics(c)?;
                    let p = params(c, &mut f.syntax_issues)?;
                    let parents = extends(c)?;
                    let serial = if c.is_p("{") { member_block(c)? } else { None };
                    if p.len() != 1 {
                        return c.fail(false, "variant class with other than one parameter");
                    }
                    d.kind = DefKind::TaggedEnum;
                    d.content_sites.push((format!("variant {id}"), p[0].wire_key.clone()));
                    let mut t = p[0].ty.clone();
                    if p[0].markers.contains("Option") {
                        t = TypeExpr::Nullable(Box::new(t));
                    }
                    d.variants.push(Variant { ident: id, wire_name: serial, payload: Payload::Newtype(t), markers: p[0].markers.clone(), parents, start: vstart });
                } else {
                    return c.fail(true, "expected `object` or `class` after `case`");
                }
            }
            c.expect_p("}")?;
            d.end = c.pos();
            f.defs.push(d);
        } else {
            if let Some(t) = c.peek() {
                if t.kind == crate::lex::TokKind::Punct && t.text != "@" {
                    return c.fail(true, format!("a definition cannot start with `{}`", t.text));
                }
            }
            // nor with a word that is not one of the language's declaration keywords / modifiers
            if let Some(t) = c.peek() {
                const STARTS: &[&str] = &["package", "import", "object", "class", "trait", "case", "sealed", "final", "abstract", "private", "protected", "implicit", "lazy", "type", "val", "var", "def", "override", "inline", "opaque", "enum", "given", "export", "extension", "open", "transparent", "infix"];
                if t.kind == crate::lex::TokKind::Ident && !t.backticked && !STARTS.contains(&t.text.as_str()) {
                    return c.fail(true, format!("a declaration cannot start with the word `{}`", t.text));
                }
            }
            return c.fail(false, "unrecognised construct");
        }
    }
    Ok(())
}

pub fn parse(l: &Lexed) -> PResult<File> {
    let mut f = File::from_lexed(l);
    let mut c = Cur::new(&l.toks);
    items(&mut c, &mut f, false)?;
    if !c.eof() {
        return c.fail(true, "unexpected closing brace");
    }
    Ok(f)
}
