//! Kotlin declaration-subset parser.
use crate::ir::*;
use crate::lex::*;
use std::collections::BTreeSet;

struct Annot {
    name: String,
    arg: Option<String>,
}

fn annotations(c: &mut Cur) -> PResult<Vec<Annot>> {
    let mut v = vec![];
    while c.is_p("@") {
        c.bump();
        let mut name = c.expect_ident()?.text.clone();
        while c.is_p(".") {
            c.bump();
            name.push('.');
            name.push_str(&c.expect_ident()?.text);
        }
        let mut arg = None;
        if c.is_p("(") && !c.nl_before() {
            let inner = c.skip_balanced()?;
            if let Some(t) = inner.iter().find(|t| t.kind == TokKind::Str) {
                arg = Some(t.text.clone());
            }
        }
        v.push(Annot { name, arg });
    }
    Ok(v)
}

pub fn ty(c: &mut Cur) -> PResult<TypeExpr> {
    let mut t = if c.eat_p("(") {
        let t = ty(c)?;
        c.expect_p(")")?;
        t
    } else {
        let mut name = c.expect_ident()?.text.clone();
        while c.is_p(".") {
            c.bump();
            name.push('.');
            name.push_str(&c.expect_ident()?.text);
        }
        let mut args = vec![];
        if c.eat_p("<") {
            loop {
                args.push(ty(c)?);
                if !c.eat_p(",") {
                    break;
                }
            }
            c.expect_p(">")?;
        }
        match (name.as_str(), args.len()) {
            ("List", 1) | ("MutableList", 1) | ("Array", 1) => TypeExpr::Seq(Box::new(args.pop().unwrap())),
            ("HashMap", 2) | ("Map", 2) | ("MutableMap", 2) => {
                let v = args.pop().unwrap();
                let k = args.pop().unwrap();
                TypeExpr::Map(Box::new(k), Box::new(v))
            }
            _ => TypeExpr::Name(name, args),
        }
    };
    while c.is_p("?") {
        c.bump();
        t = TypeExpr::Nullable(Box::new(t));
    }
    Ok(t)
}

fn generics(c: &mut Cur) -> PResult<Vec<String>> {
    let mut g = vec![];
    if c.eat_p("<") {
        loop {
            g.push(c.expect_ident()?.text.clone());
            if c.eat_p(":") {
                ty(c)?;
            }
            if !c.eat_p(",") {
                break;
            }
        }
        c.expect_p(">")?;
    }
    Ok(g)
}

/// `( [annotations] [private] val name: Type [= default], ... )`
fn params(c: &mut Cur) -> PResult<Vec<Field>> {
    c.expect_p("(")?;
    let mut out = vec![];
    while !c.is_p(")") {
        let start = c.pos();
        let ann = annotations(c)?;
        while (c.is_kw("private") || c.is_kw("public") || c.is_kw("internal") || c.is_kw("override")) && !c.is_p_at(1, ":") {
            c.bump();
        }
        if !(c.eat_kw("val") || c.eat_kw("var")) {
            return c.fail(true, "expected `val` in constructor parameter");
        }
        let id = c.expect_ident()?;
        let ident = id.text.clone();
        c.expect_p(":")?;
        let mut t = ty(c)?;
        let mut markers = BTreeSet::new();
        if c.eat_p("=") {
            if c.eat_kw("null") {
                markers.insert("=null".to_string());
            } else {
                // some other default expression: skip a primary
                if c.is_p("(") || c.is_p("[") || c.is_p("{") {
                    c.skip_balanced()?;
                } else if c.bump().is_none() {
                    return c.fail(true, "expected default value");
                }
                markers.insert("=default".to_string());
            }
        }
        if let TypeExpr::Nullable(inner) = &t {
            markers.insert("?".to_string());
            t = (**inner).clone();
        }
        let wire = ann.iter().find(|a| a.name == "SerialName").and_then(|a| a.arg.clone()).unwrap_or_else(|| ident.clone());
        out.push(Field { ident, wire_key: wire, ty: t, markers, readonly: false, start });
        if !c.eat_p(",") {
            break;
        }
    }
    c.expect_p(")")?;
    Ok(out)
}

fn supertypes(c: &mut Cur) -> PResult<Vec<TypeExpr>> {
    let mut v = vec![];
    if c.eat_p(":") {
        loop {
            let t = ty(c)?;
            if c.is_p("(") && !c.nl_before() {
                c.skip_balanced()?;
            }
            v.push(t);
            if !c.eat_p(",") {
                break;
            }
        }
    }
    Ok(v)
}

pub fn parse(l: &Lexed) -> PResult<File> {
    let mut f = File::from_lexed(l);
    let mut c = Cur::new(&l.toks);
    while !c.eof() {
        if c.is_kw("package") {
            c.bump();
            let mut name = c.expect_ident()?.text.clone();
            while c.is_p(".") && !c.nl_before() {
                c.bump();
                name.push('.');
                name.push_str(&c.expect_ident()?.text);
            }
            f.package = Some(name);
            continue;
        }
        if c.is_kw("import") {
            c.bump();
            let mut parts = vec![c.expect_ident()?.text.clone()];
            while c.is_p(".") && !c.nl_before() {
                c.bump();
                if c.eat_p("*") {
                    parts.push("*".into());
                    break;
                }
                parts.push(c.expect_ident()?.text.clone());
            }
            let last = parts.pop().unwrap();
            f.imports.push((parts.join("."), vec![last]));
            continue;
        }
        let start = c.pos();
        let ann = annotations(&mut c)?;
        while c.is_kw("public") || c.is_kw("internal") || c.is_kw("private") {
            c.bump();
        }
        if c.is_kw("typealias") {
            c.bump();
            let name = c.expect_ident()?.text.clone();
            let mut d = Def::new(DefKind::Alias, &name, start);
            d.generics = generics(&mut c)?;
            c.expect_p("=")?;
            d.alias_target = Some(ty(&mut c)?);
            d.end = c.pos();
            f.defs.push(d);
        } else if c.is_kw("object") {
            c.bump();
            let name = c.expect_ident()?.text.clone();
            let mut d = Def::new(DefKind::Struct, &name, start);
            d.parents = supertypes(&mut c)?;
            if c.is_p("{") {
                c.skip_balanced()?;
            }
            d.end = c.pos();
            f.defs.push(d);
        } else if c.is_kw("data") && c.is_kw_at(1, "class") {
            c.bump();
            c.bump();
            let name = c.expect_ident()?.text.clone();
            let mut d = Def::new(DefKind::Struct, &name, start);
            d.generics = generics(&mut c)?;
            d.fields = params(&mut c)?;
            if d.fields.is_empty() {
                return c.fail(true, "data class must have at least one primary constructor parameter");
            }
            d.parents = supertypes(&mut c)?;
            if c.is_p("{") {
                body_members(&mut c)?;
            }
            d.end = c.pos();
            f.defs.push(d);
        } else if c.is_kw("value") && c.is_kw_at(1, "class") {
            c.bump();
            c.bump();
            let name = c.expect_ident()?.text.clone();
            let mut d = Def::new(DefKind::Alias, &name, start);
            d.generics = generics(&mut c)?;
            let p = params(&mut c)?;
            if p.len() != 1 {
                return c.fail(true, "value class must have exactly one parameter");
            }
            d.alias_target = Some(p[0].ty.clone());
            d.alias_markers = p[0].markers.clone();
            d.extra.push(("value-class".into(), p[0].ident.clone()));
            if c.is_p("{") {
                body_members(&mut c)?;
            }
            d.end = c.pos();
            f.defs.push(d);
        } else if c.is_kw("enum") && c.is_kw_at(1, "class") {
            c.bump();
            c.bump();
            let name = c.expect_ident()?.text.clone();
            let mut d = Def::new(DefKind::UnitEnum, &name, start);
            d.generics = generics(&mut c)?;
            if c.is_p("(") {
                params(&mut c)?;
            }
            c.expect_p("{")?;
            while !c.is_p("}") && !c.is_p(";") {
                let vstart = c.pos();
                let va = annotations(&mut c)?;
                let id = c.expect_ident()?.text.clone();
                let mut ctor_arg = None;
                if c.is_p("(") {
                    let inner = c.skip_balanced()?;
                    ctor_arg = inner.iter().find(|t| t.kind == TokKind::Str).map(|t| t.text.clone());
                }
                let serial = va.iter().find(|a| a.name == "SerialName").and_then(|a| a.arg.clone());
                if let (Some(a), Some(b)) = (&serial, &ctor_arg) {
                    if a != b {
                        d.issues.push(format!("variant {id}: @SerialName({a:?}) differs from constructor value {b:?}"));
                    }
                }
                d.variants.push(Variant { ident: id.clone(), wire_name: serial.or(Some(id)), payload: Payload::None, markers: BTreeSet::new(), parents: vec![], start: vstart });
                if !c.eat_p(",") {
                    break;
                }
            }
            c.eat_p(";");
            c.expect_p("}")?;
            d.end = c.pos();
            f.defs.push(d);
        } else if c.is_kw("sealed") && c.is_kw_at(1, "class") {
            c.bump();
            c.bump();
            let name = c.expect_ident()?.text.clone();
            let mut d = Def::new(DefKind::TaggedEnum, &name, start);
            d.generics = generics(&mut c)?;
            c.expect_p("{")?;
            while !c.is_p("}") {
                let vstart = c.pos();
                let va = annotations(&mut c)?;
                let serial = va.iter().find(|a| a.name == "SerialName").and_then(|a| a.arg.clone());
                if c.is_kw("object") {
                    c.bump();
                    let id = c.expect_ident()?.text.clone();
                    let parents = supertypes(&mut c)?;
                    d.variants.push(Variant { ident: id.clone(), wire_name: serial.or(Some(id)), payload: Payload::None, markers: BTreeSet::new(), parents, start: vstart });
                } else if c.is_kw("data") && c.is_kw_at(1, "class") {
                    c.bump();
                    c.bump();
                    let id = c.expect_ident()?.text.clone();
                    generics(&mut c)?;
                    let p = params(&mut c)?;
                    if p.len() != 1 {
                        return c.fail(false, "sealed-class variant with other than one parameter");
                    }
                    let parents = supertypes(&mut c)?;
                    d.content_sites.push((format!("variant {id}"), p[0].wire_key.clone()));
                    let mut t = p[0].ty.clone();
                    if p[0].markers.contains("?") {
                        t = TypeExpr::Nullable(Box::new(t));
                    }
                    d.variants.push(Variant { ident: id.clone(), wire_name: serial.or(Some(id)), payload: Payload::Newtype(t), markers: p[0].markers.clone(), parents, start: vstart });
                } else {
                    return c.fail(false, "unrecognised sealed class member");
                }
            }
            c.expect_p("}")?;
            d.end = c.pos();
            f.defs.push(d);
        } else if !ann.is_empty() {
            return c.fail(true, "annotation not followed by a declaration");
        } else {
            // no declaration of this language starts with a punctuation token (other than an attribute marker)
            if let Some(t) = c.peek() {
                if t.kind == crate::lex::TokKind::Punct && !matches!(t.text.as_str(), "@") {
                    return c.fail(true, format!("a top-level declaration cannot start with `{}`", t.text));
                }
            }
            // nor with a word that is not one of the language's declaration keywords / modifiers
            if let Some(t) = c.peek() {
                const STARTS: &[&str] = &["package", "import", "class", "interface", "object", "fun", "val", "var", "typealias", "enum", "data", "sealed", "open", "abstract", "private", "public", "internal", "protected", "inline", "value", "annotation", "const", "expect", "actual", "external", "suspend", "tailrec", "operator", "infix", "override", "lateinit", "final", "companion", "inner", "vararg", "noinline", "crossinline", "reified"];
                if t.kind == crate::lex::TokKind::Ident && !t.backticked && !STARTS.contains(&t.text.as_str()) {
                    return c.fail(true, format!("a declaration cannot start with the word `{}`", t.text));
                }
            }
            return c.fail(false, "unrecognised top-level construct");
        }
    }
    Ok(f)
}

/// `{ [override] fun name(...)[: T] = expr | { ... } ... }`
fn body_members(c: &mut Cur) -> PResult<()> {
    let inner = c.skip_balanced()?;
    let mut b = Cur::new(inner);
    while !b.eof() {
        while b.is_kw("override") || b.is_kw("public") || b.is_kw("private") {
            b.bump();
        }
        if !b.eat_kw("fun") {
            return b.fail(false, "unrecognised class body member");
        }
        b.expect_ident()?;
        if !b.is_p("(") {
            return b.fail(true, "expected parameter list");
        }
        b.skip_balanced()?;
        if b.eat_p(":") {
            ty(&mut b)?;
        }
        if b.eat_p("=") {
            // expression up to the next line
            if b.eof() {
                return b.fail(true, "expected expression");
            }
            b.bump();
            while !b.eof() && !b.nl_before() {
                if b.is_p("(") || b.is_p("[") || b.is_p("{") {
                    b.skip_balanced()?;
                } else {
                    b.bump();
                }
            }
        } else if b.is_p("{") {
            b.skip_balanced()?;
        } else {
            return b.fail(true, "expected function body");
        }
    }
    Ok(())
}
