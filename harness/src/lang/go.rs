//! Go declaration-subset parser, including the synthesised (Un)MarshalJSON of tagged enums.
use crate::ir::*;
use crate::lex::*;
use std::collections::BTreeSet;

pub fn ty(c: &mut Cur) -> PResult<TypeExpr> {
    if c.eat_p("*") {
        return Ok(TypeExpr::Nullable(Box::new(ty(c)?)));
    }
    if c.is_p("[") {
        c.bump();
        if c.eat_p("]") {
            return Ok(TypeExpr::Seq(Box::new(ty(c)?)));
        }
        match c.peek() {
            Some(t) if t.kind == TokKind::Num => {
                let n: usize = t.text.parse().unwrap_or(0);
                c.bump();
                c.expect_p("]")?;
                return Ok(TypeExpr::FixedSeq(Box::new(ty(c)?), n));
            }
            _ => return c.fail(true, "expected `]` or array length"),
        }
    }
    if c.is_kw("map") && c.is_p_at(1, "[") {
        c.bump();
        c.bump();
        let k = ty(c)?;
        c.expect_p("]")?;
        let v = ty(c)?;
        return Ok(TypeExpr::Map(Box::new(k), Box::new(v)));
    }
    if c.is_kw("struct") {
        c.bump();
        if !c.is_p("{") {
            return c.fail(true, "expected `{` after struct");
        }
        let inner = c.skip_balanced()?;
        return Ok(if inner.is_empty() { TypeExpr::name("struct{}") } else { TypeExpr::Other("struct{...}".into()) });
    }
    if c.is_kw("interface") {
        c.bump();
        if !c.is_p("{") {
            return c.fail(true, "expected `{` after interface");
        }
        c.skip_balanced()?;
        return Ok(TypeExpr::Other("interface{}".into()));
    }
    let mut name = c.expect_ident()?.text.clone();
    if c.is_p(".") && !c.nl_before() {
        c.bump();
        name.push('.');
        name.push_str(&c.expect_ident()?.text);
    }
    let mut args = vec![];
    if c.is_p("[") && !c.nl_before() && !c.is_p_at(1, "]") {
        c.bump();
        loop {
            args.push(ty(c)?);
            if !c.eat_p(",") {
                break;
            }
        }
        c.expect_p("]")?;
    }
    Ok(TypeExpr::Name(name, args))
}

/// `json:"key,opt"` inside a raw-string struct tag
fn json_tag(tag: &str) -> Option<(String, Vec<String>)> {
    let i = tag.find("json:\"")?;
    let rest = &tag[i + 6..];
    // the tag value is a Go interpreted string: unescape \" and \\
    let mut val = String::new();
    let mut it = rest.chars();
    loop {
        match it.next()? {
            '\\' => val.push(it.next()?),
            '"' => break,
            ch => val.push(ch),
        }
    }
    let mut parts = val.split(',');
    let key = parts.next().unwrap_or("").to_string();
    Some((key, parts.map(|s| s.to_string()).collect()))
}

fn struct_fields(inner: &[Tok], d: &mut Def) -> PResult<()> {
    let mut c = Cur::new(inner);
    while !c.eof() {
        let start = c.pos();
        let ident = c.expect_ident()?.text.clone();
        let t = ty(&mut c)?;
        let mut markers = BTreeSet::new();
        let mut key = ident.clone();
        if c.is_str() && !c.nl_before() {
            let tag = c.expect_str()?;
            if !tag.backticked {
                // "..." tags are legal Go too
            }
            match json_tag(&tag.text) {
                Some((k, opts)) => {
                    if !k.is_empty() {
                        key = k;
                    }
                    for o in opts {
                        markers.insert(o);
                    }
                }
                None => d.issues.push(format!("field {ident}: struct tag without json key: {}", tag.text)),
            }
        }
        if !c.eof() && !c.nl_before() && !c.eat_p(";") {
            return c.fail(true, "expected newline after struct field");
        }
        let mut t = t;
        if let TypeExpr::Nullable(inner) = &t {
            markers.insert("ptr".to_string());
            t = (**inner).clone();
        }
        d.fields.push(Field { ident, wire_key: key, ty: t, markers, readonly: false, start });
    }
    Ok(())
}

type Func = (Option<String>, String, Vec<Tok>, Vec<Tok>);

fn skip_func(c: &mut Cur) -> PResult<Func> {
    // `func (r *T) Name(args) ret { body }` | `func Name(args) ret { body }`
    c.expect_kw("func")?;
    let mut recv = None;
    if c.is_p("(") {
        let inner = c.skip_balanced()?;
        recv = inner.iter().rev().find(|t| t.kind == TokKind::Ident).map(|t| t.text.clone());
    }
    let name = c.expect_ident()?.text.clone();
    if c.is_p("[") {
        c.skip_balanced()?;
    }
    if !c.is_p("(") {
        return c.fail(true, "expected parameter list");
    }
    let params = c.skip_balanced()?.to_vec();
    // result: anything up to the body brace on the same line
    while !c.eof() && !c.is_p("{") {
        if c.nl_before() {
            return c.fail(true, "expected function body");
        }
        if c.is_p("(") || c.is_p("[") {
            c.skip_balanced()?;
        } else if c.is_kw("struct") || c.is_kw("interface") {
            c.bump();
            if c.is_p("{") {
                c.skip_balanced()?;
            }
        } else {
            c.bump();
        }
    }
    if !c.is_p("{") {
        return c.fail(true, "expected function body");
    }
    let body = c.skip_balanced()?.to_vec();
    Ok((recv, name, params, body))
}

pub fn parse(l: &Lexed) -> PResult<File> {
    let mut f = File::from_lexed(l);
    let mut c = Cur::new(&l.toks);
    let mut funcs: Vec<Func> = vec![];
    let mut const_blocks: Vec<Vec<(String, Option<TypeExpr>, String, usize)>> = vec![];
    while !c.eof() {
        let start = c.pos();
        if c.is_kw("package") {
            c.bump();
            let t = c.expect_ident()?;
            if t.nl_before {
                return c.fail(true, "package clause without a name");
            }
            f.package = Some(t.text.clone());
            continue;
        }
        if c.is_kw("import") {
            c.bump();
            if c.is_p("(") {
                let inner = c.skip_balanced()?;
                for t in inner {
                    if t.kind == TokKind::Str {
                        f.imports.push((t.text.clone(), vec![]));
                    } else {
                        return c.fail(false, "unrecognised import spec");
                    }
                }
            } else {
                let p = c.expect_str()?.text.clone();
                f.imports.push((p, vec![]));
            }
            continue;
        }
        if c.is_kw("type") {
            c.bump();
            let name = c.expect_ident()?.text.clone();
            let mut d = Def::new(DefKind::Alias, &name, start);
            if c.is_p("[") && !c.is_p_at(1, "]") && !matches!(c.peek_at(1), Some(t) if t.kind == TokKind::Num) {
                // type parameters `[T any, U any]`
                let inner = c.skip_balanced()?;
                let mut g = Cur::new(inner);
                while !g.eof() {
                    d.generics.push(g.expect_ident()?.text.clone());
                    if !g.is_p(",") && !g.eof() {
                        ty(&mut g)?; // constraint
                    }
                    if !g.eat_p(",") {
                        break;
                    }
                }
                if !g.eof() {
                    return g.fail(true, "malformed type parameter list");
                }
            }
            c.eat_p("=");
            if c.is_kw("struct") {
                c.bump();
                if !c.is_p("{") {
                    return c.fail(true, "expected `{` after struct");
                }
                let inner = c.skip_balanced()?;
                d.kind = DefKind::Struct;
                struct_fields(inner, &mut d)?;
            } else {
                d.alias_target = Some(ty(&mut c)?);
            }
            if !c.eof() && !c.nl_before() && !c.eat_p(";") {
                return c.fail(true, "expected newline after type declaration");
            }
            d.end = c.pos();
            f.defs.push(d);
            continue;
        }
        if c.is_kw("const") {
            c.bump();
            let mut block = vec![];
            let one = |c: &mut Cur| -> PResult<(String, Option<TypeExpr>, String, usize)> {
                let st = c.pos();
                let name = c.expect_ident()?.text.clone();
                let mut t = None;
                if !c.is_p("=") {
                    t = Some(ty(c)?);
                }
                c.expect_p("=")?;
                let mut val = String::new();
                if c.eat_p("-") {
                    val.push('-');
                }
                match c.bump() {
                    Some(v) if v.kind == TokKind::Str || v.kind == TokKind::Num || v.kind == TokKind::Ident => val.push_str(&v.text),
                    _ => return c.fail(true, "expected constant value"),
                }
                if !c.eof() && !c.nl_before() && !c.is_p(")") && !c.eat_p(";") {
                    return c.fail(true, "expected newline after constant");
                }
                Ok((name, t, val, st))
            };
            if c.is_p("(") {
                let inner = c.skip_balanced()?;
                let mut b = Cur::new(inner);
                while !b.eof() {
                    block.push(one(&mut b)?);
                }
            } else {
                block.push(one(&mut c)?);
            }
            const_blocks.push(block);
            continue;
        }
        if c.is_kw("func") {
            funcs.push(skip_func(&mut c)?);
            continue;
        }
        if c.is_kw("var") {
            return c.fail(false, "top-level var");
        }
        // Go: TopLevelDecl = Declaration | FunctionDecl | MethodDecl, each introduced by a keyword
        if let Some(t) = c.peek() {
            if !(t.kind == crate::lex::TokKind::Ident && matches!(t.text.as_str(), "package" | "import" | "func" | "type" | "var" | "const")) {
                return c.fail(true, format!("a top-level declaration cannot start with `{}`", t.text));
            }
        }
        return c.fail(false, "unrecognised top-level construct");
    }
    assemble(&mut f, funcs, const_blocks);
    Ok(f)
}

/// Turn `type X string` + const block into unit enums, `type XTypes string` + consts + struct + methods into tagged enums.
fn assemble(f: &mut File, funcs: Vec<Func>, const_blocks: Vec<Vec<(String, Option<TypeExpr>, String, usize)>>) {
    for block in const_blocks {
        // typed string constants belonging to a `type T string`
        let ty_name = block.iter().find_map(|(_, t, _, _)| match t {
            Some(TypeExpr::Name(n, a)) if a.is_empty() => Some(n.clone()),
            _ => None,
        });
        let is_enum_type = ty_name
            .as_ref()
            .and_then(|n| f.defs.iter().position(|d| d.name == *n && d.alias_target == Some(TypeExpr::name("string"))));
        match is_enum_type {
            Some(idx) if block.iter().all(|(_, t, _, _)| matches!(t, Some(TypeExpr::Name(n, _)) if Some(n) == ty_name.as_ref())) => {
                let d = &mut f.defs[idx];
                d.kind = DefKind::UnitEnum;
                d.alias_target = None;
                for (name, _, val, st) in block {
                    d.variants.push(Variant { ident: name, wire_name: Some(val), payload: Payload::None, markers: BTreeSet::new(), parents: vec![], start: st });
                }
            }
            _ => {
                for (name, t, val, st) in block {
                    let mut d = Def::new(DefKind::Const, &name, st);
                    d.const_type = t;
                    d.const_value = Some(val);
                    f.defs.push(d);
                }
            }
        }
    }
    // tagged enums: a struct X with UnmarshalJSON/MarshalJSON methods, whose first field has the key-type T (unit enum `T`)
    let method_owner: Vec<String> = funcs.iter().filter(|(r, n, _, _)| r.is_some() && (n == "UnmarshalJSON" || n == "MarshalJSON")).map(|(r, _, _, _)| r.clone().unwrap()).collect();
    let names: Vec<String> = f.defs.iter().map(|d| d.name.clone()).collect();
    for sname in names {
        if !method_owner.contains(&sname) {
            continue;
        }
        let Some(si) = f.defs.iter().position(|d| d.name == sname && d.kind == DefKind::Struct) else { continue };
        let key_type = match f.defs[si].fields.first().map(|fl| fl.ty.clone()) {
            Some(TypeExpr::Name(n, _)) => n,
            _ => continue,
        };
        let Some(ki) = f.defs.iter().position(|d| d.name == key_type && d.kind == DefKind::UnitEnum) else { continue };
        let consts = f.defs[ki].variants.clone();
        f.defs[ki].kind = DefKind::Helper;
        let tag_field = f.defs[si].fields[0].clone();
        let d = &mut f.defs[si];
        d.kind = DefKind::TaggedEnum;
        d.tag_sites.push(("struct tag".into(), tag_field.wire_key.clone()));
        d.extra.push(("key-type".into(), key_type.clone()));
        d.fields.clear();
        for cst in consts {
            d.variants.push(cst);
        }
        for (recv, name, _params, body) in &funcs {
            if recv.as_deref() != Some(sname.as_str()) {
                continue;
            }
            if name == "UnmarshalJSON" || name == "MarshalJSON" {
                // `var enum struct { Tag T `json:"k"` ; Content X `json:"c[,omitempty]"` }`
                let mut i = 0;
                let mut found = false;
                while i + 1 < body.len() {
                    if body[i].text == "struct" && body[i + 1].text == "{" {
                        let mut cc = Cur::new(&body[i + 1..]);
                        if let Ok(inner) = cc.skip_balanced() {
                            let mut tmp = Def::new(DefKind::Helper, "enum", 0);
                            if struct_fields(inner, &mut tmp).is_ok() && tmp.fields.len() == 2 {
                                d.tag_sites.push((format!("{name}:anonymous struct"), tmp.fields[0].wire_key.clone()));
                                d.content_sites.push((format!("{name}:anonymous struct"), tmp.fields[1].wire_key.clone()));
                                found = true;
                            }
                        }
                        break;
                    }
                    i += 1;
                }
                if !found {
                    d.issues.push(format!("{name}: anonymous wire struct with Tag and Content not found"));
                }
                if name == "UnmarshalJSON" {
                    // one `case Const:` per variant constant
                    let mut seen = vec![];
                    for w in body.windows(3) {
                        if w[0].text == "case" && w[0].kind == TokKind::Ident && w[1].kind == TokKind::Ident && w[2].text == ":" {
                            seen.push(w[1].text.clone());
                        }
                    }
                    for v in &d.variants {
                        let n = seen.iter().filter(|s| **s == v.ident).count();
                        if n != 1 {
                            d.issues.push(format!("variant constant `{}` has {n} decode cases", v.ident));
                        }
                    }
                    for s in &seen {
                        if !d.variants.iter().any(|v| v.ident == *s) {
                            d.issues.push(format!("decode case for undeclared constant `{s}`"));
                        }
                    }
                }
            }
        }
        // constructors `New<Const>(content T)` give each variant's payload type
        for v in d.variants.iter_mut() {
            if let Some((_, _, params, _)) = funcs.iter().find(|(r, n, _, _)| r.is_none() && *n == format!("New{}", v.ident)) {
                v.markers.insert("constructor".into());
                if !params.is_empty() {
                    let mut pc = Cur::new(params);
                    if pc.expect_ident().is_ok() {
                        if let Ok(t) = ty(&mut pc) {
                            v.payload = Payload::Newtype(t);
                        }
                    }
                }
            }
        }
    }
    for (recv, name, _, _) in funcs {
        let mut d = Def::new(DefKind::Helper, &format!("func {}{}", recv.map(|r| format!("{r}.")).unwrap_or_default(), name), 0);
        d.extra.push(("func".into(), name));
        f.defs.push(d);
    }
}
