//! Python facts come from CPython (pytools/pycheck.py); this module runs it in batches and
//! converts its JSON into the foreign IR.
use crate::ir::*;
use serde_json::{json, Value};
use std::collections::BTreeSet;
use std::path::Path;
use std::process::Command;

#[derive(Debug, Clone)]
pub struct PyResult {
    pub status: ParseStatus,
    pub unresolved: Vec<String>,
    pub eager_undefined: Vec<String>,
    /// (ok, error type, message) of importing the module under stub pydantic
    pub exec: Option<(bool, String, String)>,
    /// (start, end, kind) of comments / docstrings / strings
    pub spans: Vec<(usize, usize, String)>,
    pub raw: Value,
}

fn texpr(v: &Value) -> TypeExpr {
    let k = v["k"].as_str().unwrap_or("other");
    match k {
        "name" => TypeExpr::Name(
            v["n"].as_str().unwrap_or("?").to_string(),
            v["a"].as_array().map(|a| a.iter().map(texpr).collect()).unwrap_or_default(),
        ),
        "seq" => TypeExpr::Seq(Box::new(texpr(&v["t"]))),
        "map" => TypeExpr::Map(Box::new(texpr(&v["a"])), Box::new(texpr(&v["b"]))),
        "opt" => TypeExpr::Nullable(Box::new(texpr(&v["t"]))),
        "union" => TypeExpr::Union(v["a"].as_array().map(|a| a.iter().map(texpr).collect()).unwrap_or_default()),
        "lit" => TypeExpr::Lit(v["v"].as_str().unwrap_or("").to_string()),
        _ => TypeExpr::Other(v["v"].as_str().unwrap_or("").to_string()),
    }
}

fn markers(v: &Value) -> BTreeSet<String> {
    v.as_array().map(|a| a.iter().filter_map(|x| x.as_str().map(|s| s.to_string())).collect()).unwrap_or_default()
}

fn field(v: &Value) -> Field {
    Field {
        ident: v["ident"].as_str().unwrap_or("").to_string(),
        wire_key: v["wire_key"].as_str().unwrap_or("").to_string(),
        ty: texpr(&v["type"]),
        markers: markers(&v["markers"]),
        readonly: false,
        start: v["start"].as_u64().unwrap_or(0) as usize,
    }
}

fn convert(v: &Value) -> PyResult {
    let spans = v["spans"]
        .as_array()
        .map(|a| a.iter().map(|s| (s[0].as_u64().unwrap_or(0) as usize, s[1].as_u64().unwrap_or(0) as usize, s[2].as_str().unwrap_or("").to_string())).collect())
        .unwrap_or_default();
    let strs = |k: &str| -> Vec<String> { v[k].as_array().map(|a| a.iter().filter_map(|x| x.as_str().map(|s| s.to_string())).collect()).unwrap_or_default() };
    let exec = v["exec"].as_object().map(|e| {
        (
            e.get("ok").and_then(|x| x.as_bool()).unwrap_or(false),
            e.get("error_type").and_then(|x| x.as_str()).unwrap_or("").to_string(),
            e.get("error").and_then(|x| x.as_str()).unwrap_or("").to_string(),
        )
    });
    if let Some(h) = v["harness_error"].as_str() {
        return PyResult { status: ParseStatus::OutsideSubset(format!("pycheck internal error: {h}")), unresolved: vec![], eager_undefined: vec![], exec, spans, raw: v.clone() };
    }
    if !v["syntax_ok"].as_bool().unwrap_or(false) {
        return PyResult {
            status: ParseStatus::IllFormed(v["syntax_error"].as_str().unwrap_or("syntax error").to_string()),
            unresolved: vec![],
            eager_undefined: vec![],
            exec,
            spans,
            raw: v.clone(),
        };
    }
    let mut f = File::default();
    for imp in v["imports"].as_array().cloned().unwrap_or_default() {
        f.imports.push((
            imp[0].as_str().unwrap_or("").to_string(),
            imp[1].as_array().map(|a| a.iter().filter_map(|x| x.as_str().map(|s| s.to_string())).collect()).unwrap_or_default(),
        ));
    }
    for d in v["defs"].as_array().cloned().unwrap_or_default() {
        let kind = match d["kind"].as_str().unwrap_or("") {
            "Struct" => DefKind::Struct,
            "UnitEnum" => DefKind::UnitEnum,
            "TaggedEnum" => DefKind::TaggedEnum,
            "Alias" => DefKind::Alias,
            "Const" => DefKind::Const,
            _ => DefKind::Helper,
        };
        let mut def = Def::new(kind, d["name"].as_str().unwrap_or(""), d["start"].as_u64().unwrap_or(0) as usize);
        def.generics = d["generics"].as_array().map(|a| a.iter().filter_map(|x| x.as_str().map(|s| s.to_string())).collect()).unwrap_or_default();
        for fl in d["fields"].as_array().cloned().unwrap_or_default() {
            def.fields.push(field(&fl));
        }
        for b in d["bases"].as_array().cloned().unwrap_or_default() {
            def.extra.push(("base".into(), b.as_str().unwrap_or("").to_string()));
        }
        for i in d["issues"].as_array().cloned().unwrap_or_default() {
            def.issues.push(i.as_str().unwrap_or("").to_string());
        }
        if d["unexpected"].as_bool() == Some(true) {
            def.issues.push(format!("unexpected module-level statement {}", def.name));
        }
        if d["subscript_assignment"].as_bool() == Some(true) {
            def.extra.push(("subscript-assignment".into(), "true".into()));
        }
        if let Some(vo) = d["variant_of"].as_str() {
            def.extra.push(("variant_of".into(), vo.to_string()));
        }
        if d["typevar"].as_bool() == Some(true) {
            def.extra.push(("typevar".into(), "true".into()));
        }
        if d["func"].as_bool() == Some(true) {
            def.extra.push(("func".into(), "true".into()));
        }
        match kind {
            DefKind::UnitEnum | DefKind::Helper => {
                for vv in d["variants"].as_array().cloned().unwrap_or_default() {
                    def.variants.push(Variant {
                        ident: vv["ident"].as_str().unwrap_or("").to_string(),
                        wire_name: vv["wire_name"].as_str().map(|s| s.to_string()),
                        payload: Payload::None,
                        markers: BTreeSet::new(),
                        parents: vec![],
                        start: vv["start"].as_u64().unwrap_or(0) as usize,
                    });
                }
            }
            DefKind::TaggedEnum => {
                for vv in d["variants"].as_array().cloned().unwrap_or_default() {
                    let id = vv["ident"].as_str().unwrap_or("").to_string();
                    if let Some(t) = vv["tag_key"].as_str() {
                        def.tag_sites.push((format!("class {id}"), t.to_string()));
                    }
                    if let Some(c) = vv["content_key"].as_str() {
                        def.content_sites.push((format!("class {id}"), c.to_string()));
                    }
                    if vv["tag_default"].as_str() != vv["tag_literal"].as_str() {
                        def.issues.push(format!("class {id}: tag default {:?} differs from its Literal {:?}", vv["tag_default"], vv["tag_literal"]));
                    }
                    let payload = if vv["payload"].is_null() { Payload::None } else { Payload::Newtype(texpr(&vv["payload"])) };
                    def.variants.push(Variant {
                        ident: id,
                        wire_name: vv["wire_name"].as_str().map(|s| s.to_string()),
                        payload,
                        markers: markers(&vv["markers"]),
                        parents: vec![],
                        start: vv["start"].as_u64().unwrap_or(0) as usize,
                    });
                }
            }
            DefKind::Alias => def.alias_target = Some(texpr(&d["target"])),
            DefKind::Const => {
                def.const_type = Some(texpr(&d["const_type"]));
                def.const_value = d["const_value"].as_str().map(|s| s.to_string());
            }
            DefKind::Struct => {}
        }
        f.defs.push(def);
    }
    PyResult { status: ParseStatus::Parsed(f), unresolved: strs("unresolved"), eager_undefined: strs("eager_undefined"), exec, spans, raw: v.clone() }
}

/// Analyse a batch of sources; `exec` = also import each module under stub pydantic.
pub fn check_batch(verif: &Path, scratch: &Path, sources: &[(&str, bool)], threads: usize) -> Vec<PyResult> {
    if sources.is_empty() {
        return vec![];
    }
    let script = verif.join("pytools").join("pycheck.py");
    let n = sources.len();
    let chunks = threads.max(1).min((n + 49) / 50).max(1);
    let per = (n + chunks - 1) / chunks;
    let mut results: Vec<Option<PyResult>> = vec![None; n];
    let outs: Vec<(usize, Vec<Value>)> = std::thread::scope(|s| {
        let mut hs = vec![];
        for c in 0..chunks {
            let lo = c * per;
            let hi = ((c + 1) * per).min(n);
            if lo >= hi {
                continue;
            }
            let script = &script;
            let inp = scratch.join(format!("py-in-{c}.json"));
            let outp = scratch.join(format!("py-out-{c}.json"));
            let slice = &sources[lo..hi];
            hs.push(s.spawn(move || {
                let items: Vec<Value> = slice.iter().enumerate().map(|(i, (src, ex))| json!({"id": lo + i, "source": src, "exec": ex})).collect();
                std::fs::write(&inp, serde_json::to_vec(&items).unwrap()).expect("write py batch");
                let st = Command::new("python3").arg(script).arg(&inp).arg(&outp).env("PYTHONDONTWRITEBYTECODE", "1").output();
                let vals: Vec<Value> = match st {
                    Ok(o) if o.status.success() => std::fs::read(&outp).ok().and_then(|b| serde_json::from_slice(&b).ok()).unwrap_or_default(),
                    Ok(o) => {
                        eprintln!("pycheck failed: {}", String::from_utf8_lossy(&o.stderr));
                        vec![]
                    }
                    Err(e) => {
                        eprintln!("pycheck spawn failed: {e}");
                        vec![]
                    }
                };
                let _ = std::fs::remove_file(&inp);
                let _ = std::fs::remove_file(&outp);
                (lo, vals)
            }));
        }
        hs.into_iter().map(|h| h.join().unwrap()).collect()
    });
    for (_lo, vals) in outs {
        for v in vals {
            if let Some(id) = v["id"].as_u64() {
                if (id as usize) < n {
                    results[id as usize] = Some(convert(&v));
                }
            }
        }
    }
    results
        .into_iter()
        .map(|r| {
            r.unwrap_or(PyResult {
                status: ParseStatus::OutsideSubset("pycheck produced no result".into()),
                unresolved: vec![],
                eager_undefined: vec![],
                exec: None,
                spans: vec![],
                raw: Value::Null,
            })
        })
        .collect()
}
