//! TypeScript declaration-subset parser.
use crate::ir::*;
use crate::lex::*;
use std::collections::BTreeSet;

pub fn parse(l: &Lexed) -> PResult<File> {
    let mut f = File::from_lexed(l);
    let mut c = Cur::new(&l.toks);
    while !c.eof() {
        if c.eat_p(";") {
            continue;
        }
        if c.is_kw("import") {
            c.bump();
            c.expect_p("{")?;
            let mut names = vec![];
            while !c.is_p("}") {
                names.push(c.expect_ident()?.text.clone());
                if !c.eat_p(",") {
                    break;
                }
            }
            c.expect_p("}")?;
            c.expect_kw("from")?;
            let path = c.expect_str()?.text.clone();
            c.eat_p(";");
            f.imports.push((path, names));
            continue;
        }
        let start = c.pos();
        let exported = c.eat_kw("export");
        if c.is_kw("interface") {
            c.bump();
            let name = c.expect_ident()?.text.clone();
            let mut d = Def::new(DefKind::Struct, &name, start);
            d.generics = generics(&mut c)?;
            c.expect_p("{")?;
            d.fields = members(&mut c)?;
            c.expect_p("}")?;
            d.end = c.pos();
            f.defs.push(d);
        } else if c.is_kw("type") {
            c.bump();
            let name = c.expect_ident()?.text.clone();
            let mut d = Def::new(DefKind::Alias, &name, start);
            d.generics = generics(&mut c)?;
            c.expect_p("=")?;
            let t = ty(&mut c)?;
            if !c.eat_p(";") && !c.eof() && !c.nl_before() {
                return c.fail(true, "expected `;` after type alias");
            }
            d.end = c.pos();
            classify_alias(&mut d, t);
            f.defs.push(d);
        } else if c.is_kw("enum") {
            c.bump();
            let name = c.expect_ident()?.text.clone();
            let mut d = Def::new(DefKind::UnitEnum, &name, start);
            d.generics = generics(&mut c)?;
            c.expect_p("{")?;
            while !c.is_p("}") {
                let vstart = c.pos();
                let id = if c.is_str() { c.expect_str()?.text.clone() } else { c.expect_ident()?.text.clone() };
                let mut wire = None;
                if c.eat_p("=") {
                    if c.is_str() {
                        wire = Some(c.expect_str()?.text.clone());
                    } else if matches!(c.peek(), Some(t) if t.kind == TokKind::Num) {
                        wire = Some(c.bump().unwrap().text.clone());
                    } else {
                        return c.fail(true, "expected enum initialiser");
                    }
                }
                d.variants.push(Variant { ident: id, wire_name: wire, payload: Payload::None, markers: BTreeSet::new(), parents: vec![], start: vstart });
                if !c.eat_p(",") {
                    break;
                }
            }
            c.expect_p("}")?;
            d.end = c.pos();
            f.defs.push(d);
        } else if c.is_kw("const") || c.is_kw("let") || c.is_kw("var") {
            c.bump();
            let name = c.expect_ident()?.text.clone();
            let mut d = Def::new(DefKind::Const, &name, start);
            if c.eat_p(":") {
                d.const_type = Some(ty(&mut c)?);
            }
            c.expect_p("=")?;
            // literal or arbitrary balanced expression up to `;`
            let mut depth = 0i32;
            let mut text = vec![];
            let mut is_fn = false;
            while let Some(t) = c.peek() {
                if t.kind == TokKind::Punct {
                    match t.text.as_str() {
                        "(" | "[" | "{" => depth += 1,
                        ")" | "]" | "}" => {
                            depth -= 1;
                            if depth < 0 {
                                return c.fail(true, "unbalanced closing delimiter in initialiser");
                            }
                        }
                        "=>" => is_fn = true,
                        ";" if depth == 0 => break,
                        _ => {}
                    }
                }
                text.push(t);
                c.bump();
            }
            if depth != 0 {
                return c.fail(true, "unclosed delimiter in initialiser");
            }
            if !c.eat_p(";") {
                return c.fail(true, "expected `;` after const");
            }
            if is_fn {
                // the helper bodies are expressions and statements of plain JavaScript: an operator needs an operand on
                // both sides, and `()` is an operand only as a parameter list (`() =>`) or an argument list (`f()`)
                let binary = |t: &crate::lex::Tok| t.kind == TokKind::Punct && matches!(t.text.as_str(), "&&" | "||" | "===" | "!==" | "==" | "!=" | "<=" | ">=");
                for (i, w) in text.windows(2).enumerate() {
                    let (a, b) = (w[0], w[1]);
                    if a.kind == TokKind::Punct && a.text == "(" && b.kind == TokKind::Punct && b.text == ")" {
                        let before_is_operand = i > 0 && (text[i - 1].kind == TokKind::Ident || (text[i - 1].kind == TokKind::Punct && matches!(text[i - 1].text.as_str(), ")" | "]")));
                        let arrow_follows = text.get(i + 2).map(|t| t.kind == TokKind::Punct && (t.text == "=>" || t.text == ":")).unwrap_or(false);
                        if !before_is_operand && !arrow_follows {
                            return c.fail(true, "empty parenthesised expression `()` in a helper body");
                        }
                    }
                    if binary(a) && (binary(b) || (b.kind == TokKind::Punct && matches!(b.text.as_str(), ")" | "]" | "}" | ";" | ","))) {
                        return c.fail(true, "operator without a right operand in a helper body");
                    }
                    if binary(b) && a.kind == TokKind::Punct && matches!(a.text.as_str(), "(" | "[" | "{" | ";" | ",") {
                        return c.fail(true, "operator without a left operand in a helper body");
                    }
                }
                d.kind = DefKind::Helper;
                // record `key === "x"` tests
                for w in text.windows(3) {
                    if w[0].text == "key" && w[1].text == "===" && w[2].kind == TokKind::Str {
                        d.extra.push(("key-test".into(), w[2].text.clone()));
                    }
                }
                for t in &text {
                    if t.kind == TokKind::Ident && (t.text == "Date" || t.text == "Uint8Array") {
                        d.extra.push(("handles".into(), t.text.clone()));
                    }
                }
            } else {
                d.const_value = Some(text.iter().map(|t| t.text.clone()).collect::<Vec<_>>().join(""));
            }
            d.end = c.pos();
            f.defs.push(d);
        } else if exported {
            return c.fail(true, "`export` not followed by a declaration");
        } else {
            return c.fail(false, "unrecognised top-level construct");
        }
    }
    Ok(f)
}

fn generics(c: &mut Cur) -> PResult<Vec<String>> {
    let mut g = vec![];
    if c.eat_p("<") {
        loop {
            g.push(c.expect_ident()?.text.clone());
            if !c.eat_p(",") {
                break;
            }
        }
        c.expect_p(">")?;
    }
    Ok(g)
}

fn members(c: &mut Cur) -> PResult<Vec<Field>> {
    let mut out = vec![];
    while !c.is_p("}") && !c.eof() {
        let start = c.pos();
        let mut readonly = false;
        if c.is_kw("readonly") && !(c.is_p_at(1, ":") || c.is_p_at(1, "?")) {
            c.bump();
            readonly = true;
        }
        let (ident, key) = if c.is_str() {
            let s = c.expect_str()?.text.clone();
            (s.clone(), s)
        } else {
            let s = c.expect_ident()?.text.clone();
            (s.clone(), s)
        };
        let mut markers = BTreeSet::new();
        if c.eat_p("?") {
            markers.insert("?".to_string());
        }
        c.expect_p(":")?;
        let mut t = ty(c)?;
        // `T | null` / `T | undefined` at member level are optional markers, not part of the type
        if let TypeExpr::Union(parts) = &t {
            // `T | null` marks a double option; a trailing `| undefined` after a real type is an optional marker.
            // (`undefined` alone is typeshare's translation of `()` and stays a type.)
            let mut rest: Vec<TypeExpr> = vec![];
            for p in parts {
                match p {
                    TypeExpr::Name(n, a) if a.is_empty() && n == "null" => {
                        markers.insert("|null".into());
                    }
                    other => rest.push(other.clone()),
                }
            }
            if rest.len() >= 2 && rest.last() == Some(&TypeExpr::name("undefined")) {
                rest.pop();
                markers.insert("|undefined".into());
            }
            if rest.len() == 1 {
                t = rest.pop().unwrap();
            } else if rest.len() != parts.len() {
                t = TypeExpr::Union(rest);
            }
        }
        if !(c.eat_p(";") || c.eat_p(",")) && !c.is_p("}") && !c.nl_before() {
            return c.fail(true, "expected `;` after member");
        }
        out.push(Field { ident, wire_key: key, ty: t, markers, readonly, start });
    }
    Ok(out)
}

pub fn ty(c: &mut Cur) -> PResult<TypeExpr> {
    c.eat_p("|");
    let mut parts = vec![postfix(c)?];
    while c.eat_p("|") {
        parts.push(postfix(c)?);
    }
    Ok(if parts.len() == 1 { parts.pop().unwrap() } else { TypeExpr::Union(parts) })
}

fn postfix(c: &mut Cur) -> PResult<TypeExpr> {
    let mut t = primary(c)?;
    while c.is_p("[") && c.is_p_at(1, "]") {
        c.bump();
        c.bump();
        t = TypeExpr::Seq(Box::new(t));
    }
    Ok(t)
}

fn primary(c: &mut Cur) -> PResult<TypeExpr> {
    if c.is_str() {
        return Ok(TypeExpr::Lit(c.expect_str()?.text.clone()));
    }
    if matches!(c.peek(), Some(t) if t.kind == TokKind::Num) {
        return Ok(TypeExpr::Lit(c.bump().unwrap().text.clone()));
    }
    if c.eat_p("{") {
        let m = members(c)?;
        c.expect_p("}")?;
        return Ok(TypeExpr::Object(m));
    }
    if c.eat_p("(") {
        let t = ty(c)?;
        c.expect_p(")")?;
        return Ok(t);
    }
    if c.eat_p("[") {
        let mut v = vec![];
        while !c.is_p("]") {
            v.push(ty(c)?);
            if !c.eat_p(",") {
                break;
            }
        }
        c.expect_p("]")?;
        if !v.is_empty() && v.iter().all(|x| *x == v[0]) {
            let n = v.len();
            return Ok(TypeExpr::FixedSeq(Box::new(v.pop().unwrap()), n));
        }
        return Ok(TypeExpr::Tuple(v));
    }
    if c.is_ident() {
        let mut name = c.expect_ident()?.text.clone();
        while c.is_p(".") {
            c.bump();
            name.push('.');
            name.push_str(&c.expect_ident()?.text);
        }
        let mut args = vec![];
        if c.eat_p("<") {
            loop {
                args.push(ty(c)?);
                if !c.eat_p(",") {
                    break;
                }
            }
            c.expect_p(">")?;
        }
        if name == "Record" && args.len() == 2 {
            let v = args.pop().unwrap();
            let k = args.pop().unwrap();
            return Ok(TypeExpr::Map(Box::new(k), Box::new(v)));
        }
        if name == "Array" && args.len() == 1 {
            return Ok(TypeExpr::Seq(Box::new(args.pop().unwrap())));
        }
        return Ok(TypeExpr::Name(name, args));
    }
    c.fail(true, "expected a type")
}

/// `export type X = | { tag: "A", content?: undefined } | ...` is a tagged enum; anything else an alias.
fn classify_alias(d: &mut Def, t: TypeExpr) {
    let objs: Vec<&Vec<Field>> = match &t {
        TypeExpr::Object(m) => vec![m],
        TypeExpr::Union(parts) if parts.iter().all(|p| matches!(p, TypeExpr::Object(_))) => parts
            .iter()
            .map(|p| match p {
                TypeExpr::Object(m) => m,
                _ => unreachable!(),
            })
            .collect(),
        _ => vec![],
    };
    let tagged = !objs.is_empty()
        && objs.iter().all(|m| !m.is_empty() && m.len() <= 2 && matches!(m[0].ty, TypeExpr::Lit(_)));
    if !tagged {
        // trailing `| undefined` marks an optional alias
        if let TypeExpr::Union(parts) = &t {
            if parts.len() == 2 && parts[1] == TypeExpr::name("undefined") {
                d.alias_markers.insert("|undefined".into());
                d.alias_target = Some(parts[0].clone());
                return;
            }
        }
        d.alias_target = Some(t);
        return;
    }
    d.kind = DefKind::TaggedEnum;
    for (i, m) in objs.iter().enumerate() {
        let wire = match &m[0].ty {
            TypeExpr::Lit(s) => s.clone(),
            _ => unreachable!(),
        };
        d.tag_sites.push((format!("member{i}"), m[0].wire_key.clone()));
        let mut markers = BTreeSet::new();
        let payload = if let Some(cf) = m.get(1) {
            d.content_sites.push((format!("member{i}"), cf.wire_key.clone()));
            markers = cf.markers.clone();
            match &cf.ty {
                TypeExpr::Name(n, a) if n == "undefined" && a.is_empty() && cf.markers.contains("?") => Payload::None,
                TypeExpr::Object(fs) => Payload::Struct(fs.clone()),
                other => Payload::Newtype(other.clone()),
            }
        } else {
            Payload::None
        };
        d.variants.push(Variant { ident: wire.clone(), wire_name: Some(wire), payload, markers, parents: vec![], start: m[0].start });
    }
}
