//! Swift declaration-subset parser, including the synthesised Codable bodies of tagged enums.
use crate::ir::*;
use crate::lex::*;
use std::collections::BTreeSet;

pub const SWIFT_RESERVED: &[&str] = &[
    "associatedtype", "class", "deinit", "enum", "extension", "fileprivate", "func", "import", "init", "inout",
    "internal", "let", "operator", "private", "protocol", "public", "rethrows", "static", "struct", "subscript",
    "typealias", "var", "break", "case", "continue", "default", "defer", "do", "else", "fallthrough", "for", "guard",
    "if", "in", "repeat", "return", "switch", "where", "while", "as", "Any", "catch", "false", "is", "nil", "super",
    "self", "Self", "throw", "throws", "true", "try",
];

fn reserved(t: &Tok) -> bool {
    t.kind == TokKind::Ident && !t.backticked && SWIFT_RESERVED.contains(&t.text.as_str())
}

/// identifier in a *declaring* position: reserved words must be back-ticked
fn decl_ident<'a>(c: &mut Cur<'a>, what: &str) -> PResult<&'a Tok> {
    match c.peek() {
        Some(t) if t.kind == TokKind::Ident => {
            if reserved(t) {
                return c.fail(true, format!("reserved word `{}` used as {what} without backticks", t.text));
            }
            c.bump();
            Ok(t)
        }
        Some(t) if t.kind == TokKind::Num => c.fail(true, format!("expected identifier, found a name that starts with a digit ({what})")),
        _ => c.fail(true, format!("expected identifier ({what})")),
    }
}

pub fn ty(c: &mut Cur) -> PResult<TypeExpr> {
    let mut t = if c.eat_p("[") {
        let a = ty(c)?;
        if c.eat_p(":") {
            let b = ty(c)?;
            c.expect_p("]")?;
            TypeExpr::Map(Box::new(a), Box::new(b))
        } else {
            c.expect_p("]")?;
            TypeExpr::Seq(Box::new(a))
        }
    } else if c.eat_p("(") {
        if c.eat_p(")") {
            TypeExpr::name("()")
        } else {
            let t = ty(c)?;
            c.expect_p(")")?;
            t
        }
    } else {
        let first = match c.peek() {
            Some(t) if t.kind == TokKind::Ident => {
                if reserved(t) && t.text != "Any" && t.text != "Self" {
                    return c.fail(true, format!("reserved word `{}` used as a type name without backticks", t.text));
                }
                c.bump();
                t
            }
            _ => return c.fail(true, "expected a type"),
        };
        let mut name = first.text.clone();
        while c.is_p(".") && !c.nl_before() {
            c.bump();
            name.push('.');
            name.push_str(&c.expect_ident()?.text);
        }
        let mut args = vec![];
        if c.is_p("<") && !c.nl_before() {
            c.bump();
            loop {
                args.push(ty(c)?);
                if !c.eat_p(",") {
                    break;
                }
            }
            c.expect_p(">")?;
        }
        match (name.as_str(), args.len()) {
            ("Array", 1) => TypeExpr::Seq(Box::new(args.pop().unwrap())),
            ("Dictionary", 2) => {
                let v = args.pop().unwrap();
                let k = args.pop().unwrap();
                TypeExpr::Map(Box::new(k), Box::new(v))
            }
            ("Optional", 1) => TypeExpr::Nullable(Box::new(args.pop().unwrap())),
            _ => TypeExpr::Name(name, args),
        }
    };
    while c.is_p("?") && !c.nl_before() {
        c.bump();
        t = TypeExpr::Nullable(Box::new(t));
    }
    Ok(t)
}

/// `<T: A & B, U: C>` -> names; constraints recorded in extra
fn generics(c: &mut Cur, d: &mut Def) -> PResult<()> {
    if c.is_p("<") && !c.nl_before() {
        c.bump();
        loop {
            let g = decl_ident(c, "generic parameter")?.text.clone();
            if c.eat_p(":") {
                let mut cons = vec![];
                loop {
                    cons.push(ty(c)?.show());
                    if !c.eat_p("&") {
                        break;
                    }
                }
                d.extra.push((format!("constraint:{g}"), cons.join(" & ")));
            }
            d.generics.push(g);
            if !c.eat_p(",") {
                break;
            }
        }
        c.expect_p(">")?;
    }
    Ok(())
}

fn conformances(c: &mut Cur, d: &mut Def) -> PResult<()> {
    if c.eat_p(":") {
        loop {
            let t = ty(c)?;
            d.extra.push(("conforms".into(), t.show()));
            if !c.eat_p(",") {
                break;
            }
        }
    }
    Ok(())
}

fn modifiers(c: &mut Cur) -> Vec<String> {
    let mut m = vec![];
    while let Some(t) = c.peek() {
        if t.kind == TokKind::Ident && !t.backticked && matches!(t.text.as_str(), "public" | "private" | "fileprivate" | "internal" | "indirect" | "static" | "final") {
            m.push(t.text.clone());
            c.bump();
        } else {
            break;
        }
    }
    m
}

/// nested `enum CodingKeys: String, CodingKey, Codable { case a, b = "x" }` -> (case name, raw value)
fn coding_keys(c: &mut Cur) -> PResult<(String, Vec<(String, String)>)> {
    c.expect_kw("enum")?;
    let name = decl_ident(c, "enum name")?.text.clone();
    let mut dummy = Def::new(DefKind::Helper, &name, 0);
    conformances(c, &mut dummy)?;
    c.expect_p("{")?;
    let mut cases = vec![];
    while !c.is_p("}") {
        c.expect_kw("case")?;
        loop {
            let id = decl_ident(c, "enum case")?.text.clone();
            let mut raw = id.clone();
            if c.eat_p("=") {
                raw = c.expect_str()?.text.clone();
            }
            cases.push((id, raw));
            if !c.eat_p(",") {
                break;
            }
        }
    }
    c.expect_p("}")?;
    Ok((name, cases))
}

pub fn parse(l: &Lexed) -> PResult<File> {
    let mut f = File::from_lexed(l);
    let mut c = Cur::new(&l.toks);
    while !c.eof() {
        if c.is_kw("import") {
            c.bump();
            let m = c.expect_ident()?.text.clone();
            f.imports.push((m, vec![]));
            continue;
        }
        let start = c.pos();
        let mods = modifiers(&mut c);
        if c.is_kw("typealias") {
            c.bump();
            let name = decl_ident(&mut c, "type name")?.text.clone();
            let mut d = Def::new(DefKind::Alias, &name, start);
            generics(&mut c, &mut d)?;
            c.expect_p("=")?;
            d.alias_target = Some(ty(&mut c)?);
            d.end = c.pos();
            f.defs.push(d);
        } else if c.is_kw("struct") {
            c.bump();
            let name = decl_ident(&mut c, "type name")?.text.clone();
            let mut d = Def::new(DefKind::Struct, &name, start);
            generics(&mut c, &mut d)?;
            conformances(&mut c, &mut d)?;
            c.expect_p("{")?;
            struct_body(&mut c, &mut d)?;
            c.expect_p("}")?;
            d.end = c.pos();
            if name == "CodableVoid" {
                d.kind = DefKind::Helper;
            }
            f.defs.push(d);
        } else if c.is_kw("enum") {
            c.bump();
            let name = decl_ident(&mut c, "type name")?.text.clone();
            let mut d = Def::new(DefKind::UnitEnum, &name, start);
            if mods.iter().any(|m| m == "indirect") {
                d.extra.push(("indirect".into(), "true".into()));
            }
            generics(&mut c, &mut d)?;
            conformances(&mut c, &mut d)?;
            c.expect_p("{")?;
            enum_body(&mut c, &mut d)?;
            c.expect_p("}")?;
            d.end = c.pos();
            f.defs.push(d);
        } else if !mods.is_empty() {
            return c.fail(true, "modifier not followed by a declaration");
        } else {
            // no declaration of this language starts with a punctuation token (other than an attribute marker)
            if let Some(t) = c.peek() {
                if t.kind == crate::lex::TokKind::Punct && !matches!(t.text.as_str(), "@" | "#") {
                    return c.fail(true, format!("a top-level declaration cannot start with `{}`", t.text));
                }
            }
            // nor with a word that is not one of the language's declaration keywords / modifiers
            if let Some(t) = c.peek() {
                const STARTS: &[&str] = &["import", "public", "private", "fileprivate", "internal", "open", "final", "struct", "class", "enum", "protocol", "extension", "func", "var", "let", "typealias", "indirect", "static", "actor", "precedencegroup", "infix", "prefix", "postfix", "operator", "mutating", "nonmutating", "override", "required", "convenience", "lazy", "weak", "unowned", "dynamic", "optional", "init", "deinit", "subscript", "associatedtype", "nonisolated", "distributed"];
                if t.kind == crate::lex::TokKind::Ident && !t.backticked && !STARTS.contains(&t.text.as_str()) {
                    return c.fail(true, format!("a declaration cannot start with the word `{}`", t.text));
                }
            }
            return c.fail(false, "unrecognised top-level construct");
        }
    }
    Ok(f)
}

fn struct_body(c: &mut Cur, d: &mut Def) -> PResult<()> {
    let mut keys: Option<Vec<(String, String)>> = None;
    let mut init_params: Option<Vec<(String, TypeExpr)>> = None;
    while !c.is_p("}") && !c.eof() {
        let start = c.pos();
        let _m = modifiers(c);
        if c.is_kw("let") || c.is_kw("var") {
            c.bump();
            let ident = decl_ident(c, "property name")?.text.clone();
            c.expect_p(":")?;
            let mut t = ty(c)?;
            let mut markers = BTreeSet::new();
            if let TypeExpr::Nullable(inner) = &t {
                markers.insert("?".to_string());
                t = (**inner).clone();
            }
            d.fields.push(Field { ident: ident.clone(), wire_key: ident, ty: t, markers, readonly: false, start });
        } else if c.is_kw("enum") {
            let (n, cases) = coding_keys(c)?;
            if n == "CodingKeys" {
                keys = Some(cases);
            }
        } else if c.is_kw("init") {
            c.bump();
            if !c.is_p("(") {
                return c.fail(true, "expected parameter list after init");
            }
            let inner = c.skip_balanced()?;
            let mut p = Cur::new(inner);
            let mut ps = vec![];
            while !p.eof() {
                // `label name: Type` or `name: Type`; labels may be reserved words
                let a = p.expect_ident()?.text.clone();
                let mut name = a;
                if p.is_ident() {
                    name = p.expect_ident()?.text.clone();
                }
                p.expect_p(":")?;
                let t = ty(&mut p)?;
                ps.push((name, t));
                if !p.eat_p(",") {
                    break;
                }
            }
            if !p.eof() {
                return p.fail(true, "malformed init parameter list");
            }
            init_params = Some(ps);
            while c.is_kw("throws") || c.is_kw("rethrows") {
                c.bump();
            }
            if !c.is_p("{") {
                return c.fail(true, "expected init body");
            }
            let body = c.skip_balanced()?;
            // statements `self.x = y`
            let mut b = Cur::new(body);
            while !b.eof() {
                if b.is_kw("self") && b.is_p_at(1, ".") {
                    b.bump();
                    b.bump();
                    let lhs = b.expect_ident()?.text.clone();
                    b.expect_p("=")?;
                    let rhs = b.expect_ident()?.text.clone();
                    d.extra.push(("init-assign".into(), format!("{lhs}={rhs}")));
                } else {
                    return b.fail(false, "unrecognised statement in init body");
                }
            }
        } else if c.is_kw("func") {
            c.bump();
            c.expect_ident()?;
            if !c.is_p("(") {
                return c.fail(true, "expected parameter list");
            }
            c.skip_balanced()?;
            while c.is_kw("throws") {
                c.bump();
            }
            if c.eat_p("->") {
                ty(c)?;
            }
            if !c.is_p("{") {
                return c.fail(true, "expected function body");
            }
            c.skip_balanced()?;
        } else {
            return c.fail(false, "unrecognised struct member");
        }
    }
    // binding rule: with a CodingKeys enum every stored property needs a case; the raw value is the key
    if let Some(keys) = &keys {
        for fld in d.fields.iter_mut() {
            match keys.iter().find(|(n, _)| *n == fld.ident) {
                Some((_, raw)) => fld.wire_key = raw.clone(),
                None => d.issues.push(format!("stored property `{}` has no CodingKeys case", fld.ident)),
            }
        }
        for (n, _) in keys {
            if !d.fields.iter().any(|f| f.ident == *n) {
                d.issues.push(format!("CodingKeys case `{n}` names no stored property"));
            }
        }
    }
    if let Some(ps) = &init_params {
        if ps.len() != d.fields.len() {
            d.issues.push(format!("init has {} parameters for {} stored properties", ps.len(), d.fields.len()));
        }
        for (fld, (pn, pt)) in d.fields.iter().zip(ps.iter()) {
            let mut full = fld.ty.clone();
            if fld.markers.contains("?") {
                full = TypeExpr::Nullable(Box::new(full));
            }
            if *pt != full {
                d.issues.push(format!("init parameter `{pn}`: type {} differs from property type {}", pt.show(), full.show()));
            }
        }
    }
    Ok(())
}

/// split the tokens of a `switch` body into arms starting at `case` / `default` at depth 0
fn switch_arms<'a>(body: &'a [Tok]) -> Vec<&'a [Tok]> {
    let mut arms = vec![];
    let mut depth = 0i32;
    let mut cur_start: Option<usize> = None;
    for (i, t) in body.iter().enumerate() {
        if t.kind == TokKind::Punct {
            match t.text.as_str() {
                "(" | "[" | "{" => depth += 1,
                ")" | "]" | "}" => depth -= 1,
                _ => {}
            }
        }
        if depth == 0 && t.kind == TokKind::Ident && !t.backticked && (t.text == "case" || t.text == "default") && t.nl_before {
            if let Some(s) = cur_start {
                arms.push(&body[s..i]);
            }
            cur_start = Some(i);
        }
    }
    if let Some(s) = cur_start {
        arms.push(&body[s..]);
    }
    arms
}

/// find `switch <x> {` inside toks and return its body
fn find_switch<'a>(toks: &'a [Tok]) -> Option<&'a [Tok]> {
    let mut i = 0;
    while i < toks.len() {
        if toks[i].kind == TokKind::Ident && toks[i].text == "switch" && !toks[i].backticked {
            let mut j = i + 1;
            while j < toks.len() && !(toks[j].kind == TokKind::Punct && toks[j].text == "{") {
                j += 1;
            }
            if j < toks.len() {
                let mut c = Cur::new(&toks[j..]);
                return c.skip_balanced().ok();
            }
        }
        i += 1;
    }
    None
}

/// all `forKey: .x` occurrences in a token slice
fn for_keys(toks: &[Tok]) -> Vec<String> {
    let mut v = vec![];
    for w in toks.windows(4) {
        if w[0].text == "forKey" && w[1].text == ":" && w[2].text == "." && w[3].kind == TokKind::Ident {
            v.push(w[3].text.clone());
        }
    }
    v
}

fn enum_body(c: &mut Cur, d: &mut Def) -> PResult<()> {
    let mut coding: Option<Vec<(String, String)>> = None;
    let mut container: Option<Vec<(String, String)>> = None;
    let mut decode_body: Option<&[Tok]> = None;
    let mut encode_body: Option<&[Tok]> = None;
    while !c.is_p("}") && !c.eof() {
        let vstart = c.pos();
        let _m = modifiers(c);
        if c.is_kw("case") {
            c.bump();
            loop {
                let id = decl_ident(c, "enum case")?.text.clone();
                let mut payload = Payload::None;
                let mut wire = None;
                if c.is_p("(") && !c.nl_before() {
                    c.bump();
                    let t = ty(c)?;
                    c.expect_p(")")?;
                    payload = Payload::Newtype(t);
                }
                if c.eat_p("=") {
                    wire = Some(c.expect_str()?.text.clone());
                }
                d.variants.push(Variant { ident: id, wire_name: wire, payload, markers: BTreeSet::new(), parents: vec![], start: vstart });
                if !c.eat_p(",") {
                    break;
                }
            }
        } else if c.is_kw("enum") {
            let (n, cases) = coding_keys(c)?;
            if n == "CodingKeys" {
                coding = Some(cases);
            } else if n == "ContainerCodingKeys" {
                container = Some(cases);
            }
        } else if c.is_kw("init") {
            c.bump();
            if !c.is_p("(") {
                return c.fail(true, "expected parameter list after init");
            }
            c.skip_balanced()?;
            while c.is_kw("throws") {
                c.bump();
            }
            if !c.is_p("{") {
                return c.fail(true, "expected init body");
            }
            decode_body = Some(c.skip_balanced()?);
        } else if c.is_kw("func") {
            c.bump();
            let n = c.expect_ident()?.text.clone();
            if !c.is_p("(") {
                return c.fail(true, "expected parameter list");
            }
            c.skip_balanced()?;
            while c.is_kw("throws") {
                c.bump();
            }
            if c.eat_p("->") {
                ty(c)?;
            }
            if !c.is_p("{") {
                return c.fail(true, "expected function body");
            }
            let b = c.skip_balanced()?;
            if n == "encode" {
                encode_body = Some(b);
            }
        } else {
            return c.fail(false, "unrecognised enum member");
        }
    }
    let tagged = container.is_some() || decode_body.is_some() || encode_body.is_some();
    if !tagged {
        // unit enum with raw values: the wire name is the raw value or the case name
        for v in d.variants.iter_mut() {
            if v.wire_name.is_none() {
                v.wire_name = Some(v.ident.clone());
            }
        }
        return Ok(());
    }
    d.kind = DefKind::TaggedEnum;
    let coding = coding.unwrap_or_default();
    let container = container.unwrap_or_default();
    let key_of = |case: &str| container.iter().find(|(n, _)| n == case).map(|(_, r)| r.clone());
    // variant wire names come from CodingKeys
    for v in d.variants.iter_mut() {
        match coding.iter().find(|(n, _)| *n == v.ident) {
            Some((_, raw)) => v.wire_name = Some(raw.clone()),
            None => d.issues.push(format!("variant `{}` has no CodingKeys case", v.ident)),
        }
    }
    for (n, _) in &coding {
        if !d.variants.iter().any(|v| v.ident == *n) {
            d.issues.push(format!("CodingKeys case `{n}` names no variant"));
        }
    }
    if container.len() != 2 {
        d.issues.push(format!("ContainerCodingKeys has {} cases, expected tag and content", container.len()));
    }
    if let Some((_, raw)) = container.first() {
        d.tag_sites.push(("ContainerCodingKeys[0]".into(), raw.clone()));
    }
    if let Some((_, raw)) = container.get(1) {
        d.content_sites.push(("ContainerCodingKeys[1]".into(), raw.clone()));
    }
    let has_payload = |name: &str, d: &Def| d.variants.iter().find(|v| v.ident == name).map(|v| v.payload != Payload::None);
    // decoder
    if let Some(body) = decode_body {
        // the tag is read with `container.decode(CodingKeys.self, forKey: .tag)` before the switch
        let sw = find_switch(body);
        let pre_len = sw.map(|s| s.as_ptr() as usize - body.as_ptr() as usize).unwrap_or(0) / std::mem::size_of::<Tok>();
        let pre = &body[..pre_len.min(body.len())];
        for k in for_keys(pre) {
            match key_of(&k) {
                Some(raw) => d.tag_sites.push(("decode:tag".into(), raw)),
                None => d.issues.push(format!("decoder reads the tag with undeclared key `.{k}`")),
            }
        }
        let arms = sw.map(switch_arms).unwrap_or_default();
        let mut seen: Vec<String> = vec![];
        for arm in &arms {
            // `case .name:`
            if arm.len() >= 3 && arm[0].text == "case" && arm[1].text == "." {
                let name = arm[2].text.clone();
                seen.push(name.clone());
                let keys = for_keys(arm);
                match has_payload(&name, d) {
                    None => d.issues.push(format!("decoder arm for undeclared case `.{name}`")),
                    Some(true) => {
                        if keys.is_empty() {
                            d.issues.push(format!("decoder arm `.{name}` never reads the content"));
                        }
                        for k in keys {
                            match key_of(&k) {
                                Some(raw) => d.content_sites.push((format!("decode:{name}"), raw)),
                                None => d.issues.push(format!("decoder arm `.{name}` uses undeclared key `.{k}`")),
                            }
                        }
                    }
                    Some(false) => {
                        for k in keys {
                            d.issues.push(format!("decoder arm of unit case `.{name}` reads key `.{k}`"));
                        }
                    }
                }
                // `self = .name` must construct the same case
                for w in arm.windows(4) {
                    if w[0].text == "self" && w[1].text == "=" && w[2].text == "." && w[3].text != name {
                        d.issues.push(format!("decoder arm `.{name}` constructs `.{}`", w[3].text));
                    }
                }
            }
        }
        for v in &d.variants {
            let n = seen.iter().filter(|s| **s == v.ident).count();
            if n != 1 {
                d.issues.push(format!("variant `{}` has {n} decoder arms", v.ident));
            }
        }
    } else {
        d.issues.push("tagged enum without init(from:)".into());
    }
    // encoder
    if let Some(body) = encode_body {
        let arms = find_switch(body).map(switch_arms).unwrap_or_default();
        let mut seen: Vec<String> = vec![];
        for arm in &arms {
            if arm.len() >= 3 && arm[0].text == "case" && arm[1].text == "." {
                let name = arm[2].text.clone();
                seen.push(name.clone());
                // statements: `try container.encode(CodingKeys.x, forKey: .tag)` / `try container.encode(content, forKey: .content)`
                let mut i = 0;
                let mut tag_writes = 0;
                let mut content_writes = 0;
                while i + 1 < arm.len() {
                    if arm[i].text == "encode" && arm[i + 1].text == "(" {
                        let mut cc = Cur::new(&arm[i + 1..]);
                        if let Ok(args) = cc.skip_balanced() {
                            let fk = for_keys(args);
                            let is_tag = args.len() >= 3 && args[0].text == "CodingKeys" && args[1].text == ".";
                            if is_tag {
                                tag_writes += 1;
                                if args[2].text != name {
                                    d.issues.push(format!("encoder arm `.{name}` writes tag CodingKeys.{}", args[2].text));
                                }
                                for k in fk {
                                    match key_of(&k) {
                                        Some(raw) => d.tag_sites.push((format!("encode:{name}"), raw)),
                                        None => d.issues.push(format!("encoder arm `.{name}` uses undeclared key `.{k}`")),
                                    }
                                }
                            } else {
                                content_writes += 1;
                                for k in fk {
                                    match key_of(&k) {
                                        Some(raw) => d.content_sites.push((format!("encode:{name}"), raw)),
                                        None => d.issues.push(format!("encoder arm `.{name}` uses undeclared key `.{k}`")),
                                    }
                                }
                            }
                        }
                    }
                    i += 1;
                }
                if tag_writes != 1 {
                    d.issues.push(format!("encoder arm `.{name}` writes the tag {tag_writes} times"));
                }
                match has_payload(&name, d) {
                    Some(true) if content_writes != 1 => d.issues.push(format!("encoder arm `.{name}` writes the content {content_writes} times")),
                    Some(false) if content_writes != 0 => d.issues.push(format!("encoder arm of unit case `.{name}` writes content")),
                    None => d.issues.push(format!("encoder arm for undeclared case `.{name}`")),
                    _ => {}
                }
            }
        }
        for v in &d.variants {
            let n = seen.iter().filter(|s| **s == v.ident).count();
            if n != 1 {
                d.issues.push(format!("variant `{}` has {n} encoder arms", v.ident));
            }
        }
    } else {
        d.issues.push("tagged enum without encode(to:)".into());
    }
    Ok(())
}
