//! Per-language parsers: generated text -> foreign IR.
pub mod go;
pub mod kotlin;
pub mod python;
pub mod scala;
pub mod swift;
pub mod ts;

use crate::ir::{File, ParseStatus};
use crate::lex::{check_balanced, lex, Lexed};
use crate::sut::LangId;

/// Parse one generated file of a brace language (not Python).
pub fn parse_text(lang: LangId, text: &str) -> (ParseStatus, Lexed) {
    assert!(lang != LangId::Python, "python goes through pytools/pycheck.py");
    let l = lex(lang, text);
    if let Some(e) = &l.error {
        return (ParseStatus::IllFormed(format!("lexical: {e}")), l);
    }
    if let Err(e) = check_balanced(&l.toks) {
        return (ParseStatus::IllFormed(format!("delimiters: {e}")), l);
    }
    let r: crate::lex::PResult<File> = match lang {
        LangId::Ts => ts::parse(&l),
        LangId::Kotlin => kotlin::parse(&l),
        LangId::Swift => swift::parse(&l),
        LangId::Scala => scala::parse(&l),
        LangId::Go => go::parse(&l),
        LangId::Python => unreachable!(),
    };
    let st = match r {
        Ok(f) => ParseStatus::Parsed(f),
        Err(f) if f.definite => ParseStatus::IllFormed(format!("syntax at byte {}: {}", f.pos, f.msg)),
        Err(f) => ParseStatus::OutsideSubset(format!("at byte {}: {}", f.pos, f.msg)),
    };
    (st, l)
}
