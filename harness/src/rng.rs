//! Small deterministic PRNG (xoshiro256** seeded by splitmix64). No external crates.

#[derive(Clone, Debug)]
pub struct Rng {
    s: [u64; 4],
}

fn splitmix(x: &mut u64) -> u64 {
    *x = x.wrapping_add(0x9E37_79B9_7F4A_7C15);
    let mut z = *x;
    z = (z ^ (z >> 30)).wrapping_mul(0xBF58_476D_1CE4_E5B9);
    z = (z ^ (z >> 27)).wrapping_mul(0x94D0_49BB_1331_11EB);
    z ^ (z >> 31)
}

pub fn hash_str(s: &str) -> u64 {
    let mut h: u64 = 0xcbf2_9ce4_8422_2325;
    for b in s.bytes() {
        h ^= b as u64;
        h = h.wrapping_mul(0x0000_0100_0000_01B3);
    }
    h
}

pub fn hash_bytes(s: &[u8]) -> u64 {
    let mut h: u64 = 0xcbf2_9ce4_8422_2325;
    for b in s {
        h ^= *b as u64;
        h = h.wrapping_mul(0x0000_0100_0000_01B3);
    }
    h
}

impl Rng {
    pub fn new(seed: u64) -> Self {
        let mut x = seed;
        Rng {
            s: [
                splitmix(&mut x),
                splitmix(&mut x),
                splitmix(&mut x),
                splitmix(&mut x),
            ],
        }
    }
    /// Derive an independent stream for (seed, label, index).
    pub fn derive(seed: u64, label: &str, idx: u64) -> Self {
        Rng::new(seed ^ hash_str(label).rotate_left(17) ^ idx.wrapping_mul(0xD6E8_FEB8_6659_FD93))
    }
    pub fn next_u64(&mut self) -> u64 {
        let r = self.s[1].wrapping_mul(5).rotate_left(7).wrapping_mul(9);
        let t = self.s[1] << 17;
        self.s[2] ^= self.s[0];
        self.s[3] ^= self.s[1];
        self.s[1] ^= self.s[2];
        self.s[0] ^= self.s[3];
        self.s[2] ^= t;
        self.s[3] = self.s[3].rotate_left(45);
        r
    }
    /// uniform in 0..n (n > 0)
    pub fn below(&mut self, n: usize) -> usize {
        (self.next_u64() % (n as u64)) as usize
    }
    pub fn range(&mut self, lo: usize, hi_incl: usize) -> usize {
        lo + self.below(hi_incl - lo + 1)
    }
    pub fn chance(&mut self, num: u32, den: u32) -> bool {
        (self.next_u64() % den as u64) < num as u64
    }
    pub fn coin(&mut self) -> bool {
        self.next_u64() & 1 == 1
    }
    pub fn pick<'a, T>(&mut self, xs: &'a [T]) -> &'a T {
        &xs[self.below(xs.len())]
    }
    pub fn shuffle<T>(&mut self, xs: &mut [T]) {
        for i in (1..xs.len()).rev() {
            let j = self.below(i + 1);
            xs.swap(i, j);
        }
    }
    pub fn letters(&mut self, alphabet: &str, n: usize) -> String {
        let a: Vec<char> = alphabet.chars().collect();
        (0..n).map(|_| *self.pick(&a)).collect()
    }
}
