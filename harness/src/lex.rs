//! Generic tokeniser for the brace languages typeshare emits (TypeScript, Kotlin, Swift, Scala, Go).
//! It knows comments (nested where the language nests them), string / char / raw-string literals
//! and backtick identifiers, and records byte spans so that C15 can classify every byte.
use crate::sut::LangId;

#[derive(Clone, Copy, Debug, PartialEq, Eq)]
pub enum TokKind {
    Ident,
    Num,
    Str,
    Punct,
}

#[derive(Clone, Debug)]
pub struct Tok {
    pub kind: TokKind,
    /// identifier text (backticks removed), unescaped string value, number text or punctuation
    pub text: String,
    pub start: usize,
    pub end: usize,
    pub nl_before: bool,
    pub backticked: bool,
}

#[derive(Clone, Debug)]
pub struct Comment {
    pub start: usize,
    pub end: usize,
    /// text without the comment markers
    pub text: String,
    pub block: bool,
}

#[derive(Clone, Debug, Default)]
pub struct Lexed {
    pub toks: Vec<Tok>,
    pub comments: Vec<Comment>,
    /// spans of string literals (for byte classification)
    pub strings: Vec<(usize, usize)>,
    /// definite lexical error (unterminated literal / comment, stray character)
    pub error: Option<String>,
}

const MULTI: &[&str] = &[
    "===", "!==", "...", "->", "=>", "==", "!=", "&&", "||", "::", ":=", "<=", ">=", "+=", "-=",
];

pub fn lex(lang: LangId, src: &str) -> Lexed {
    let b = src.as_bytes();
    let mut out = Lexed::default();
    let mut i = 0usize;
    let mut nl = true;
    let nested = matches!(lang, LangId::Swift | LangId::Kotlin | LangId::Scala);
    while i < b.len() {
        let c = b[i];
        if c == b'\n' {
            nl = true;
            i += 1;
            continue;
        }
        if c == b' ' || c == b'\t' || c == b'\r' {
            i += 1;
            continue;
        }
        // comments
        if c == b'/' && i + 1 < b.len() && b[i + 1] == b'/' {
            let s = i;
            while i < b.len() && b[i] != b'\n' {
                i += 1;
            }
            let body = src[s + 2..i].trim_start_matches('/').to_string();
            out.comments.push(Comment { start: s, end: i, text: body, block: false });
            continue;
        }
        if c == b'/' && i + 1 < b.len() && b[i + 1] == b'*' {
            let s = i;
            i += 2;
            let mut depth = 1;
            while i < b.len() && depth > 0 {
                if b[i] == b'*' && i + 1 < b.len() && b[i + 1] == b'/' {
                    depth -= 1;
                    i += 2;
                } else if nested && b[i] == b'/' && i + 1 < b.len() && b[i + 1] == b'*' {
                    depth += 1;
                    i += 2;
                } else {
                    i += 1;
                }
            }
            if depth > 0 {
                out.error = Some(format!("unterminated block comment starting at byte {s}"));
                return out;
            }
            let inner = &src[s + 2..i - 2];
            if inner.contains('\n') {
                nl = true;
            }
            out.comments.push(Comment { start: s, end: i, text: inner.to_string(), block: true });
            continue;
        }
        // TypeScript regular-expression literal (only inside the reviver helper): `/` where no operand can end
        if c == b'/' && lang == LangId::Ts {
            let operand_before = matches!(out.toks.last(), Some(t) if t.kind != TokKind::Punct || t.text == ")" || t.text == "]");
            if !operand_before {
                let s = i;
                i += 1;
                let mut closed = false;
                let mut in_class = false;
                while i < b.len() && b[i] != b'\n' {
                    match b[i] {
                        b'\\' => i += 1,
                        b'[' => in_class = true,
                        b']' => in_class = false,
                        b'/' if !in_class => {
                            closed = true;
                            break;
                        }
                        _ => {}
                    }
                    i += 1;
                }
                if !closed {
                    out.error = Some(format!("unterminated regular expression literal at byte {s}"));
                    return out;
                }
                i += 1;
                while i < b.len() && (b[i] as char).is_ascii_alphabetic() {
                    i += 1;
                }
                out.strings.push((s, i));
                out.toks.push(Tok { kind: TokKind::Str, text: src[s..i].to_string(), start: s, end: i, nl_before: nl, backticked: false });
                nl = false;
                continue;
            }
        }
        // strings
        if c == b'"' {
            let s = i;
            let triple = i + 2 < b.len() && b[i + 1] == b'"' && b[i + 2] == b'"' && lang != LangId::Go && lang != LangId::Ts;
            if triple {
                i += 3;
                let mut closed = false;
                while i + 2 < b.len() + 0 {
                    if b[i] == b'"' && b[i + 1] == b'"' && b[i + 2] == b'"' {
                        i += 3;
                        closed = true;
                        break;
                    }
                    i += 1;
                }
                if !closed {
                    out.error = Some(format!("unterminated triple-quoted string at byte {s}"));
                    return out;
                }
                out.strings.push((s, i));
                out.toks.push(Tok { kind: TokKind::Str, text: src[s + 3..i - 3].to_string(), start: s, end: i, nl_before: nl, backticked: false });
                nl = false;
                continue;
            }
            i += 1;
            let mut val = String::new();
            let mut closed = false;
            while i < b.len() {
                let ch = b[i];
                if ch == b'\\' {
                    if i + 1 >= b.len() {
                        break;
                    }
                    let e = b[i + 1];
                    match e {
                        b'n' => val.push('\n'),
                        b't' => val.push('\t'),
                        b'r' => val.push('\r'),
                        b'0' => val.push('\0'),
                        b'u' => {
                            // \u{XXXX} (Rust {:?}, Swift) or \uXXXX
                            let mut j = i + 2;
                            let mut hex = String::new();
                            if j < b.len() && b[j] == b'{' {
                                j += 1;
                                while j < b.len() && b[j] != b'}' {
                                    hex.push(b[j] as char);
                                    j += 1;
                                }
                                j += 1;
                            } else {
                                while j < b.len() && hex.len() < 4 && (b[j] as char).is_ascii_hexdigit() {
                                    hex.push(b[j] as char);
                                    j += 1;
                                }
                            }
                            if let Some(chh) = u32::from_str_radix(&hex, 16).ok().and_then(char::from_u32) {
                                val.push(chh);
                            }
                            i = j;
                            continue;
                        }
                        other => val.push(other as char),
                    }
                    i += 2;
                    continue;
                }
                if ch == b'"' {
                    closed = true;
                    i += 1;
                    break;
                }
                if ch == b'\n' {
                    break;
                }
                // copy one UTF-8 char
                let chs = src[i..].chars().next().unwrap();
                val.push(chs);
                i += chs.len_utf8();
            }
            if !closed {
                out.error = Some(format!("unterminated string literal starting at byte {s}"));
                return out;
            }
            out.strings.push((s, i));
            out.toks.push(Tok { kind: TokKind::Str, text: val, start: s, end: i, nl_before: nl, backticked: false });
            nl = false;
            continue;
        }
        if c == b'\'' {
            // TS: string; Kotlin/Scala/Go: char literal; Swift: not a literal at all
            let s = i;
            i += 1;
            let mut val = String::new();
            let mut closed = false;
            while i < b.len() {
                let ch = b[i];
                if ch == b'\\' && i + 1 < b.len() {
                    val.push(b[i + 1] as char);
                    i += 2;
                    continue;
                }
                if ch == b'\'' {
                    closed = true;
                    i += 1;
                    break;
                }
                if ch == b'\n' {
                    break;
                }
                let chs = src[i..].chars().next().unwrap();
                val.push(chs);
                i += chs.len_utf8();
            }
            if !closed || lang == LangId::Swift {
                out.error = Some(format!("stray or unterminated single-quote literal at byte {s}"));
                return out;
            }
            if lang != LangId::Ts && val.chars().count() != 1 {
                // Scala symbols ('sym) exist but typeshare never emits them
                out.error = Some(format!("malformed character literal at byte {s}"));
                return out;
            }
            out.strings.push((s, i));
            out.toks.push(Tok { kind: TokKind::Str, text: val, start: s, end: i, nl_before: nl, backticked: false });
            nl = false;
            continue;
        }
        if c == b'`' {
            let s = i;
            // an escaped identifier is a whole token: a backtick glued to the end of a word (`OP`Type``) is no identifier
            if !matches!(lang, LangId::Go | LangId::Ts) && s > 0 && (b[s - 1].is_ascii_alphanumeric() || b[s - 1] == b'_') {
                out.error = Some(format!("backtick inside an identifier at byte {s}"));
                return out;
            }
            i += 1;
            let mut closed = false;
            let st = i;
            while i < b.len() {
                if b[i] == b'`' {
                    closed = true;
                    break;
                }
                if b[i] == b'\n' && lang != LangId::Go && lang != LangId::Ts {
                    break;
                }
                i += 1;
            }
            if !closed {
                out.error = Some(format!("unterminated backtick literal at byte {s}"));
                return out;
            }
            let inner = src[st..i].to_string();
            i += 1;
            match lang {
                LangId::Go | LangId::Ts => {
                    out.strings.push((s, i));
                    out.toks.push(Tok { kind: TokKind::Str, text: inner, start: s, end: i, nl_before: nl, backticked: true });
                }
                _ => {
                    if inner.is_empty() {
                        out.error = Some(format!("empty backtick identifier at byte {s}"));
                        return out;
                    }
                    out.toks.push(Tok { kind: TokKind::Ident, text: inner, start: s, end: i, nl_before: nl, backticked: true });
                }
            }
            nl = false;
            continue;
        }
        // identifiers
        let ch = src[i..].chars().next().unwrap();
        if ch.is_alphabetic() || ch == '_' || ch == '$' {
            let s = i;
            while i < b.len() {
                let ch = src[i..].chars().next().unwrap();
                if ch.is_alphanumeric() || ch == '_' || ch == '$' {
                    i += ch.len_utf8();
                } else {
                    break;
                }
            }
            out.toks.push(Tok { kind: TokKind::Ident, text: src[s..i].to_string(), start: s, end: i, nl_before: nl, backticked: false });
            nl = false;
            continue;
        }
        if ch.is_ascii_digit() {
            let s = i;
            while i < b.len() && ((b[i] as char).is_ascii_alphanumeric() || b[i] == b'.' || b[i] == b'_') {
                // stop at ".." or ".ident"
                if b[i] == b'.' && !(i + 1 < b.len() && (b[i + 1] as char).is_ascii_digit()) {
                    break;
                }
                i += 1;
            }
            out.toks.push(Tok { kind: TokKind::Num, text: src[s..i].to_string(), start: s, end: i, nl_before: nl, backticked: false });
            nl = false;
            continue;
        }
        if !ch.is_ascii() {
            out.error = Some(format!("stray non-ASCII character {ch:?} at byte {i}"));
            return out;
        }
        // punctuation
        let mut matched = None;
        for m in MULTI {
            if src[i..].starts_with(m) {
                matched = Some(*m);
                break;
            }
        }
        let text = matched.map(|m| m.to_string()).unwrap_or_else(|| (c as char).to_string());
        if matches!(c, b'#' | b'\\') && !(lang == LangId::Swift && c == b'#') {
            out.error = Some(format!("stray character {:?} at byte {i}", c as char));
            return out;
        }
        let l = text.len();
        out.toks.push(Tok { kind: TokKind::Punct, text, start: i, end: i + l, nl_before: nl, backticked: false });
        nl = false;
        i += l;
    }
    out
}

/// Check that (), [] and {} are balanced and properly nested over the token stream.
pub fn check_balanced(toks: &[Tok]) -> Result<(), String> {
    let mut stack: Vec<(char, usize)> = vec![];
    for t in toks {
        if t.kind != TokKind::Punct {
            continue;
        }
        match t.text.as_str() {
            "(" | "[" | "{" => stack.push((t.text.chars().next().unwrap(), t.start)),
            ")" | "]" | "}" => {
                let want = match t.text.as_str() {
                    ")" => '(',
                    "]" => '[',
                    _ => '{',
                };
                match stack.pop() {
                    Some((o, _)) if o == want => {}
                    Some((o, p)) => return Err(format!("mismatched delimiter {} at byte {} closes {} opened at byte {}", t.text, t.start, o, p)),
                    None => return Err(format!("unbalanced closing {} at byte {}", t.text, t.start)),
                }
            }
            _ => {}
        }
    }
    if let Some((o, p)) = stack.pop() {
        return Err(format!("unclosed {o} opened at byte {p}"));
    }
    Ok(())
}

/// Parse failure: `definite` = the language certainly rejects this text; otherwise the text is
/// balanced but outside the declaration subset this parser knows (inconclusive).
#[derive(Debug, Clone)]
pub struct Fail {
    pub definite: bool,
    pub msg: String,
    pub pos: usize,
}

pub type PResult<T> = Result<T, Fail>;

/// Token cursor with the helpers the recursive-descent parsers share.
pub struct Cur<'a> {
    pub toks: &'a [Tok],
    pub i: usize,
}

impl<'a> Cur<'a> {
    pub fn new(toks: &'a [Tok]) -> Self {
        Cur { toks, i: 0 }
    }
    pub fn eof(&self) -> bool {
        self.i >= self.toks.len()
    }
    pub fn peek(&self) -> Option<&'a Tok> {
        self.toks.get(self.i)
    }
    pub fn peek_at(&self, n: usize) -> Option<&'a Tok> {
        self.toks.get(self.i + n)
    }
    pub fn pos(&self) -> usize {
        self.peek().map(|t| t.start).unwrap_or_else(|| self.toks.last().map(|t| t.end).unwrap_or(0))
    }
    pub fn is_p(&self, p: &str) -> bool {
        matches!(self.peek(), Some(t) if t.kind == TokKind::Punct && t.text == p)
    }
    pub fn is_p_at(&self, n: usize, p: &str) -> bool {
        matches!(self.peek_at(n), Some(t) if t.kind == TokKind::Punct && t.text == p)
    }
    pub fn is_kw(&self, k: &str) -> bool {
        matches!(self.peek(), Some(t) if t.kind == TokKind::Ident && !t.backticked && t.text == k)
    }
    pub fn is_kw_at(&self, n: usize, k: &str) -> bool {
        matches!(self.peek_at(n), Some(t) if t.kind == TokKind::Ident && !t.backticked && t.text == k)
    }
    pub fn is_ident(&self) -> bool {
        matches!(self.peek(), Some(t) if t.kind == TokKind::Ident)
    }
    pub fn is_str(&self) -> bool {
        matches!(self.peek(), Some(t) if t.kind == TokKind::Str)
    }
    pub fn nl_before(&self) -> bool {
        self.peek().map(|t| t.nl_before).unwrap_or(true)
    }
    pub fn bump(&mut self) -> Option<&'a Tok> {
        let t = self.toks.get(self.i);
        if t.is_some() {
            self.i += 1;
        }
        t
    }
    pub fn eat_p(&mut self, p: &str) -> bool {
        if self.is_p(p) {
            self.i += 1;
            true
        } else {
            false
        }
    }
    pub fn eat_kw(&mut self, k: &str) -> bool {
        if self.is_kw(k) {
            self.i += 1;
            true
        } else {
            false
        }
    }
    pub fn fail<T>(&self, definite: bool, msg: impl Into<String>) -> PResult<T> {
        let near: Vec<String> = self.toks[self.i.min(self.toks.len())..].iter().take(6).map(|t| t.text.clone()).collect();
        Err(Fail { definite, msg: format!("{} (near: {})", msg.into(), near.join(" ")), pos: self.pos() })
    }
    pub fn expect_p(&mut self, p: &str) -> PResult<()> {
        if self.eat_p(p) {
            Ok(())
        } else {
            self.fail(true, format!("expected `{p}`"))
        }
    }
    pub fn expect_kw(&mut self, k: &str) -> PResult<()> {
        if self.eat_kw(k) {
            Ok(())
        } else {
            self.fail(true, format!("expected keyword `{k}`"))
        }
    }
    pub fn expect_ident(&mut self) -> PResult<&'a Tok> {
        match self.peek() {
            Some(t) if t.kind == TokKind::Ident => {
                self.i += 1;
                Ok(t)
            }
            // a name that starts with a digit is lexed as a number: its own class of defect
            Some(t) if t.kind == TokKind::Num => self.fail(true, "expected identifier, found a name that starts with a digit"),
            _ => self.fail(true, "expected identifier"),
        }
    }
    pub fn expect_str(&mut self) -> PResult<&'a Tok> {
        match self.peek() {
            Some(t) if t.kind == TokKind::Str => {
                self.i += 1;
                Ok(t)
            }
            _ => self.fail(true, "expected string literal"),
        }
    }
    /// current token is an opening delimiter: skip to just after its match, return the inner tokens
    pub fn skip_balanced(&mut self) -> PResult<&'a [Tok]> {
        let open = match self.peek() {
            Some(t) if t.kind == TokKind::Punct && matches!(t.text.as_str(), "(" | "[" | "{") => t.text.clone(),
            _ => return self.fail(true, "expected an opening delimiter"),
        };
        let start = self.i + 1;
        let mut depth = 0i32;
        while let Some(t) = self.peek() {
            if t.kind == TokKind::Punct {
                match t.text.as_str() {
                    "(" | "[" | "{" => depth += 1,
                    ")" | "]" | "}" => {
                        depth -= 1;
                        if depth == 0 {
                            let inner = &self.toks[start..self.i];
                            self.i += 1;
                            return Ok(inner);
                        }
                    }
                    _ => {}
                }
            }
            self.i += 1;
        }
        self.fail(true, format!("unclosed `{open}`"))
    }
}

/// Is byte offset `pos` inside a comment / a string literal?
pub fn in_comment(l: &Lexed, pos: usize) -> bool {
    l.comments.iter().any(|c| c.start <= pos && pos < c.end)
}
pub fn in_string(l: &Lexed, pos: usize) -> bool {
    l.strings.iter().any(|c| c.0 <= pos && pos < c.1)
}
