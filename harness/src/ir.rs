//! Foreign IR: the facts every language parser recovers from generated code.
use crate::lex::{Comment, Lexed};
use serde_json::{json, Value};
use std::collections::BTreeSet;

#[derive(Clone, Debug, PartialEq)]
pub enum TypeExpr {
    /// possibly dotted name with generic arguments
    Name(String, Vec<TypeExpr>),
    Seq(Box<TypeExpr>),
    FixedSeq(Box<TypeExpr>, usize),
    Map(Box<TypeExpr>, Box<TypeExpr>),
    Nullable(Box<TypeExpr>),
    Union(Vec<TypeExpr>),
    /// TypeScript inline object type
    Object(Vec<Field>),
    /// string-literal type (TypeScript) / Literal[...] (Python)
    Lit(String),
    Tuple(Vec<TypeExpr>),
    /// something balanced we do not model (Go `interface{}`, Python `Annotated[...]` wrappers are unwrapped before)
    Other(String),
}

impl TypeExpr {
    pub fn name(n: &str) -> Self {
        TypeExpr::Name(n.to_string(), vec![])
    }
    pub fn show(&self) -> String {
        match self {
            TypeExpr::Name(n, a) if a.is_empty() => n.clone(),
            TypeExpr::Name(n, a) => format!("{n}<{}>", a.iter().map(|x| x.show()).collect::<Vec<_>>().join(", ")),
            TypeExpr::Seq(t) => format!("Seq({})", t.show()),
            TypeExpr::FixedSeq(t, n) => format!("FixedSeq({}; {n})", t.show()),
            TypeExpr::Map(k, v) => format!("Map({}, {})", k.show(), v.show()),
            TypeExpr::Nullable(t) => format!("Nullable({})", t.show()),
            TypeExpr::Union(v) => format!("Union({})", v.iter().map(|x| x.show()).collect::<Vec<_>>().join(" | ")),
            TypeExpr::Object(f) => format!("Object{{{}}}", f.iter().map(|x| format!("{}: {}", x.wire_key, x.ty.show())).collect::<Vec<_>>().join(", ")),
            TypeExpr::Lit(s) => format!("{s:?}"),
            TypeExpr::Tuple(v) => format!("Tuple({})", v.iter().map(|x| x.show()).collect::<Vec<_>>().join(", ")),
            TypeExpr::Other(s) => format!("Other({s})"),
        }
    }
    /// every Name occurring in the expression (depth first, left to right)
    pub fn names<'a>(&'a self, out: &mut Vec<&'a str>) {
        match self {
            TypeExpr::Name(n, a) => {
                out.push(n);
                for x in a {
                    x.names(out);
                }
            }
            TypeExpr::Seq(t) | TypeExpr::FixedSeq(t, _) | TypeExpr::Nullable(t) => t.names(out),
            TypeExpr::Map(k, v) => {
                k.names(out);
                v.names(out);
            }
            TypeExpr::Union(v) | TypeExpr::Tuple(v) => {
                for x in v {
                    x.names(out);
                }
            }
            TypeExpr::Object(f) => {
                for x in f {
                    x.ty.names(out);
                }
            }
            TypeExpr::Lit(_) | TypeExpr::Other(_) => {}
        }
    }
}

#[derive(Clone, Debug, PartialEq)]
pub struct Field {
    /// identifier as written in the target language (backticks removed)
    pub ident: String,
    /// JSON key this field is bound to, by the language's binding rule
    pub wire_key: String,
    pub ty: TypeExpr,
    /// optional markers seen: "?", "|null", "|undefined", "=null", "=None", "=_", "ptr", "omitempty", "Optional", "default=None"
    pub markers: BTreeSet<String>,
    pub readonly: bool,
    pub start: usize,
}

#[derive(Clone, Debug, PartialEq)]
pub enum Payload {
    None,
    Newtype(TypeExpr),
    Struct(Vec<Field>),
}

#[derive(Clone, Debug)]
pub struct Variant {
    pub ident: String,
    pub wire_name: Option<String>,
    pub payload: Payload,
    /// optional markers on the content member (TS `content?:`)
    pub markers: BTreeSet<String>,
    pub parents: Vec<TypeExpr>,
    pub start: usize,
}

#[derive(Clone, Copy, Debug, PartialEq, Eq, PartialOrd, Ord)]
pub enum DefKind {
    Struct,
    UnitEnum,
    TaggedEnum,
    Alias,
    Const,
    /// functions, helper enums (Go <Enum>Types string type, Python <Enum>Types), CodableVoid ...
    Helper,
}

#[derive(Clone, Debug)]
pub struct Def {
    pub kind: DefKind,
    pub name: String,
    pub generics: Vec<String>,
    pub fields: Vec<Field>,
    pub variants: Vec<Variant>,
    pub alias_target: Option<TypeExpr>,
    pub alias_markers: BTreeSet<String>,
    pub const_type: Option<TypeExpr>,
    pub const_value: Option<String>,
    /// every site where a tag / content key is spelled, with a label of the site
    pub tag_sites: Vec<(String, String)>,
    pub content_sites: Vec<(String, String)>,
    pub parents: Vec<TypeExpr>,
    /// free-form facts (decorators, conformances, ...)
    pub extra: Vec<(String, String)>,
    /// problems found inside the definition that the property checks care about
    pub issues: Vec<String>,
    pub start: usize,
    pub end: usize,
}

impl Def {
    pub fn new(kind: DefKind, name: &str, start: usize) -> Self {
        Def {
            kind,
            name: name.to_string(),
            generics: vec![],
            fields: vec![],
            variants: vec![],
            alias_target: None,
            alias_markers: BTreeSet::new(),
            const_type: None,
            const_value: None,
            tag_sites: vec![],
            content_sites: vec![],
            parents: vec![],
            extra: vec![],
            issues: vec![],
            start,
            end: start,
        }
    }
    pub fn to_json(&self) -> Value {
        json!({
            "kind": format!("{:?}", self.kind), "name": self.name, "generics": self.generics,
            "fields": self.fields.iter().map(|f| json!({"ident": f.ident, "wire_key": f.wire_key, "type": f.ty.show(), "markers": f.markers})).collect::<Vec<_>>(),
            "variants": self.variants.iter().map(|v| json!({"ident": v.ident, "wire_name": v.wire_name, "payload": match &v.payload {
                Payload::None => json!(null), Payload::Newtype(t) => json!(t.show()),
                Payload::Struct(fs) => json!(fs.iter().map(|f| json!({"ident": f.ident, "wire_key": f.wire_key, "type": f.ty.show()})).collect::<Vec<_>>()) }})).collect::<Vec<_>>(),
            "alias_target": self.alias_target.as_ref().map(|t| t.show()),
            "const": self.const_value, "tag_sites": self.tag_sites, "content_sites": self.content_sites,
            "parents": self.parents.iter().map(|t| t.show()).collect::<Vec<_>>(), "issues": self.issues,
        })
    }
}

#[derive(Clone, Debug, Default)]
pub struct File {
    pub package: Option<String>,
    /// (module / path, imported names)
    pub imports: Vec<(String, Vec<String>)>,
    pub defs: Vec<Def>,
    pub comments: Vec<Comment>,
    pub strings: Vec<(usize, usize)>,
    /// constructs the language definitely rejects but which the parser read past so that the
    /// remaining facts stay available (C10 reports them; other checks ignore them)
    pub syntax_issues: Vec<String>,
}

impl File {
    pub fn from_lexed(l: &Lexed) -> Self {
        File { comments: l.comments.clone(), strings: l.strings.clone(), ..Default::default() }
    }
    pub fn def(&self, name: &str) -> Option<&Def> {
        self.defs.iter().find(|d| d.name == name)
    }
    /// doc text attached to the definition / member starting at `start`: comments that end right before it
    pub fn principal(&self) -> impl Iterator<Item = &Def> {
        self.defs.iter().filter(|d| d.kind != DefKind::Helper)
    }
}

#[derive(Debug, Clone)]
pub enum ParseStatus {
    Parsed(File),
    /// the language definitely rejects this text
    IllFormed(String),
    /// balanced but outside the declaration subset (inconclusive)
    OutsideSubset(String),
}
