//! C14 — multi-file mode partitions types by crate and imports cross-crate references.
//! Real binary with --output-folder; oracle: the model's crate partition (directory above `src`,
//! dashes as underscores, Swift PascalCase), the single-file run of the same sources, and import
//! resolution from the model's reference edges.
use crate::gen::{cap, stems_in, Stems};
use crate::ir::{DefKind, File, ParseStatus};
use crate::facts::parse_many;
use crate::report::{Ctx, Report, Spec};
use crate::rng::Rng;
use crate::sut::{cli_args, config_toml, read_dir_files, run_bin, write_tree, BinRun, LangCfg, LangId, SrcFile, ALL_LANGS};
use serde_json::json;
use std::collections::{BTreeMap, BTreeSet, HashMap};
use std::time::Duration;

#[derive(Clone, Debug)]
struct TypeM {
    stem: String,
    name: String,
    renamed: Option<String>,
    krate: usize,
    file: usize,
    /// (target type index, form)
    refs: Vec<(usize, &'static str)>,
    /// a second type of the same name lives in another crate (import clause only)
    dup: bool,
    /// `struct Name<T> { .., payload: T }`: every reference to it carries one type argument
    generic: bool,
    /// (index of the ref to a generic type, index of the ref written as its type argument)
    nest: Vec<(usize, usize)>,
    /// written as `struct Name(pub u32);` when it has no references of its own: shared as an alias, which carries a serde
    /// rename like any other type
    newtype: bool,
}

#[derive(Clone, Debug)]
struct Ws {
    crates: Vec<String>,
    /// (crate index, path under the crate dir)
    files: Vec<(usize, String)>,
    types: Vec<TypeM>,
    same_named: bool,
}

/// the last five begin with the name of a well-known third-party crate (which typeshare ignores) without being one
const CRATE_NAMES: [&str; 10] = ["alpha", "beta-util", "gamma_core", "delta", "eps-x-y", "time-utils", "http_types", "stdx", "ring-buffer", "synapse"];
const FORMS: [&str; 9] = ["use-single", "use-grouped", "use-nested", "use-glob", "qualified", "qualified-deep", "use-grouped-fn-after", "use-grouped-self-after", "use-renamed-target"];

fn crate_ident(n: &str) -> String {
    n.replace('-', "_")
}

fn gen_ws(rng: &mut Rng) -> Ws {
    let k = rng.range(1, 5);
    let mut pool = CRATE_NAMES.to_vec();
    rng.shuffle(&mut pool);
    let mut crates: Vec<String> = pool[..k].iter().map(|s| s.to_string()).collect();
    // a directory above `src` may carry dots (`alpha.v2` next to `alpha`): not nameable in a `use`, so nobody refers to
    // its types from outside, but its types still go to the file named after it
    let dotted = rng.chance(1, 3);
    if dotted {
        crates.push(format!("{}.v2", crates[0]));
    }
    let k = crates.len();
    let mut files = vec![];
    for c in 0..k {
        let nf = rng.range(1, 3);
        let mut used = BTreeSet::new();
        for _ in 0..nf {
            let p = match rng.below(4) {
                0 => "src/lib.rs".to_string(),
                1 => format!("src/m{}.rs", rng.below(3)),
                2 => format!("src/sub/n{}.rs", rng.below(3)),
                _ => format!("src/a/b/c/deep{}.rs", rng.below(3)),
            };
            if used.insert(p.clone()) {
                files.push((c, p));
            }
        }
    }
    let mut stems = Stems::default();
    let mut types: Vec<TypeM> = vec![];
    for (fi, (c, _)) in files.iter().enumerate() {
        for _ in 0..rng.range(1, 3) {
            let st = stems.fresh(rng);
            // an eighth of the names are written in capitals throughout, as acronym types are (`ID`, `URL`, `UUID`)
            let name = if rng.chance(1, 8) { st.to_uppercase() } else { format!("{}{}", cap(&st), ["", "Item", "Info"][rng.below(3)]) };
            let renamed = if rng.chance(1, 6) { Some(format!("{}Rn", cap(&st))) } else { None };
            let generic = rng.chance(1, 5);
            types.push(TypeM { stem: st, name, renamed, krate: *c, file: fi, refs: vec![], dup: false, generic, nest: vec![], newtype: rng.chance(1, 4) });
        }
    }
    // references: to earlier types only (acyclic), across files and crates
    let n = types.len();
    for i in 1..n {
        for _ in 0..rng.below(3) {
            let t = rng.below(i);
            if types[i].refs.iter().any(|(x, _)| *x == t) {
                continue;
            }
            if types[t].krate != types[i].krate && crates[types[t].krate].contains('.') {
                continue;
            }
            let form = if types[t].krate == types[i].krate {
                if types[t].file == types[i].file {
                    "same-file"
                } else {
                    *rng.pick(&["crate-path", "super-path", "self-use", "self-path", "use-crate"])
                }
            } else {
                *rng.pick(&FORMS[..8])
            };
            types[i].refs.push((t, form));
            // a generic target takes a type argument: often another (earlier, non-generic) type, written in a form of its own
            if types[t].generic && rng.chance(2, 3) {
                let cands: Vec<usize> = (0..i).filter(|j| !types[*j].generic && *j != t && !types[i].refs.iter().any(|(x, _)| x == j)).filter(|j| types[*j].krate == types[i].krate || !crates[types[*j].krate].contains('.')).collect();
                if !cands.is_empty() {
                    let j = *rng.pick(&cands);
                    let jform = if types[j].krate == types[i].krate {
                        if types[j].file == types[i].file {
                            "same-file"
                        } else {
                            *rng.pick(&["crate-path", "super-path", "self-use", "self-path", "use-crate"])
                        }
                    } else {
                        *rng.pick(&FORMS[..8])
                    };
                    let outer = types[i].refs.len() - 1;
                    types[i].refs.push((j, jform));
                    types[i].nest.push((outer, outer + 1));
                }
            }
        }
    }
    // same-named type in another crate: only the import clause is concerned by it
    let mut same_named = false;
    if k >= 2 && rng.coin() {
        let local_targets: Vec<usize> = types.iter().flat_map(|t| t.refs.iter().filter(|(ti, _)| types[*ti].krate == t.krate).map(|(ti, _)| *ti)).collect();
        if !local_targets.is_empty() {
            let ti = *rng.pick(&local_targets);
            let other_crate = (types[ti].krate + 1 + rng.below(k - 1)) % k;
            // a crate that itself refers to the name would be ambiguous Rust: leave those out
            let refers = types.iter().any(|t| t.krate == other_crate && t.refs.iter().any(|(x, _)| *x == ti));
            // so would a file that reaches the name through a glob import of its crate and glob-imports the other crate too
            let both_globbed = types.iter().any(|t| {
                t.refs.iter().any(|(x, form)| *x == ti && form.contains("glob"))
                    && types.iter().any(|u| u.krate == t.krate && u.file == t.file && u.refs.iter().any(|(y, f2)| types[*y].krate == other_crate && f2.contains("glob")))
            });
            let refers = refers || both_globbed;
            if let (false, Some(fi)) = (refers, files.iter().position(|(c, _)| *c == other_crate)) {
                let mut d = types[ti].clone();
                d.krate = other_crate;
                d.file = fi;
                d.refs.clear();
                // when the original carries a serde name, the other crate's type of that Rust identifier carries another one
                if d.renamed.is_some() {
                    d.renamed = Some(format!("{}RnOther", cap(&d.stem)));
                }
                d.dup = true;
                types[ti].dup = true;
                types.push(d);
                same_named = true;
            }
        }
    }
    Ws { crates, files, types, same_named }
}

fn render_ws(ws: &Ws) -> Vec<SrcFile> {
    let mut out = vec![];
    for (fi, (c, path)) in ws.files.iter().enumerate() {
        let mut uses: BTreeSet<String> = BTreeSet::new();
        let mut body = String::new();
        for t in ws.types.iter().filter(|t| t.file == fi) {
            let ren = t.renamed.as_ref().map(|r| format!("#[serde(rename = \"{r}\")]\n")).unwrap_or_default();
            // half of the generic types name their parameter like a type that another item of the same file takes from
            // another crate (`struct Page<Item> { .. }` beside `use catalog::Item; struct Cart { first: Item }`): valid Rust,
            // and the import is still needed by that other item
            let shadow: Option<String> = if t.generic && t.stem.as_bytes()[1] % 2 == 0 {
                ws.types
                    .iter()
                    .filter(|o| o.file == fi && o.name != t.name)
                    .flat_map(|o| o.refs.iter())
                    .filter(|(ti, form)| ws.types[*ti].krate != *c && form.starts_with("use-") && *form != "use-glob")
                    .map(|(ti, _)| ws.types[*ti].name.clone())
                    .find(|n| t.refs.iter().all(|(ti, _)| ws.types[*ti].name != *n))
            } else {
                None
            };
            if t.newtype && t.refs.is_empty() && !t.generic {
                body.push_str(&format!("#[typeshare]\n{ren}pub struct {}(pub u32);\n\n", t.name));
                continue;
            }
            let param = shadow.as_deref().unwrap_or("T");
            body.push_str(&format!("#[typeshare]\n{ren}pub struct {}{} {{\n    pub own: u32,\n", t.name, if t.generic { format!("<{param}>") } else { String::new() }));
            if t.generic {
                body.push_str(&format!("    pub payload: {param},\n"));
            }
            let mut spelled: Vec<String> = vec![];
            for (k, (ti, form)) in t.refs.iter().enumerate() {
                let target = &ws.types[*ti];
                let tc = crate_ident(&ws.crates[target.krate]);
                let ty = match *form {
                    "same-file" => target.name.clone(),
                    "crate-path" => format!("crate::{}", target.name),
                    "super-path" => format!("super::{}", target.name),
                    "self-path" => format!("self::models::{}", target.name),
                    "self-use" => {
                        uses.insert(format!("use self::models::{};", target.name));
                        target.name.clone()
                    }
                    "use-crate" => {
                        uses.insert(format!("use crate::{};", target.name));
                        target.name.clone()
                    }
                    "use-single" | "use-renamed-target" => {
                        uses.insert(format!("use {tc}::{};", target.name));
                        target.name.clone()
                    }
                    "use-grouped" => {
                        uses.insert(format!("use {tc}::{{{}, Unrelated{k}}};", target.name));
                        target.name.clone()
                    }
                    // a group that lists the type before leaves that are not types (a function, a module, `self`)
                    "use-grouped-fn-after" => {
                        uses.insert(format!("use {tc}::{{{}, helper_fn{k}, CONSTANT_{k}}};", target.name));
                        target.name.clone()
                    }
                    "use-grouped-self-after" => {
                        uses.insert(format!("use {tc}::{{{}, util{k}::{{self}}, self}};", target.name));
                        target.name.clone()
                    }
                    "use-nested" => {
                        uses.insert(format!("use {tc}::models::{{inner::Other{k}, {}}};", target.name));
                        target.name.clone()
                    }
                    "use-glob" => {
                        uses.insert(format!("use {tc}::*;"));
                        target.name.clone()
                    }
                    "qualified" => format!("{tc}::{}", target.name),
                    _ => format!("{tc}::models::deep::{}", target.name),
                };
                spelled.push(ty);
            }
            for (k, (ti, _)) in t.refs.iter().enumerate() {
                if t.nest.iter().any(|(_, inner)| *inner == k) {
                    continue; // written inside its outer reference
                }
                let mut ty = spelled[k].clone();
                if ws.types[*ti].generic {
                    let arg = t.nest.iter().find(|(outer, _)| *outer == k).map(|(_, inner)| spelled[*inner].clone()).unwrap_or_else(|| "u32".to_string());
                    ty = format!("{ty}<{arg}>");
                }
                // positions 5 and 6: the reference is not the last type argument of its container
                let wrapped = match (k + ti) % 7 {
                    0 => ty,
                    1 => format!("Vec<{ty}>"),
                    2 => format!("Option<{ty}>"),
                    3 => format!("HashMap<String, {ty}>"),
                    4 => format!("Box<[{ty}; 2]>"),
                    5 => format!("HashMap<{ty}, String>"),
                    _ => format!("Option<HashMap<{ty}, Vec<u32>>>"),
                };
                body.push_str(&format!("    pub r{k}: {wrapped},\n"));
            }
            body.push_str("}\n\n");
        }
        // an import is an import whatever its visibility (a re-exported name is still a name this file refers to) and
        // whatever attributes it carries
        let header: String = uses
            .into_iter()
            .map(|u| match u.len() % 7 {
                0 => format!("pub {u}\n"),
                1 => format!("pub(crate) {u}\n"),
                2 => format!("#[allow(unused_imports)]\n{u}\n"),
                _ => format!("{u}\n"),
            })
            .collect();
        out.push(SrcFile { path: format!("src_root/{}/{}", ws.crates[*c], path), source: format!("{header}\n{body}") });
    }
    out
}

fn expected_file_name(lang: LangId, krate: &str) -> String {
    let c = crate_ident(krate);
    if lang == LangId::Swift {
        // PascalCase of the underscore form
        let mut s = String::new();
        let mut up = true;
        for ch in c.chars() {
            if ch == '_' {
                up = true;
            } else if up {
                s.push(ch.to_ascii_uppercase());
                up = false;
            } else {
                s.push(ch);
            }
        }
        format!("{s}.swift")
    } else {
        format!("{c}.{}", lang.ext())
    }
}

fn defs_of(file: &File) -> BTreeSet<(String, String)> {
    file.defs.iter().filter(|d| d.kind != DefKind::Helper).map(|d| (format!("{:?}", d.kind), d.name.clone())).collect()
}

pub fn run(ctx: &Ctx) -> (Spec, Report) {
    let seed = ctx.seed;
    let n = ctx.tier.pick(400, 4000);
    let langs: Vec<LangId> = ALL_LANGS.iter().copied().filter(|l| !matches!(l, LangId::Scala | LangId::Go)).collect();
    // phase 1: run the binary (multi-file and single-file) for every workspace x language
    struct RunRec {
        ws: Ws,
        files: Vec<SrcFile>,
        lang: LangId,
        cfg: LangCfg,
        multi_ok: bool,
        single_ok: bool,
        stderr: String,
        outputs: BTreeMap<String, String>,
        single: String,
    }
    let scratch = ctx.scratch("ws");
    let cli = ctx.cli.clone();
    let recs: std::sync::Mutex<Vec<RunRec>> = std::sync::Mutex::new(vec![]);
    let langs_ref = &langs;
    let _ = crate::report::par_shards(ctx.threads, n, |i| {
        let mut rng = Rng::derive(seed, "C14-ws", i as u64);
        let ws = gen_ws(&mut rng);
        let files = render_ws(&ws);
        let root = scratch.join(format!("w{i}"));
        write_tree(&root, &files);
        for &lang in langs_ref.iter() {
            let mut cfg = LangCfg::basic(lang);
            if matches!(lang, LangId::Swift | LangId::Kotlin) && rng.chance(1, 3) {
                cfg.prefix = "Pf".into();
            }
            // Kotlin without a configured package: no package line, imports name the module alone
            if lang == LangId::Kotlin && rng.chance(1, 4) {
                cfg.package = String::new();
            }
            let mut env_cfg_args: Vec<String> = vec![];
            if rng.chance(1, 4) {
                // a type mapping for a foreign type must not produce imports; written to a config file
                let mut tm = HashMap::new();
                tm.insert("Url".to_string(), "String".to_string());
                cfg.type_mappings = tm;
                let p = root.join(format!("cfg-{}.toml", lang.name()));
                std::fs::write(&p, config_toml(lang, &cfg)).unwrap();
                env_cfg_args = vec!["--config-file".into(), p.to_string_lossy().into_owned()];
            }
            let out = root.join(format!("out-{}", lang.name()));
            let mut args = env_cfg_args.clone();
            args.extend(cli_args(lang, &cfg, true, &out, &["src_root"]));
            let o = run_bin(BinRun { cli: &cli, args, env: vec![], cwd: &root, strace: None, wall_limit: Duration::from_secs(30) });
            let outputs: BTreeMap<String, String> = read_dir_files(&out).into_iter().map(|(k, v)| (k, String::from_utf8_lossy(&v).into_owned())).collect();
            let sout = root.join(format!("single-{}.{}", lang.name(), lang.ext()));
            let mut sargs = env_cfg_args.clone();
            sargs.extend(cli_args(lang, &cfg, false, &sout, &["src_root"]));
            let so = run_bin(BinRun { cli: &cli, args: sargs, env: vec![], cwd: &root, strace: None, wall_limit: Duration::from_secs(30) });
            let single = std::fs::read_to_string(&sout).unwrap_or_default();
            recs.lock().unwrap().push(RunRec { ws: ws.clone(), files: files.clone(), lang, cfg, multi_ok: o.ok(), single_ok: so.ok(), stderr: o.stderr, outputs, single });
        }
        let _ = std::fs::remove_dir_all(&root);
        Report::new()
    });
    let _ = std::fs::remove_dir_all(&scratch);
    let recs = recs.into_inner().unwrap();
    // phase 2: parse everything
    let mut texts: Vec<(LangId, &str)> = vec![];
    let mut idx: Vec<(usize, Option<&str>)> = vec![];
    for (ri, r) in recs.iter().enumerate() {
        for (name, t) in &r.outputs {
            texts.push((r.lang, t.as_str()));
            idx.push((ri, Some(name.as_str())));
        }
        texts.push((r.lang, r.single.as_str()));
        idx.push((ri, None));
    }
    let facts = parse_many(ctx, "C14-py", &texts, false);
    let mut by_rec: BTreeMap<usize, (BTreeMap<&str, &crate::facts::Facts>, Option<&crate::facts::Facts>)> = BTreeMap::new();
    for (k, (ri, name)) in idx.iter().enumerate() {
        let e = by_rec.entry(*ri).or_insert((BTreeMap::new(), None));
        match name {
            Some(n) => {
                e.0.insert(n, &facts[k]);
            }
            None => e.1 = Some(&facts[k]),
        }
    }
    // phase 3: judge
    let mut rep = Report::new();
    rep.count("workspaces", n as u64);
    for (ri, r) in recs.iter().enumerate() {
        let lname = r.lang.name();
        rep.eval(1);
        rep.count("cli_runs", 2);
        let detail = |extra: serde_json::Value| json!({"language": lname, "config": r.cfg.to_json(), "files": r.files.iter().map(|f| json!({"path": f.path, "source": f.source})).collect::<Vec<_>>(), "outputs": r.outputs, "stderr": r.stderr.chars().take(400).collect::<String>(), "extra": extra});
        if !r.multi_ok {
            if r.stderr.contains("panicked at") {
                rep.inconclusive("cli-panic (reported by C07)", json!({"language": lname, "stderr": r.stderr.chars().take(300).collect::<String>()}));
            } else {
                rep.violate(format!("C14|{lname}|multi-file-run-failed"), "the multi-file run failed on a supported workspace".to_string(), detail(json!(null)));
            }
            continue;
        }
        let (multi_facts, single_facts) = &by_rec[&ri];
        rep.cell(format!("{lname}|crates={}|prefix={}", r.ws.crates.len(), !r.cfg.prefix.is_empty()));
        // file names
        let expected_files: BTreeSet<String> = r.ws.crates.iter().enumerate().filter(|(c, _)| r.ws.types.iter().any(|t| t.krate == *c)).map(|(_, n)| expected_file_name(r.lang, n)).collect();
        let actual_files: BTreeSet<String> = r.outputs.keys().filter(|k| k.as_str() != "Codable.swift").cloned().collect();
        rep.count("output_files_checked", actual_files.len() as u64);
        if expected_files != actual_files {
            rep.violate(format!("C14|{lname}|file-set"), format!("output files {:?}, expected {:?}", actual_files, expected_files), detail(json!(null)));
            continue;
        }
        // where is every type defined?
        let mut defined_in: BTreeMap<String, Vec<String>> = BTreeMap::new(); // stem -> files
        let mut names_in: BTreeMap<String, BTreeSet<String>> = BTreeMap::new(); // file -> def names
        let mut parsed_ok = true;
        for (fname, f) in multi_facts.iter() {
            match &f.status {
                ParseStatus::Parsed(file) => {
                    for d in file.defs.iter().filter(|d| d.kind != DefKind::Helper) {
                        if let Some(s) = stems_in(&d.name).first() {
                            defined_in.entry(s.clone()).or_default().push(fname.to_string());
                        }
                        names_in.entry(fname.to_string()).or_default().insert(d.name.clone());
                    }
                }
                other => {
                    parsed_ok = false;
                    rep.inconclusive(&format!("output-not-parsed-{lname}"), json!({"file": fname, "status": format!("{other:?}").chars().take(300).collect::<String>()}));
                }
            }
        }
        if !parsed_ok {
            continue;
        }
        for t in &r.ws.types {
            rep.count("types_located", 1);
            let want = expected_file_name(r.lang, &r.ws.crates[t.krate]);
            let mut got = defined_in.get(&t.stem).cloned().unwrap_or_default();
            if t.dup {
                // both crates define a type of this name: this type's own crate file must be among them, and nothing else
                let mut all_want: Vec<String> = r.ws.types.iter().filter(|x| x.stem == t.stem).map(|x| expected_file_name(r.lang, &r.ws.crates[x.krate])).collect();
                all_want.sort();
                got.sort();
                if got == all_want {
                    continue;
                }
            }
            if got != vec![want.clone()] {
                rep.violate(
                    format!("C14|{lname}|partition|{}", if got.is_empty() { "type-missing" } else if got.len() > 1 { "type-in-two-files" } else { "type-in-wrong-file" }),
                    format!("type {} of crate {} is defined in {:?}, expected {want}", t.name, r.ws.crates[t.krate], got),
                    detail(json!({"type": t.name})),
                );
            }
        }
        // same definitions as single-file mode
        if r.single_ok {
            if let Some(ParseStatus::Parsed(sf)) = single_facts.map(|f| &f.status) {
                let mut union: BTreeSet<(String, String)> = BTreeSet::new();
                for f in multi_facts.values() {
                    if let ParseStatus::Parsed(file) = &f.status {
                        union.extend(defs_of(file));
                    }
                }
                let single = defs_of(sf);
                rep.count("single_file_twins_compared", 1);
                // not only the same names: the same bodies (fields, types referred to, variants), unless two crates define
                // one name (single-file mode cannot hold both)
                if union == single && !r.ws.same_named {
                    let body = |file: &File| -> BTreeMap<String, String> { file.defs.iter().filter(|d| d.kind != DefKind::Helper).map(|d| (d.name.clone(), d.to_json().to_string())).collect() };
                    let sb = body(sf);
                    for f in multi_facts.values() {
                        if let ParseStatus::Parsed(file) = &f.status {
                            for (name, b) in body(file) {
                                rep.count("definition_bodies_compared_with_single_file", 1);
                                if sb.get(&name) != Some(&b) {
                                    rep.violate(format!("C14|{lname}|definition-body-differs-from-single-file"), format!("{name}: multi-file {b} vs single-file {}", sb.get(&name).cloned().unwrap_or_default()), detail(json!({"definition": name, "single_file_output": r.single})));
                                }
                            }
                        }
                    }
                }
                if union != single {
                    rep.violate(format!("C14|{lname}|definitions-differ-from-single-file"), format!("multi-file defines {:?}, single-file defines {:?}", union.difference(&single).collect::<Vec<_>>(), single.difference(&union).collect::<Vec<_>>()), detail(json!({"single_file_output": r.single})));
                }
            }
        }
        // every reference is spelled with the name its target is defined under in the crate it resolves to (its serde
        // name and the prefix) - also when another crate has a type of the same Rust identifier
        for (c, cname) in r.ws.crates.iter().enumerate() {
            let fname = expected_file_name(r.lang, cname);
            let Some(ParseStatus::Parsed(file)) = multi_facts.get(fname.as_str()).map(|f| &f.status) else { continue };
            for t in r.ws.types.iter().filter(|t| t.krate == c) {
                let own = format!("{}{}", r.cfg.prefix, t.renamed.clone().unwrap_or(t.name.clone()));
                let Some(def) = file.defs.iter().find(|d| d.name == own && d.kind != DefKind::Helper && !(d.fields.is_empty() && d.kind == DefKind::Alias)) else { continue };
                let mut mentioned: Vec<&str> = vec![];
                for f in &def.fields {
                    f.ty.names(&mut mentioned);
                }
                for (ti, form) in &t.refs {
                    let target = &r.ws.types[*ti];
                    let want = format!("{}{}", r.cfg.prefix, target.renamed.clone().unwrap_or(target.name.clone()));
                    rep.count("reference_spellings_checked", 1);
                    if !mentioned.iter().any(|n| *n == want) {
                        let unrenamed = format!("{}{}", r.cfg.prefix, target.name);
                        let how = if mentioned.iter().any(|n| *n == unrenamed) { "rust-identifier" } else { "other-name" };
                        rep.violate(
                            format!("C14|{lname}|reference-spelled-as-{how}|renamed={}|same-identifier-elsewhere={}", target.renamed.is_some(), target.dup),
                            format!("{fname}: {own} refers to {} (defined as {want}) via `{form}` but its fields mention {:?}", target.name, mentioned),
                            detail(json!({"user": own, "target": target.name, "defined_as": want, "form": form})),
                        );
                    }
                }
            }
        }
        // imports (TypeScript, Kotlin). Kotlin without a configured package writes no `package` lines: all files share the
        // default package, where nothing can or has to be imported - any import line there is a defect of its own
        if r.lang == LangId::Kotlin && r.cfg.package.is_empty() {
            for (fname, f) in multi_facts.iter() {
                if let ParseStatus::Parsed(file) = &f.status {
                    rep.count("kotlin_default_package_files_checked", 1);
                    if file.imports.iter().any(|(m, _)| !(m.starts_with("kotlinx.") || m == "kotlinx")) {
                        rep.violate(format!("C14|kotlin|import-in-default-package"), format!("{fname}: import lines although no package is configured"), detail(json!({"file": fname})));
                    }
                }
            }
        } else if matches!(r.lang, LangId::Ts | LangId::Kotlin) {
            for (c, cname) in r.ws.crates.iter().enumerate() {
                let fname = expected_file_name(r.lang, cname);
                let Some(ParseStatus::Parsed(file)) = multi_facts.get(fname.as_str()).map(|f| &f.status) else { continue };
                // imported (module, name) pairs
                let mut imported: BTreeSet<(String, String)> = BTreeSet::new();
                for (module, names) in &file.imports {
                    let m = if r.lang == LangId::Ts { module.trim_start_matches("./").to_string() } else { module.rsplit('.').next().unwrap_or("").to_string() };
                    if r.lang == LangId::Kotlin && (module.starts_with("kotlinx.") || module == "kotlinx") {
                        continue;
                    }
                    for nme in names {
                        imported.insert((m.clone(), nme.clone()));
                    }
                }
                // every import must name something its module defines
                for (m, nme) in &imported {
                    rep.count("imports_checked", 1);
                    let target_file = format!("{m}.{}", r.lang.ext());
                    let ok = names_in.get(&target_file).map(|s| s.contains(nme)).unwrap_or(false);
                    if !ok {
                        let kind = if !names_in.contains_key(&target_file) { "module-not-generated" } else if names_in[&target_file].iter().any(|x| x.ends_with(nme.as_str())) { "name-without-prefix" } else { "name-not-defined-there" };
                        rep.violate(format!("C14|{lname}|import-names-undefined|{kind}"), format!("{fname} imports {nme} from {m}, which does not define it"), detail(json!({"file": fname, "import": [m, nme]})));
                    }
                }
                // every cross-crate reference must be imported from exactly its defining file
                for t in r.ws.types.iter().filter(|t| t.krate == c) {
                    for (rk, (ti, form)) in t.refs.iter().enumerate() {
                        let target = &r.ws.types[*ti];
                        // a reference written as the type argument of another (generic) reference: `outer::Page<inner::Item>`
                        let nested_in: Option<&str> = t.nest.iter().find(|(_, inner)| *inner == rk).map(|(outer, _)| t.refs[*outer].1);
                        let form_owned = match nested_in {
                            Some(o) => format!("{form}|argument-of={o}"),
                            None => form.to_string(),
                        };
                        let form = &form_owned.as_str();
                        if target.krate == c {
                            // same crate: no import may exist for it
                            let local_name = format!("{}{}", r.cfg.prefix, target.renamed.clone().unwrap_or(target.name.clone()));
                            if imported.iter().any(|(_, nme)| *nme == local_name || *nme == target.name) {
                                rep.violate(format!("C14|{lname}|import-of-local-type|form={form}"), format!("{fname} imports {} although its own crate defines it", target.name), detail(json!({"type": target.name, "form": form})));
                            }
                            continue;
                        }
                        rep.count("cross_crate_references_checked", 1);
                        rep.cell(format!("{lname}|reference|{form}|renamed={}", target.renamed.is_some()));
                        let m = crate_ident(&r.ws.crates[target.krate]);
                        let wanted = format!("{}{}", r.cfg.prefix, target.renamed.clone().unwrap_or(target.name.clone()));
                        if !imported.contains(&(m.clone(), wanted.clone())) {
                            let alt = imported.iter().find(|(_, nme)| stems_in(nme).first() == Some(&target.stem));
                            let what = match alt {
                                None => "not-imported".to_string(),
                                Some((am, an)) => format!("imported-as-{}", if *am != m { "other-module" } else if *an == target.name && target.renamed.is_some() { "original-name" } else if format!("{}{}", r.cfg.prefix, an) == wanted { "unprefixed-name" } else { "other-name" }),
                            };
                            rep.violate(
                                if target.renamed.is_some() && what == "not-imported" {
                                    // one cause for every explicit form: the import table is keyed by the renamed name, the `use` / path names the original
                                    format!("C14|{lname}|cross-crate-reference|not-imported|renamed-target")
                                } else {
                                    format!("C14|{lname}|cross-crate-reference|{what}|form={form}{}", if target.renamed.is_some() { "|renamed-target" } else { "" })
                                },
                                format!("{fname}: {} uses {} (defined in {m} as {wanted}) via `{form}`: {what}", t.name, target.name),
                                detail(json!({"user": t.name, "target": target.name, "form": form, "imports": imported})),
                            );
                        }
                    }
                }
            }
        }
        if ri < 2 {
            rep.sample(json!({"language": lname, "files": r.files.iter().map(|f| f.path.clone()).collect::<Vec<_>>(), "outputs": r.outputs.keys().collect::<Vec<_>>(), "first_source": r.files.first().map(|f| f.source.clone())}));
        }
    }
    // the crate of a file is the directory above `src` however the input directory is spelled on the command line:
    // from the workspace, from inside the crate (`src`, `./src`, `.`), from inside `src`, through `..`, absolute
    {
        let root = ctx.scratch("path-shapes");
        for d in ["ws/my-crate/src/sub", "ws/other/src", "ws/other-more/src"] {
            let _ = std::fs::create_dir_all(root.join(d));
        }
        std::fs::write(root.join("ws/my-crate/src/lib.rs"), "#[typeshare]\npub struct QshapeOne { pub a: u8 }\n").unwrap();
        std::fs::write(root.join("ws/my-crate/src/sub/m.rs"), "#[typeshare]\npub enum QshapeTwo { A, B }\n").unwrap();
        std::fs::write(root.join("ws/other/src/lib.rs"), "#[typeshare]\npub struct QshapeOther { pub a: u8 }\n").unwrap();
        // a sibling whose name begins with another crate's name: two directories, not one inside the other
        std::fs::write(root.join("ws/other-more/src/lib.rs"), "#[typeshare]\npub struct QshapeOtherMore { pub a: u8 }\n").unwrap();
        // the same crate once more below a directory that is itself called `src` (`~/src/project/..`): the crate is the
        // directory above the `src` nearest to the file
        let _ = std::fs::create_dir_all(root.join("outer/src/ws2/my-crate/src"));
        std::fs::write(root.join("outer/src/ws2/my-crate/src/lib.rs"), "#[typeshare]\npub struct QshapeDeep { pub a: u8 }\n").unwrap();
        // two crates neither of whose names is spelled on the command line, in one run (a crate inside another one, walked
        // from the inner one as `src` and `../src`): each file still belongs to the directory above its own `src`
        let _ = std::fs::create_dir_all(root.join("nest/outer-c/inner-c/src"));
        let _ = std::fs::create_dir_all(root.join("nest/outer-c/src"));
        std::fs::write(root.join("nest/outer-c/src/lib.rs"), "#[typeshare]\npub struct QshapeOuter { pub a: u8 }\n").unwrap();
        std::fs::write(root.join("nest/outer-c/inner-c/src/lib.rs"), "#[typeshare]\npub struct QshapeInner { pub a: u8 }\n").unwrap();
        let abs_deep = root.join("outer/src/ws2/my-crate").to_string_lossy().into_owned();
        let abs = root.join("ws/my-crate/src").to_string_lossy().into_owned();
        let shapes: Vec<(&str, String, Vec<&str>)> = vec![
            ("ws", "my-crate".into(), vec!["my-crate"]),
            ("ws", "my-crate/src/".into(), vec!["my-crate"]),
            ("ws", ".".into(), vec!["my-crate", "other", "other-more"]),
            ("ws", "other other-more".into(), vec!["other", "other-more"]),
            ("ws", "other-more other".into(), vec!["other", "other-more"]),
            ("ws/my-crate", "../other ../other-more ../other/src".into(), vec!["other", "other-more"]),
            ("ws", "./other/../my-crate".into(), vec!["my-crate"]),
            ("ws", abs.clone(), vec!["my-crate"]),
            ("ws/my-crate", "src".into(), vec!["my-crate"]),
            ("ws/my-crate", "./src".into(), vec!["my-crate"]),
            ("ws/my-crate", ".".into(), vec!["my-crate"]),
            ("ws/my-crate", "src/sub".into(), vec!["my-crate"]),
            ("ws/my-crate/src", ".".into(), vec!["my-crate"]),
            ("ws/my-crate/src", "..".into(), vec!["my-crate"]),
            ("ws/my-crate/src/sub", "../..".into(), vec!["my-crate"]),
            ("ws/other", "../my-crate/src".into(), vec!["my-crate"]),
            ("outer/src/ws2", "my-crate".into(), vec!["my-crate"]),
            ("outer/src/ws2/my-crate", "src".into(), vec!["my-crate"]),
            ("outer", "src/ws2".into(), vec!["my-crate"]),
            ("ws", abs_deep.clone(), vec!["my-crate"]),
            ("nest/outer-c/inner-c", "src ../src".into(), vec!["inner-c", "outer-c"]),
            ("nest/outer-c/inner-c", "../src src".into(), vec!["inner-c", "outer-c"]),
            ("nest/outer-c/inner-c/src", ". ../../src".into(), vec!["inner-c", "outer-c"]),
        ];
        let mut k = 0;
        for (cwd, dir, crates) in &shapes {
            for &lang in langs.iter() {
                k += 1;
                let cfg = LangCfg::basic(lang);
                let out = root.join(format!("out{k}"));
                let dirs: Vec<&str> = dir.split(' ').collect();
                let args = cli_args(lang, &cfg, true, &out, &dirs);
                let o = run_bin(BinRun { cli: &cli, args: args.clone(), env: vec![], cwd: &root.join(cwd), strace: None, wall_limit: Duration::from_secs(30) });
                rep.eval(1);
                rep.count("cli_runs", 1);
                rep.count("path_shape_runs", 1);
                let shape = if dir.starts_with('/') { "absolute".to_string() } else { format!("{}:{dir}", cwd.trim_start_matches("ws").trim_start_matches('/')) };
                rep.cell(format!("path-shape|{shape}|{}", lang.name()));
                if !o.ok() {
                    rep.inconclusive("cli-run-failed (reported by C07)", json!({"language": lang.name(), "args": args, "stderr": o.stderr.chars().take(300).collect::<String>()}));
                    continue;
                }
                let actual: BTreeSet<String> = read_dir_files(&out).into_keys().filter(|k| k != "Codable.swift").collect();
                let expected: BTreeSet<String> = crates.iter().map(|c| expected_file_name(lang, c)).collect();
                if actual != expected {
                    rep.violate(format!("C14|{}|file-set|path-shape", lang.name()), format!("input directory `{dir}` given from `{cwd}`: output files {actual:?}, expected {expected:?}"), json!({"cwd": cwd, "args": args, "outputs": actual, "stderr": o.stderr.chars().take(400).collect::<String>()}));
                }
            }
        }
        let _ = std::fs::remove_dir_all(&root);
    }
    let spec = Spec {
        level: "exploration",
        rule: format!("{n} generated workspaces of 1-5 crates (names drawn from 10, with dashes and underscores, half of them beginning with the name of a third-party crate typeshare ignores - time-utils, http_types, stdx, ring-buffer, synapse; a third of them with an extra `<first crate>.v2` directory, whose name differs from an existing crate only behind a dot), 1-3 files per crate at depth 1-4 under src, 1-3 types per file (an eighth of the names all capitals), references to earlier types in the same file, the same crate (crate:: / super:: / use self:: / use crate::) and other crates (use single / grouped / nested / glob, qualified and deep qualified paths), a fifth of the types generic (half of those naming their parameter like a cross-crate type another item of the file imports) and referred to with a type argument that is itself a reference in any of those forms (`other::Page<third::models::deep::Item>`), wrapped in nothing / Vec / Option / HashMap value / Box<[..; 2]> / HashMap key (not the last type argument), a sixth of the types serde-renamed, a quarter of the reference-free ones written as newtype structs (shared as aliases), optional prefix and a foreign type mapping; real binary with --output-folder and, as twin, --output-file; TypeScript, Kotlin, Swift, Python (Scala and Go have no multi-file support); oracle: file set and names from the crate rule, every type in exactly its crate's file, union of definitions equals the single-file run, TS/Kotlin imports resolve to the defining file and name only defined types; plus one crate reached through 17 spellings of its path (from the workspace, from inside the crate, from inside src, through `..`, absolute, below an ancestor directory that is itself named src) and a crate nested in another one, both walked in one run through spellings that name neither (`src ../src`), two sibling crates one of whose names begins with the other's, whose output file must be named after the directory above src; distinct = (language, crate count, prefix?) and (language, reference form, renamed?)"),
        assumptions: vec![
            "`use .. as ..` renames are outside the stated domain and not generated".into(),
            "extra imports (a glob brings in every type of the crate) are allowed as long as the module defines them".into(),
        ],
        exhaustive: None,
    };
    (spec, rep)
}
