//! C20 — CLI options override typeshare.toml; generated config files round-trip.
//! Oracle: the 3-level precedence model (cli ?? file ?? default) turned into an effective configuration;
//! the real binary's output must be byte-identical to the library pipeline run with that configuration.
//! `-g` is judged by behaviour (generation with the written file == generation with the options) and,
//! under strace, by never touching an existing file.
use crate::report::{par_shards, Ctx, Report, Spec};
use crate::rng::Rng;
use crate::strace::{modifications_under, parse_log};
use crate::sut::{config_toml, run_bin, run_lib, write_tree, BinRun, Exit, LangCfg, LangId, LibOutcome, SrcFile, ALL_LANGS};
use serde_json::json;
use std::collections::HashMap;
use std::time::Duration;

const SOURCE: &str = "#[typeshare]\npub struct UserId { pub id: u32 }\n#[typeshare]\npub struct Account<T> {\n    pub user_id: UserId,\n    pub api_url: String,\n    pub tags: Option<Vec<String>>,\n    pub nothing: (),\n    pub extra: T,\n    pub stamp: Stamp,\n    pub blob: Blob,\n}\n#[typeshare]\npub enum Mode { Fast, Slow }\n#[typeshare(swiftGenericConstraints = \"A: Codable & Equatable\")]\npub struct Paged<A, B> {\n    pub first: A,\n    pub second: Vec<B>,\n    pub nothing_here: (),\n}\n";

#[derive(Clone, Debug, Default)]
struct Dual {
    cli: Option<String>,
    file: Option<String>,
}

impl Dual {
    fn effective(&self) -> String {
        self.cli.clone().or_else(|| self.file.clone()).unwrap_or_default()
    }
}

#[derive(Clone, Debug)]
struct Cell {
    lang: LangId,
    prefix: Dual,
    package: Dual,
    module_name: Dual,
    file_only: LangCfg,
    /// how the config file is found: none | explicit | ancestor(depth)
    discovery: String,
}

fn file_toml(c: &Cell) -> String {
    // dual keys that are present in the file, then the file-only settings
    let sect = match c.lang {
        LangId::Ts => "typescript",
        LangId::Kotlin => "kotlin",
        LangId::Swift => "swift",
        LangId::Scala => "scala",
        LangId::Go => "go",
        LangId::Python => "python",
    };
    let body = config_toml(c.lang, &c.file_only);
    let mut head = String::new();
    if let Some(p) = &c.prefix.file {
        head.push_str(&format!("prefix = {p:?}\n"));
    }
    if let Some(p) = &c.package.file {
        head.push_str(&format!("package = {p:?}\n"));
    }
    if let Some(p) = &c.module_name.file {
        head.push_str(&format!("module_name = {p:?}\n"));
    }
    // insert the dual keys right after the section header
    let header = format!("[{sect}]\n");
    body.replacen(&header, &format!("{header}{head}"), 1)
}

fn cli_opts(c: &Cell) -> Vec<String> {
    let mut a = vec![];
    let mut push = |flag: &str, v: &Option<String>| {
        if let Some(v) = v {
            // both spellings clap accepts: `--flag value` and `--flag=value` (the latter also for the empty value)
            if (v.len() + flag.len()) % 2 == 0 {
                a.push(format!("{flag}={v}"));
            } else {
                a.push(flag.to_string());
                a.push(v.clone());
            }
        }
    };
    match c.lang {
        LangId::Swift => push("--swift-prefix", &c.prefix.cli),
        LangId::Kotlin => {
            push("--kotlin-prefix", &c.prefix.cli);
            push("--java-package", &c.package.cli);
            push("--module-name", &c.module_name.cli);
        }
        LangId::Scala => {
            push("--scala-package", &c.package.cli);
            push("--scala-module-name", &c.module_name.cli);
        }
        LangId::Go => push("--go-package", &c.package.cli),
        _ => {}
    }
    a
}

fn effective(c: &Cell) -> LangCfg {
    let mut e = c.file_only.clone();
    e.prefix = if matches!(c.lang, LangId::Swift | LangId::Kotlin) { c.prefix.effective() } else { String::new() };
    e.package = if matches!(c.lang, LangId::Kotlin | LangId::Scala | LangId::Go) { c.package.effective() } else { String::new() };
    e.module_name = c.module_name.effective();
    e
}

fn gen_cell(rng: &mut Rng, lang: LangId, bits: u32) -> Cell {
    let val = |rng: &mut Rng, kind: &str, side: &str| -> String {
        match kind {
            "prefix" => format!("{}{}", if side == "cli" { "Cl" } else { "Fi" }, ["X", "Yz", "Q"][rng.below(3)]),
            "package" => format!("com.{}.{}", if side == "cli" { "cli" } else { "file" }, ["one", "two"][rng.below(2)]),
            _ => format!("mod{}{}", side, rng.below(9)),
        }
    };
    // a prefix / module name given on the command line may be the empty string: it still is "given" and wins over the file
    let dual = |rng: &mut Rng, kind: &str, b: u32| Dual {
        cli: (b & 1 != 0).then(|| if kind != "package" && rng.chance(1, 4) { String::new() } else { val(rng, kind, "cli") }),
        file: (b & 2 != 0).then(|| val(rng, kind, "file")),
    };
    let prefix = if matches!(lang, LangId::Swift | LangId::Kotlin) { dual(rng, "prefix", bits & 3) } else { Dual::default() };
    let mut package = if matches!(lang, LangId::Kotlin | LangId::Scala | LangId::Go) { dual(rng, "package", (bits >> 2) & 3) } else { Dual::default() };
    if lang == LangId::Go {
        // Go package names are single identifiers
        package.cli = package.cli.map(|s| s.replace('.', "_"));
        package.file = package.file.map(|s| s.replace('.', "_"));
    }
    let module_name = if matches!(lang, LangId::Kotlin | LangId::Scala) { dual(rng, "module", (bits >> 4) & 3) } else { Dual::default() };
    let mut fo = LangCfg::default();
    if rng.chance(2, 3) {
        let mut tm = HashMap::new();
        for (k, v) in [("Stamp", "MappedStamp"), ("Blob", "MappedBlob"), ("UserId", "MappedUser")] {
            // absent, mapped to another name, or mapped to itself (which is not "no mapping": a mapped name takes no
            // prefix and loses its type arguments)
            match rng.below(5) {
                0 | 1 => {
                    tm.insert(k.to_string(), v.to_string());
                }
                2 => {
                    tm.insert(k.to_string(), k.to_string());
                }
                _ => {}
            }
        }
        if rng.chance(1, 4) {
            tm.insert("Paged".to_string(), "Paged".to_string());
        }
        // a mapped generic type stands for the whole type, arguments included: the arguments it is written with in the
        // source (`Envelope<HashMap<T, u8>, ()>`: a map keyed by a type parameter is refused by the TypeScript backend, a unit argument makes the Swift backend emit CodableVoid) are not
        // looked at; the source only has that field when the mapping is there
        if rng.chance(1, 3) {
            tm.insert("Envelope".to_string(), "MappedEnvelope".to_string());
        }
        if matches!(lang, LangId::Ts | LangId::Go | LangId::Python) && rng.coin() {
            tm.insert("Vec<String>".to_string(), "MappedStrings".to_string());
        }
        fo.type_mappings = tm;
    }
    match lang {
        LangId::Swift => {
            if rng.coin() {
                fo.default_decorators = vec!["Sendable".into(), "Equatable".into()].into_iter().take(rng.range(1, 2)).collect();
            }
            if rng.coin() {
                fo.default_generic_constraints = vec!["Sendable".into(), "Hashable & Comparable".into()].into_iter().take(rng.range(1, 2)).collect();
            }
            if rng.coin() {
                fo.codablevoid_constraints = vec!["Equatable".into()];
            }
        }
        LangId::Go => {
            if rng.coin() {
                fo.uppercase_acronyms = vec!["ID".into(), "url".into()].into_iter().take(rng.range(1, 2)).collect();
            }
            fo.no_pointer_slice = rng.coin();
        }
        _ => {}
    }
    let discovery = match rng.below(6) {
        0 | 1 => "explicit".to_string(),
        n => format!("ancestor{}", n - 2),
    };
    Cell { lang, prefix, package, module_name, file_only: fo, discovery }
}

pub fn run(ctx: &Ctx) -> (Spec, Report) {
    let seed = ctx.seed;
    // the full {absent, present} x {absent, present} matrix per dual option and language
    let mut cells: Vec<Cell> = vec![];
    let mut rng = Rng::derive(seed, "C20-cells", 0);
    let reps = ctx.tier.pick(6, 40);
    for lang in ALL_LANGS {
        let nbits = match lang {
            LangId::Kotlin => 64,
            LangId::Scala => 16, // package (bits 2-3) x module (bits 4-5): iterate 0..64 step 4
            LangId::Swift => 4,
            LangId::Go => 4,
            _ => 1,
        };
        for r in 0..reps {
            for b in 0..nbits {
                let bits = match lang {
                    LangId::Scala => (b as u32) << 2,
                    LangId::Go => (b as u32) << 2,
                    _ => b as u32,
                };
                let _ = r;
                cells.push(gen_cell(&mut rng, lang, bits));
            }
        }
    }
    let cli = ctx.cli.clone();
    let scratch = ctx.scratch("cfg");
    let cells_ref = &cells;
    let mut rep = par_shards(ctx.threads, cells.len(), |i| {
        let c = &cells_ref[i];
        let mut rep = Report::new();
        let root = scratch.join(format!("c{i}"));
        write_tree(&root, &[SrcFile { path: "proj/a/b/c/src_root/my_crate/src/lib.rs".into(), source: SOURCE.into() }]);
        let cwd = root.join("proj/a/b/c");
        let toml = file_toml(c);
        let has_file_content = c.prefix.file.is_some() || c.package.file.is_some() || c.module_name.file.is_some() || toml.lines().count() > 1;
        let mut args: Vec<String> = vec!["--lang".into(), c.lang.name().into()];
        let mut discovery = c.discovery.clone();
        if !has_file_content && i % 3 == 0 {
            discovery = "none".into();
        }
        // a second configuration that must lose: further up the ancestor chain (the nearest typeshare.toml applies), or
        // in the working directory when -c names another file
        let decoy_toml = {
            let mut d = c.clone();
            d.prefix.file = matches!(c.lang, LangId::Swift | LangId::Kotlin).then(|| "Decoy".to_string());
            d.package.file = match c.lang {
                LangId::Kotlin | LangId::Scala => Some("decoy.pkg".to_string()),
                LangId::Go => Some("decoypkg".to_string()),
                _ => None,
            };
            d.module_name.file = matches!(c.lang, LangId::Kotlin | LangId::Scala).then(|| "decoymod".to_string());
            d.file_only = LangCfg::default();
            d.file_only.type_mappings = [("Stamp", "DecoyStamp"), ("Blob", "DecoyBlob"), ("UserId", "DecoyUser")].iter().map(|(a, b)| (a.to_string(), b.to_string())).collect();
            file_toml(&d)
        };
        let with_decoy = i % 2 == 0 && discovery != "none";
        if with_decoy {
            rep.count("runs_with_a_losing_second_configuration", 1);
        }
        match discovery.as_str() {
            "none" => {}
            "explicit" => {
                if with_decoy {
                    std::fs::write(cwd.join("typeshare.toml"), &decoy_toml).unwrap();
                }
                std::fs::write(root.join("explicit-config.toml"), &toml).unwrap();
                args.push("--config-file".into());
                args.push(root.join("explicit-config.toml").to_string_lossy().into_owned());
            }
            d => {
                let depth: usize = d.trim_start_matches("ancestor").parse().unwrap_or(0);
                let mut dir = cwd.clone();
                for _ in 0..depth {
                    dir = dir.parent().unwrap().to_path_buf();
                }
                std::fs::write(dir.join("typeshare.toml"), &toml).unwrap();
                if with_decoy {
                    // one or two levels above the file that has to win
                    let mut up = dir.parent().unwrap().to_path_buf();
                    if i % 4 == 0 && up != root {
                        up = up.parent().unwrap().to_path_buf();
                    }
                    std::fs::write(up.join("typeshare.toml"), &decoy_toml).unwrap();
                }
            }
        }
        args.extend(cli_opts(c));
        let out = root.join(format!("out.{}", c.lang.ext()));
        args.push("--output-file".into());
        args.push(out.to_string_lossy().into_owned());
        args.push("src_root".into());
        let mut eff = effective(c);
        if discovery == "none" {
            // no file at all: only the command line counts
            let mut only_cli = c.clone();
            only_cli.prefix.file = None;
            only_cli.package.file = None;
            only_cli.module_name.file = None;
            only_cli.file_only = LangCfg::default();
            eff = effective(&only_cli);
        }
        let envelope = eff.type_mappings.contains_key("Envelope");
        let source = if envelope { format!("{SOURCE}#[typeshare]\npub struct Carrier<T> {{\n    pub wrapped: Envelope<HashMap<T, u8>, ()>,\n    pub wrapped_more: Vec<Envelope<(), HashMap<Vec<T>, ()>>>,\n    pub carried: T,\n}}\n") } else { SOURCE.to_string() };
        if envelope {
            write_tree(&root, &[SrcFile { path: "proj/a/b/c/src_root/my_crate/src/lib.rs".into(), source: source.clone() }]);
        }
        let expected = run_lib(&[SrcFile { path: "src_root/my_crate/src/lib.rs".into(), source: source.clone() }], c.lang, &eff, false, &[]);
        if envelope {
            rep.count("cells_with_a_mapped_generic_type_over_untranslatable_arguments", 1);
            // (judged against the same settings without that struct: a configuration that cannot generate anything, like
            // Scala without a package, says nothing about the mapping)
            let baseline = run_lib(&[SrcFile { path: "src_root/my_crate/src/lib.rs".into(), source: SOURCE.into() }], c.lang, &eff, false, &[]);
            if matches!(baseline, LibOutcome::Ok(_)) && !matches!(expected, LibOutcome::Ok(_) | LibOutcome::Panic { .. }) {
                rep.violate(
                    format!("C20|{}|file-only-setting-not-applied|type_mappings|arguments-of-a-mapped-generic-type-examined", c.lang.name()),
                    format!("`Envelope` is mapped to `MappedEnvelope`, yet `Envelope<HashMap<T, u8>, ()>` is not generated: {}", expected.describe()),
                    json!({"language": c.lang.name(), "effective": eff.to_json(), "source": source}),
                );
            }
        }
        // every other cell finds an output left by an earlier run under other settings of the same length (a two-letter
        // prefix replaced by another, `com.a` by `org.b`): what is generated now must not depend on it
        if i % 2 == 1 {
            if let Some(want) = expected.single() {
                let stale: String = want.chars().map(|ch| if ch.is_ascii_alphabetic() { if ch.to_ascii_lowercase() == 'z' { 'a' } else { (ch as u8 + 1) as char } } else { ch }).collect();
                std::fs::write(&out, stale).unwrap();
                rep.count("cells_with_a_stale_output_of_equal_length", 1);
            }
        }
        let o = run_bin(BinRun { cli: &cli, args: args.clone(), env: vec![], cwd: &cwd, strace: None, wall_limit: Duration::from_secs(30) });
        rep.eval(1);
        rep.count("cli_runs", 1);
        let lname = c.lang.name();
        let cls = |d: &Dual| match (&d.cli, &d.file) {
            (None, None) => "neither",
            (Some(_), None) => "cli",
            (None, Some(_)) => "file",
            _ => "both",
        };
        rep.cell(format!("{lname}|prefix={}|package={}|module={}|{}", cls(&c.prefix), cls(&c.package), cls(&c.module_name), discovery.trim_end_matches(char::is_numeric)));
        let detail = |extra: serde_json::Value| json!({"language": lname, "args": args, "cwd": cwd, "config_discovery": discovery, "config_file": toml, "effective_expected": eff.to_json(), "exit": format!("{:?}", o.exit), "stderr": o.stderr.chars().take(600).collect::<String>(), "extra": extra});
        match (&expected, &o.exit) {
            (LibOutcome::Panic { .. }, _) => {
                // e.g. Scala without any package: the panic is C07's finding
                rep.inconclusive("effective-configuration-panics (reported by C07)", json!({"language": lname, "package": eff.package}));
            }
            (_, Exit::Timeout(_)) | (_, Exit::Signal(_)) => rep.inconclusive("cli-hang-or-signal (reported by C07)", json!({"language": lname})),
            (LibOutcome::Ok(_), Exit::Code(0)) => {
                let got = std::fs::read_to_string(&out).unwrap_or_default();
                let want = expected.single().unwrap_or("");
                rep.count("outputs_compared_bytewise", 1);
                // the binary and the library share the backends: what a file-only table *means* is judged on the text itself
                if c.lang == LangId::Swift {
                    let decl = |name: &str| got.lines().find(|l| l.contains(&format!("struct {}{name}", eff.prefix)) && l.trim_start().starts_with("public struct")).unwrap_or("").to_string();
                    let paged = decl("Paged");
                    let params = paged.split('<').nth(1).and_then(|x| x.split('>').next()).unwrap_or("").to_string();
                    for cst in &eff.default_generic_constraints {
                        rep.count("file_only_settings_checked_on_text", 1);
                        for part in cst.split('&').map(|p| p.trim()).filter(|p| !p.is_empty()) {
                            let all_params_have_it = !params.is_empty() && params.split(',').all(|p| p.split(':').nth(1).map(|cs| cs.split('&').any(|x| x.trim() == part)).unwrap_or(false));
                            if !all_params_have_it {
                                rep.violate(format!("C20|swift|file-only-setting-not-applied|default_generic_constraints"), format!("default generic constraint {part} is missing on a parameter of `{}`", paged.trim()), detail(json!({"declaration": paged, "constraint": part})));
                            }
                        }
                    }
                    for deco in &eff.default_decorators {
                        rep.count("file_only_settings_checked_on_text", 1);
                        // every generated type, the stand-in for `()` included (a struct that is Equatable needs Equatable members)
                        for name in ["UserId", "Account", "Paged", "CodableVoid"] {
                            let d = if name == "CodableVoid" { got.lines().find(|l| l.contains("struct CodableVoid")).unwrap_or("").to_string() } else { decl(name) };
                            if !d.split(':').nth(1).map(|cs| cs.split(|ch| ch == ',' || ch == '{').any(|x| x.trim() == deco)).unwrap_or(false) && !d.contains(&format!(": {deco}")) && !d.contains(&format!(", {deco}")) {
                                rep.violate(format!("C20|swift|file-only-setting-not-applied|default_decorators"), format!("default decorator {deco} is missing on `{}`", d.trim()), detail(json!({"declaration": d, "decorator": deco})));
                            }
                        }
                    }
                    let void = got.lines().find(|l| l.contains("struct CodableVoid")).unwrap_or("").to_string();
                    for cst in &eff.codablevoid_constraints {
                        rep.count("file_only_settings_checked_on_text", 1);
                        if !void.contains(cst.as_str()) {
                            rep.violate(format!("C20|swift|file-only-setting-not-applied|codablevoid_constraints"), format!("CodableVoid constraint {cst} is missing on `{}`", void.trim()), detail(json!({"declaration": void, "constraint": cst})));
                        }
                    }
                }
                for (from, to) in &eff.type_mappings {
                    // (a name mapped to itself is judged by the byte comparison below: its spelling in the output is the
                    // type's own, which Go may re-case under an acronym table)
                    if ["Stamp", "Blob", "UserId", "Envelope"].contains(&from.as_str()) && from != to {
                        rep.count("file_only_settings_checked_on_text", 1);
                        if !got.contains(to.as_str()) {
                            rep.violate(format!("C20|{lname}|file-only-setting-not-applied|type_mappings"), format!("type mapping {from} -> {to} leaves no trace in the output"), detail(json!({"mapping": [from, to]})));
                        }
                    }
                }
                if got != want {
                    // which setting is off?
                    let which = if c.lang == LangId::Go && eff.package.is_empty() { "go-package" } else { diff_setting(&got, want, c) };
                    rep.violate(
                        format!("C20|{lname}|effective-setting-differs|{which}|{}", discovery.trim_end_matches(char::is_numeric)),
                        format!("{lname}: generated code does not reflect cli ?? file ?? default for {which}"),
                        detail(json!({"generated": got, "expected": want})),
                    );
                }
            }
            (_, Exit::Code(0)) => rep.violate(format!("C20|{lname}|succeeds-where-effective-config-fails"), format!("the binary succeeds although the effective configuration cannot generate: {}", expected.describe()), detail(json!(null))),
            (LibOutcome::Ok(_), Exit::Code(_)) => {
                // Go without any package is refused up front with a diagnostic
                if c.lang == LangId::Go && eff.package.is_empty() && o.stderr.contains("package name") {
                    rep.count("go_without_package_diagnosed", 1);
                } else if o.panicked() {
                    rep.inconclusive("cli-panic (reported by C07)", json!({"language": lname}));
                } else {
                    rep.violate(format!("C20|{lname}|fails-where-effective-config-generates"), "the binary fails although the effective configuration is valid".to_string(), detail(json!(null)));
                }
            }
            _ => {}
        }
        if i % 61 == 0 {
            rep.sample(json!({"language": lname, "args": args, "config_file": toml, "config_discovery": discovery, "effective": eff.to_json()}));
        }
        let _ = std::fs::remove_dir_all(&root);
        rep
    });

    // ---- -g / --generate-config ---------------------------------------------------------------------------
    let n_g = ctx.tier.pick(60, 400);
    let r2 = par_shards(ctx.threads, n_g, |i| {
        let mut rep = Report::new();
        let mut rng = Rng::derive(seed, "C20-g", i as u64);
        let root = scratch.join(format!("g{i}"));
        write_tree(&root, &[SrcFile { path: "src_root/my_crate/src/lib.rs".into(), source: SOURCE.into() }]);
        // random subset of the options
        let mut opts: Vec<(String, String)> = vec![];
        for (flag, v) in [("--swift-prefix", "GenSw"), ("--kotlin-prefix", "GenKt"), ("--java-package", "com.gen.kt"), ("--module-name", "genmod"), ("--scala-package", "com.gen.sc"), ("--scala-module-name", "genscmod"), ("--go-package", "gengo")] {
            if rng.chance(2, 3) {
                opts.push((flag.to_string(), format!("{v}{}", rng.below(9))));
            }
        }
        let explicit = rng.coin();
        let target = if explicit { root.join("made/by-g.toml") } else { root.join("typeshare.toml") };
        if explicit {
            std::fs::create_dir_all(root.join("made")).unwrap();
        }
        let mut args: Vec<String> = vec!["--generate-config".into()];
        if explicit {
            args.push("--config-file".into());
            args.push(target.to_string_lossy().into_owned());
        }
        for (f, v) in &opts {
            args.push(f.clone());
            args.push(v.clone());
        }
        args.push("src_root".into());
        let log = root.join("g1.log");
        let o = run_bin(BinRun { cli: &cli, args: args.clone(), env: vec![], cwd: &root, strace: Some(log), wall_limit: Duration::from_secs(30) });
        rep.eval(1);
        rep.count("cli_runs", 1);
        rep.cell(format!("generate-config|explicit={explicit}|options={}", opts.len().min(3)));
        let detail = |extra: serde_json::Value| json!({"args": args, "exit": format!("{:?}", o.exit), "stderr": o.stderr.chars().take(600).collect::<String>(), "written": std::fs::read_to_string(&target).ok(), "extra": extra});
        if !o.ok() || !target.is_file() {
            rep.violate("C20|generate-config|no-file-written", "typeshare -g did not produce the configuration file".to_string(), detail(json!(null)));
            let _ = std::fs::remove_dir_all(&root);
            return rep;
        }
        // behavioural round trip per language
        for lang in ALL_LANGS {
            let relevant: Vec<String> = opts
                .iter()
                .filter(|(f, _)| match lang {
                    LangId::Swift => f == "--swift-prefix",
                    LangId::Kotlin => f == "--kotlin-prefix" || f == "--java-package" || f == "--module-name",
                    LangId::Scala => f == "--scala-package" || f == "--scala-module-name",
                    LangId::Go => f == "--go-package",
                    _ => false,
                })
                .flat_map(|(f, v)| vec![f.clone(), v.clone()])
                .collect();
            let gen = |with_file: bool, tag: &str| {
                let out = root.join(format!("rt-{tag}.{}", lang.ext()));
                let mut a: Vec<String> = vec!["--lang".into(), lang.name().into()];
                // run from a directory that has no typeshare.toml in any ancestor
                if with_file {
                    a.push("--config-file".into());
                    a.push(target.to_string_lossy().into_owned());
                } else {
                    a.push("--config-file".into());
                    a.push(root.join("empty.toml").to_string_lossy().into_owned());
                    a.extend(relevant.clone());
                }
                a.push("--output-file".into());
                a.push(out.to_string_lossy().into_owned());
                a.push(root.join("src_root").to_string_lossy().into_owned());
                let o = run_bin(BinRun { cli: &cli, args: a, env: vec![], cwd: &root, strace: None, wall_limit: Duration::from_secs(30) });
                (o, std::fs::read(&out).ok())
            };
            std::fs::write(root.join("empty.toml"), "").unwrap();
            let (oa, a) = gen(true, "file");
            let (ob, b) = gen(false, "opts");
            rep.eval(1);
            rep.count("cli_runs", 2);
            rep.count("round_trips_compared", 1);
            if oa.panicked() || ob.panicked() {
                rep.inconclusive("cli-panic (reported by C07)", json!({"language": lang.name()}));
                continue;
            }
            if oa.ok() != ob.ok() || a != b {
                rep.violate(
                    format!("C20|generate-config|round-trip-differs|{}", lang.name()),
                    format!("{}: generating with the written config differs from generating with the options it was written from", lang.name()),
                    detail(json!({"language": lang.name(), "options": relevant, "with_file_ok": oa.ok(), "with_options_ok": ob.ok(), "with_file_stderr": oa.stderr.chars().take(300).collect::<String>(),
                        "with_file": a.map(|x| String::from_utf8_lossy(&x).into_owned()), "with_options": b.map(|x| String::from_utf8_lossy(&x).into_owned())})),
                );
            }
        }
        // a second -g must not touch the existing file
        let before = std::fs::read(&target).unwrap_or_default();
        let log2 = root.join("g2.log");
        let mut args2 = args.clone();
        // different option values this time: if the file were rewritten its bytes would change
        for a in args2.iter_mut() {
            if a.starts_with("Gen") || a.starts_with("com.gen") || a.starts_with("gen") {
                a.push_str("again");
            }
        }
        let o2 = run_bin(BinRun { cli: &cli, args: args2.clone(), env: vec![], cwd: &root, strace: Some(log2.clone()), wall_limit: Duration::from_secs(30) });
        rep.eval(1);
        rep.count("cli_runs", 1);
        rep.count("overwrite_attempts", 1);
        let events = parse_log(&log2);
        rep.count("syscall_events_logged", events.len() as u64);
        let mods = modifications_under(&events, target.to_str().unwrap());
        let after = std::fs::read(&target).unwrap_or_default();
        if o2.ok() {
            rep.violate("C20|generate-config|second-run-succeeds", "typeshare -g over an existing file exits 0".to_string(), json!({"args": args2}));
        }
        if !mods.is_empty() || after != before {
            rep.violate("C20|generate-config|existing-file-touched", format!("typeshare -g modified an existing configuration file: {}", mods.first().map(|e| e.line.clone()).unwrap_or_default()), json!({"args": args2, "before": String::from_utf8_lossy(&before), "after": String::from_utf8_lossy(&after)}));
        }
        // nor an existing file of any other content: empty (which is a configuration of its own: it ends the ancestor search
        // and selects the defaults), a few bytes of somebody else's, a file without write permission
        for (what, content) in [("empty", &b""[..]), ("one-newline", &b"\n"[..]), ("foreign", &b"# mine\n[swift]\nprefix = \"Mine\"\n"[..])] {
            std::fs::write(&target, content).unwrap();
            let log3 = root.join("g3.log");
            let o3 = run_bin(BinRun { cli: &cli, args: args2.clone(), env: vec![], cwd: &root, strace: Some(log3.clone()), wall_limit: Duration::from_secs(30) });
            rep.eval(1);
            rep.count("cli_runs", 1);
            rep.count("overwrite_attempts", 1);
            rep.cell(format!("generate-config|over-existing|{what}"));
            let events = parse_log(&log3);
            rep.count("syscall_events_logged", events.len() as u64);
            let mods = modifications_under(&events, target.to_str().unwrap());
            let after = std::fs::read(&target).unwrap_or_default();
            if o3.ok() {
                rep.violate(format!("C20|generate-config|second-run-succeeds|{what}"), format!("typeshare -g over an existing ({what}) file exits 0"), json!({"args": args2}));
            }
            if !mods.is_empty() || after != content {
                rep.violate(format!("C20|generate-config|existing-file-touched|{what}"), format!("typeshare -g modified an existing ({what}) configuration file: {}", mods.first().map(|e| e.line.clone()).unwrap_or_default()), json!({"args": args2, "before": String::from_utf8_lossy(content), "after": String::from_utf8_lossy(&after)}));
            }
        }
        let _ = std::fs::remove_dir_all(&root);
        rep
    });
    rep.merge(r2);
    let _ = std::fs::remove_dir_all(&scratch);
    let spec = Spec {
        level: "exploration",
        rule: format!("{} cells of the real binary: for each language the full {{absent, present}} x {{absent, present}} matrix on the command line x in the file for every dual option (swift-prefix; kotlin-prefix x java-package x module-name; scala-package x scala-module-name; go-package), combined with random file-only tables (type_mappings incl. entries that map a name to itself and a mapped generic type written with arguments the backend would refuse, default_decorators, default_generic_constraints, codablevoid_constraints, uppercase_acronyms, no_pointer_slice), the config found by -c, by ancestor search from cwd depth 0-3, or absent, half of the runs with a second, losing configuration (one or two levels further up the ancestor chain, or in the working directory when -c names another file); every other cell starting over an output of equal length left by other settings; oracle: output bytes equal the library pipeline run with cli ?? file ?? default; plus {n_g} generate-config runs (random option subsets, default and explicit path): behavioural round trip for all 6 languages and further -g runs under strace over the file just written, an empty file, a one-byte file and somebody else's file, each of which must fail without touching the file; distinct = (language, per-option source, discovery)", cells.len()),
        assumptions: vec![
            "the library driver's construction of backend structs from a configuration mirrors cli/src/main.rs::language()".into(),
            "Scala without any package panics and Go without any package is refused: both are accepted outcomes here (the panic is C07's)".into(),
        ],
        exhaustive: Some(true),
    };
    (spec, rep)
}

/// name the first setting whose effect differs between two outputs (for the signature only)
fn diff_setting(got: &str, want: &str, c: &Cell) -> &'static str {
    let first = got.lines().zip(want.lines()).find(|(a, b)| a != b).map(|(a, b)| format!("{a}\n{b}")).unwrap_or_default();
    if first.contains("package") {
        "package"
    } else if first.contains("Mapped") {
        "type_mappings"
    } else if !c.prefix.effective().is_empty() && (first.contains(&c.prefix.effective()) || c.prefix.cli.iter().chain(c.prefix.file.iter()).any(|p| first.contains(p.as_str()))) {
        "prefix"
    } else if first.contains("CodableVoid") {
        "codablevoid_constraints"
    } else if first.contains("Sendable") || first.contains("Equatable") || first.contains("Hashable") {
        "decorators-or-constraints"
    } else if first.contains("[]") {
        "no_pointer_slice"
    } else if first.contains("ID") || first.contains("URL") {
        "uppercase_acronyms"
    } else {
        "other"
    }
}
