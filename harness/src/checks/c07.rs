//! C07 — the tool terminates with output or a diagnostic; it never panics or hangs.
//! Restated as bounded progress: every run on a small tree ends within the CPU bound with
//! exit 0 + output, or exit != 0 + a diagnostic naming the offending file; no `panicked at`,
//! no signal, no dead-lock (diagnosed from /proc thread states, not from wall clock alone).
use crate::gen::{gen_program, Profile};
use crate::model::RenderOpts;
use crate::report::{par_shards, short_loc, Ctx, Report, Spec, Tier};
use crate::rng::Rng;
use crate::sut::{cli_args, run_bin, run_lib, write_tree, BinRun, Exit, LangCfg, LangId, LibOutcome, SrcFile, ALL_LANGS};
use serde_json::json;
use std::time::Duration;

/// the source line at a panic location, normalised: a signature that survives line shifts
fn code_at(ctx: &Ctx, loc: &str) -> String {
    let mut it = loc.rsplitn(2, ':');
    let line: usize = it.next().and_then(|s| s.parse().ok()).unwrap_or(0);
    let file = it.next().unwrap_or("");
    if file.starts_with("registry/") {
        return format!("{file}");
    }
    let p = ctx.repo.join(file);
    let text = std::fs::read_to_string(&p).unwrap_or_default();
    text.lines().nth(line.saturating_sub(1)).map(|l| l.trim().chars().take(70).collect()).unwrap_or_else(|| "?".into())
}

fn panic_sig(ctx: &Ctx, loc: &str, msg: &str) -> String {
    if loc == "watchdog" {
        // the in-process pipeline never came back (sut::run_lib)
        return format!("C07|library|hang|{}", if msg.starts_with("not started") { "later-runs-not-started" } else { "no-result-within-limit" });
    }
    let loc = short_loc(loc);
    let file = loc.rsplitn(2, ':').nth(1).unwrap_or(&loc).to_string();
    let kind = if msg.contains("not yet implemented") {
        "todo"
    } else if msg.contains("unwrap()` on a `None`") {
        "unwrap-none"
    } else if msg.contains("index out of bounds") || msg.contains("out of bounds") || msg.contains("out of range") {
        "index"
    } else if msg.contains("char boundary") {
        "char-boundary"
    } else if msg.contains("Result::unwrap()") || msg.contains("unwrap()` on an `Err`") {
        "unwrap-err"
    } else if msg.contains("overflow") {
        "overflow"
    } else {
        "explicit"
    };
    format!("C07|panic|{file}|{kind}|{}", code_at(ctx, &loc))
}

/// `thread '..' panicked at core/src/parser.rs:287:26:\nmsg`
fn parse_stderr_panic(stderr: &str) -> Vec<(String, String)> {
    let mut out = vec![];
    let lines: Vec<&str> = stderr.lines().collect();
    for (i, l) in lines.iter().enumerate() {
        if let Some(p) = l.find("panicked at ") {
            let rest = l[p + 12..].trim().trim_end_matches(':');
            // file:line:col
            let mut parts = rest.rsplitn(2, ':');
            let _col = parts.next();
            let loc = parts.next().unwrap_or(rest).to_string();
            let msg = lines.get(i + 1).unwrap_or(&"").to_string();
            out.push((loc, msg));
        }
    }
    out
}

struct Edge {
    class: &'static str,
    source: String,
    /// extra files (path, content)
    extra: Vec<SrcFile>,
    /// override package ("" = empty package name)
    package: Option<&'static str>,
    only: Option<Vec<LangId>>,
}

fn edge(class: &'static str, source: &str) -> Edge {
    Edge { class, source: source.to_string(), extra: vec![], package: None, only: None }
}

fn corpus() -> Vec<Edge> {
    let mut v = vec![
        edge("empty-tuple-struct", "#[typeshare]\npub struct A();\n"),
        edge("empty-tuple-variant", "#[typeshare]\n#[serde(tag = \"t\", content = \"c\")]\npub enum E { V(), W(u8) }\n"),
        edge("vec-without-args", "#[typeshare]\npub struct A { pub a: Vec }\n"),
        edge("option-without-args", "#[typeshare]\npub struct A { pub a: Option }\n"),
        edge("hashmap-without-args", "#[typeshare]\npub struct A { pub a: HashMap }\n"),
        edge("hashmap-one-arg", "#[typeshare]\npub struct A { pub a: HashMap<String> }\n"),
        edge("box-without-args", "#[typeshare]\npub struct A { pub a: Box }\n"),
        edge("vec-lifetime-arg-only", "#[typeshare]\npub struct A<'a> { pub a: Vec<'a> }\n"),
        edge("vec-parenthesized-args", "#[typeshare]\npub struct A { pub a: Vec(u8) }\n"),
        edge("unknown-nested-typeshare-list", "#[typeshare]\npub struct A { #[typeshare(foo(bar))] pub a: u8 }\n"),
        edge("unknown-language-ident", "#[typeshare]\npub struct A { #[typeshare(cobol(type = \"X\"))] pub a: u8 }\n"),
        edge("unknown-language-on-variant-field", "#[typeshare]\n#[serde(tag = \"t\", content = \"c\")]\npub enum E { V { #[typeshare(fortran(readonly))] a: u8 } }\n"),
        // tokens that are no identifier inside a language's decorator list: a string literal, a stray comma, a number
        edge("decorator-list-string-literal", "#[typeshare]\npub struct A { #[typeshare(typescript(\"readonly\"))] pub a: u8 }\n"),
        edge("decorator-list-leading-comma", "#[typeshare]\npub struct A { #[typeshare(typescript(, readonly))] pub a: u8 }\n"),
        edge("decorator-list-double-comma", "#[typeshare]\npub struct A { #[typeshare(typescript(readonly,, x))] pub a: u8 }\n"),
        edge("decorator-list-number", "#[typeshare]\n#[serde(tag = \"t\", content = \"c\")]\npub enum E { V { #[typeshare(kotlin(5))] a: u8 } }\n"),
        edge("decorator-list-nested-group", "#[typeshare]\npub struct A { #[typeshare(swift((readonly)))] pub a: u8 }\n"),
        edge("typeshare-list-path-arg", "#[typeshare]\npub struct A { #[typeshare(a::b(c))] pub a: u8 }\n"),
        edge("malformed-language-args", "#[typeshare]\npub struct A { #[typeshare(typescript(type = 5))] pub a: u8 }\n"),
        edge("non-ascii-field-rename-all", "#[typeshare]\n#[serde(rename_all = \"camelCase\")]\npub struct A { pub é_x: u8, pub x_é: u8 }\n"),
        edge("underscore-only-field-camel", "#[typeshare]\n#[serde(rename_all = \"camelCase\")]\npub struct A { pub __: u8 }\n"),
        edge("underscore-only-field-pascal", "#[typeshare]\n#[serde(rename_all = \"PascalCase\")]\npub struct A { pub _: u8 }\n"),
        edge("non-ascii-variant-rename-all", "#[typeshare]\n#[serde(rename_all = \"camelCase\")]\npub enum E { Éa, Bé }\n"),
        edge("underscore-variant", "#[typeshare]\n#[serde(rename_all = \"camelCase\", tag = \"t\", content = \"c\")]\npub enum E { __(u8), _A }\n"),
        edge("tuple-struct-only-field-skipped", "#[typeshare]\npub struct Tag(#[serde(skip)] std::marker::PhantomData<()>);\n#[typeshare]\npub struct Tag2(#[typeshare(skip)] pub u8);\n"),
        edge("tuple-struct-all-fields-skipped", "#[typeshare]\npub struct Pair(#[typeshare(skip)] u8, #[serde(skip)] String);\n"),
        edge("tuple-struct-one-kept-one-skipped", "#[typeshare]\npub struct Id<T>(pub String, #[serde(skip)] std::marker::PhantomData<T>);\n#[typeshare]\npub struct Rev(#[serde(skip)] u8, pub String);\n"),
        edge("tuple-variant-only-field-skipped", "#[typeshare]\n#[serde(tag = \"t\", content = \"c\")]\npub enum E { A(#[serde(skip)] u8), B(u8), C(#[typeshare(skip)] u8, #[serde(skip)] u8) }\n"),
        edge("struct-all-named-fields-skipped", "#[typeshare]\npub struct AllGone { #[serde(skip)] pub a: u8, #[typeshare(skip)] pub b: u8 }\n#[typeshare]\n#[serde(tag = \"t\", content = \"c\")]\npub enum F { V { #[serde(skip)] x: u8 }, W }\n"),
        edge("tuple-struct-field-behind-cfg", "#[typeshare]\npub struct DeviceToken(#[cfg(target_os = \"ios\")] pub String);\n#[typeshare]\npub struct Two(#[cfg(target_os = \"ios\")] pub String, #[cfg(target_os = \"android\")] pub u32);\n"),
        edge("untagged-enum-with-empty-brace-variant", "#[typeshare]\npub enum ConnectionState { Idle, Connecting, Established {} }\n"),
        edge("untagged-enum-with-empty-paren-variant", "#[typeshare]\npub enum Phase { Start, Middle(), End }\n"),
        edge("tagged-enum-with-empty-brace-and-paren-variants", "#[typeshare]\n#[serde(tag = \"t\", content = \"c\")]\npub enum Mixed { A {}, B(), C, D { x: u8 } }\n"),
        edge("unit-struct-three-spellings", "#[typeshare]\npub struct UnitA;\n#[typeshare]\npub struct UnitB {}\n#[typeshare]\npub struct UnitC();\n"),
        edge("doc-comment-without-text", "///\n#[typeshare]\npub struct A {\n    ///\n    ///\n    pub a: u8,\n    #[doc = \"\"]\n    pub b: u8,\n}\n/** */\n#[typeshare]\npub enum E {\n    ///\n    X,\n    /**\n     */\n    Y,\n}\n#[doc = \"\"]\n#[doc = \"   \"]\n#[typeshare]\npub type T = Vec<u8>;\n"),
        edge("doc-comment-blank-lines-around-text", "///\n///\n/// text after two blank lines\n///\n#[typeshare]\n#[serde(tag = \"t\", content = \"c\")]\npub enum E {\n    ///\n    /// variant\n    A(u8),\n    B {\n        /// field\n        ///\n        x: u8,\n    },\n}\n"),
        edge("non-ascii-before-acronym", "#[typeshare]\npub struct Benutzer { pub größe_id: u32, pub übung_url: String, pub id_größe: u8, pub é_api_é: u8 }\n#[typeshare]\npub struct GrößeId { pub a: u8 }\n#[typeshare]\n#[serde(tag = \"t\", content = \"c\")]\npub enum ÜbungUrl { ÄpiId(GrößeId), Über { straße_id: u8 } }\n"),
        edge("non-ascii-type-name", "#[typeshare]\npub struct Étoile { pub a: u8 }\n#[typeshare]\n#[serde(tag = \"t\", content = \"c\")]\npub enum Éé { A(Étoile) }\n"),
        edge("const-every-backend", "#[typeshare]\npub const LIMIT: u32 = 7;\n"),
        edge("const-with-struct", "#[typeshare]\npub const LIMIT: u32 = 7;\n#[typeshare]\npub struct A { pub a: u8 }\n"),
        edge("one-letter-enum", "#[typeshare]\n#[serde(tag = \"t\", content = \"c\")]\npub enum E { A(u8) }\n"),
        edge("empty-enum", "#[typeshare]\npub enum Never {}\n"),
        edge("empty-tagged-enum", "#[typeshare]\n#[serde(tag = \"t\", content = \"c\")]\npub enum Never {}\n"),
        edge("serialized-as-not-a-type", "#[typeshare(serialized_as = \"not a type\")]\npub struct A { pub a: u8 }\n"),
        edge("serialized-as-empty", "#[typeshare]\npub struct A { #[typeshare(serialized_as = \"\")] pub a: u8 }\n"),
        edge("serialized-as-vec-no-args", "#[typeshare]\npub struct A { #[typeshare(serialized_as = \"Vec\")] pub a: u8 }\n"),
        edge("empty-tag-key", "#[typeshare]\n#[serde(tag = \"\", content = \"\")]\npub enum E { A(u8), B }\n"),
        edge("non-ascii-tag-key", "#[typeshare]\n#[serde(tag = \"é\", content = \"ü\")]\npub enum E { A(u8), B }\n"),
        edge("array-const-length", "pub const N: usize = 2;\n#[typeshare]\npub struct A { pub a: [u8; N] }\n"),
        edge("array-expr-length", "#[typeshare]\npub struct A { pub a: [u8; 1 + 1] }\n"),
        edge("array-huge-length", "#[typeshare]\npub struct A { pub a: [u8; 99999999999999999999] }\n"),
        edge("array-suffixed-length", "#[typeshare]\npub struct A { pub a: [u8; 2usize] }\n"),
        edge("fn-pointer-type", "#[typeshare]\npub struct A { pub a: fn(u8) -> u8 }\n"),
        edge("dyn-type", "#[typeshare]\npub struct A { pub a: Box<dyn std::fmt::Debug> }\n"),
        edge("impl-type-alias", "#[typeshare]\npub type A = impl Sized;\n"),
        edge("never-type", "#[typeshare]\npub struct A { pub a: ! }\n"),
        edge("paren-type", "#[typeshare]\npub struct A { pub a: (u8) }\n"),
        edge("raw-pointer", "#[typeshare]\npub struct A { pub a: *const u8 }\n"),
        edge("macro-type", "#[typeshare]\npub struct A { pub a: my_type!() }\n"),
        edge("self-type", "#[typeshare]\npub struct A { pub a: Option<Box<Self>> }\n"),
        edge("qualified-self-type", "#[typeshare]\npub struct A { pub a: <u8 as Into<u16>>::Output }\n"),
        edge("infer-type", "#[typeshare]\npub type A = Vec<_>;\n"),
        edge("generic-map-key", "#[typeshare]\npub struct A<K> { pub a: HashMap<K, u8> }\n"),
        edge("generic-const-param", "#[typeshare]\npub struct A<const N: usize> { pub a: [u8; N] }\n"),
        edge("lifetime-generic", "#[typeshare]\npub struct A<'a, T> { pub a: &'a T }\n"),
        edge("union-item", "#[typeshare]\npub union U { a: u8, b: u16 }\n"),
        edge("annotated-fn", "#[typeshare]\npub fn f() {}\n"),
        edge("annotated-impl-const", "pub struct S;\nimpl S { #[typeshare]\npub const X: u32 = 1; }\n"),
        edge("const-string", "#[typeshare]\npub const S: &str = \"x\";\n"),
        edge("const-huge", "#[typeshare]\npub const BIG: u32 = 340282366920938463463374607431768211455999;\n"),
        edge("const-block-expr", "#[typeshare]\npub const X: u32 = { 3 };\n"),
        edge("datetime-everywhere", "#[typeshare]\npub struct A { pub at: OffsetDateTime, pub ats: Vec<time::OffsetDateTime> }\n"),
        edge("keyword-type-name", "#[typeshare]\npub struct r#type { pub r#fn: u8 }\n"),
        edge("digit-variant-after-rename", "#[typeshare]\n#[serde(tag = \"t\", content = \"c\")]\npub enum E { #[serde(rename = \"1st\")] First(u8), _2 { a: u8 } }\n"),
        edge("decorator-weird", "#[typeshare(swift = \"\", kotlin = \",,\", swiftGenericConstraints = \"T\")]\npub struct A<T> { pub a: T }\n"),
        edge("generic-constraint-no-colon", "#[typeshare(swiftGenericConstraints = \":::&&\")]\npub struct A<T> { pub a: T }\n"),
        edge("attr-without-parens", "#[typeshare]\n#[serde]\npub struct A { #[serde] pub a: u8 }\n"),
        edge("serde-non-meta-args", "#[typeshare]\n#[serde(rename_all = 5, tag(x), content = ident)]\npub struct A { #[serde(rename = b\"x\")] pub a: u8 }\n"),
        edge("cfg-garbage", "#[typeshare]\n#[cfg(any(target_os = 5, not()))]\npub struct A { #[cfg(target_os)] pub a: u8 }\n"),
        edge("doc-non-string", "#[typeshare]\n#[doc = 5]\n#[doc(hidden)]\npub struct A { pub a: u8 }\n"),
        edge("deep-type", &format!("#[typeshare]\npub struct A {{ pub a: {}u8{} }}\n", "Vec<".repeat(200), ">".repeat(200))),
        // 40 layers of two structs, each referring to both structs of the next layer (directly, in an Option, in a Vec):
        // 80 small ordinary items with 2^40 paths through their reference graph; and the same as a chain of enums
        edge(
            "layered-reference-graph",
            &(0..40)
                .map(|i| {
                    let next = |k: usize| if i == 39 { "u8".to_string() } else { format!("L{}x{k}", i + 1) };
                    format!(
                        "#[typeshare]\npub struct L{i}x0 {{ pub a: {}, pub b: Option<{}> }}\n#[typeshare]\npub struct L{i}x1 {{ pub a: Vec<{}>, pub b: {} }}\n",
                        next(0),
                        next(1),
                        next(0),
                        next(1)
                    )
                })
                .collect::<String>(),
        ),
        edge(
            "layered-reference-graph-of-enums-and-aliases",
            &(0..36)
                .map(|i| {
                    let next = |k: usize| if i == 35 { "String".to_string() } else { format!("M{}x{k}", i + 1) };
                    format!(
                        "#[typeshare]\n#[serde(tag = \"t\", content = \"c\")]\npub enum M{i}x0 {{ A({}), B {{ f: {} }} }}\n#[typeshare]\npub type M{i}x1 = HashMap<String, M{i}x2>;\n#[typeshare]\npub struct M{i}x2 {{ pub a: {}, pub b: {} }}\n",
                        next(0),
                        next(1),
                        next(0),
                        next(1)
                    )
                })
                .collect::<String>(),
        ),
        edge("many-fields", &format!("#[typeshare]\npub struct A {{ {} }}\n", (0..3000).map(|i| format!("pub f{i}: u8,")).collect::<String>())),
        edge("self-referential-alias", "#[typeshare]\npub type A = Vec<A>;\n#[typeshare]\npub type B = C;\n#[typeshare]\npub type C = B;\n"),
        edge("mutually-recursive-generics", "#[typeshare]\npub struct A<T> { pub b: Option<Box<B<T>>> }\n#[typeshare]\npub struct B<T> { pub a: Vec<A<T>> }\n"),
        edge("alias-generic-shadowing-type", "#[typeshare]\npub struct T { pub a: u8 }\n#[typeshare]\npub type Al<T> = Vec<T>;\n"),
        edge("duplicate-type-names", "#[typeshare]\npub struct A { pub a: u8 }\npub mod m { #[typeshare]\npub struct A { pub b: u8 } }\n"),
        edge("nested-fn-item", "pub fn f() { #[typeshare]\npub struct Inner { pub a: u8 } }\n"),
        edge("typeshare-in-string-only", "pub const S: &str = \"#[typeshare]\";\n"),
        edge("not-rust", "this is not rust at all {{{\n#[typeshare]\n"),
        edge("unterminated", "#[typeshare]\npub struct A { pub a: u8 \n"),
        edge("bom-and-crlf", "\u{feff}#[typeshare]\r\npub struct A { pub a: u8 }\r\n"),
        edge("shebang", "#!/usr/bin/env run-cargo-script\n#[typeshare]\npub struct A { pub a: u8 }\n"),
        edge("unknown-generic-type", "#[typeshare]\npub struct A { pub a: Foreign<u8>, pub b: Vec<other::Foreign<Local, u8>> }\n#[typeshare]\npub struct Local { pub x: u8 }\n"),
        edge("unknown-simple-type", "#[typeshare]\npub struct A { pub a: Foreign, pub b: Option<some::path::Foreign> }\n#[typeshare]\npub type B = Foreign;\n#[typeshare]\n#[serde(tag = \"t\", content = \"c\")]\npub enum E { V(Foreign), W { f: Foreign } }\n"),
        edge("renamed-tagged-enum-self-reference", "#[typeshare]\n#[serde(rename = \"NodeV2\", tag = \"t\", content = \"c\")]\npub enum Node { Leaf(u8), Pair(Box<Node>), Many { kids: Vec<Node> } }\n#[typeshare]\npub struct Holder { pub n: Node }\n"),
        edge("renamed-everything-cycle", "#[typeshare]\n#[serde(rename = \"AA\")]\npub struct A { pub b: Option<Box<B>> }\n#[typeshare]\n#[serde(rename = \"BB\")]\npub struct B { pub a: Vec<A>, pub c: C }\n#[typeshare]\n#[serde(rename = \"CC\")]\npub type C = Vec<A>;\n"),
        // attribute shapes the coverage run showed no workload reached
        edge("decorator-nested-list", "#[typeshare]\npub struct A { #[typeshare(typescript(nested(list), type = \"x\"))] pub a: u8, #[typeshare(kotlin(a(b(c))))] pub b: u8 }\n"),
        edge("decorator-value-not-a-literal", "#[typeshare]\npub struct A { #[typeshare(typescript(type = SOME_CONST))] pub a: u8, #[typeshare(swift(type = 5))] pub b: u8 }\n"),
        edge("doc-attribute-macro-value", "#[typeshare]\n#[doc = include_str!(\"../README.md\")]\n#[doc = concat!(\"a\", \"b\")]\npub struct A { #[doc = stringify!(x)] pub a: u8 }\n"),
        edge("serde-rename-not-a-literal", "#[typeshare]\n#[serde(rename = RENAMED)]\npub struct A { #[serde(rename = 5)] pub a: u8 }\n"),
        edge("lifetimes-and-const-generics", "#[typeshare]\npub struct A<'a, T, const N: usize> { pub a: &'a str, pub b: T, pub c: [u8; N] }\n#[typeshare]\n#[serde(tag = \"t\", content = \"c\")]\npub enum E<'a, 'b: 'a, T> { V(&'a str), W { x: &'b T } }\n#[typeshare]\npub type L<'a> = &'a str;\n"),
        edge("where-clauses-and-bounds", "#[typeshare]\npub struct A<T: Clone + Send, U = String> where U: Default { pub a: T, pub b: U }\n"),
        // names that collapse to one foreign identifier after a backend's normalisation (de-duplication loops)
        edge("colliding-variant-wire-names", "#[typeshare]\n#[serde(tag = \"t\", content = \"c\")]\npub enum E { #[serde(rename = \"a-b\")] A(u8), #[serde(rename = \"a_b\")] B(u8), #[serde(rename = \"a.b\")] C(u8), #[serde(rename = \"a b\")] D { x: u8 }, #[serde(rename = \"A_B\")] F, #[serde(rename = \"a/b\")] G(String) }\n#[typeshare]\n#[serde(tag = \"t\", content = \"c\")]\npub enum Two { #[serde(rename = \"x-y\")] A(u8), #[serde(rename = \"x_y\")] B(u8) }\n"),
        edge("case-colliding-variants", "#[typeshare]\n#[serde(tag = \"t\", content = \"c\")]\npub enum E { Id(u8), ID(u8), iD(u8), id(u8), I_D { x: u8 } }\n#[typeshare]\npub enum U { Id, ID, iD, id, I_D }\n"),
        edge("colliding-unit-variant-wire-names", "#[typeshare]\npub enum U { #[serde(rename = \"a-b\")] A, #[serde(rename = \"a_b\")] B, #[serde(rename = \"a.b\")] C, #[serde(rename = \"a b\")] D, #[serde(rename = \"A_B\")] F }\n"),
        edge("colliding-field-wire-names", "#[typeshare]\npub struct S { #[serde(rename = \"a-b\")] pub p: u8, #[serde(rename = \"a_b\")] pub q: u8, #[serde(rename = \"a.b\")] pub r: u8, #[serde(rename = \"a b\")] pub s: Option<u8>, #[serde(rename = \"A_B\")] pub t: u8, pub a_b: u8, pub aB: u8 }\n#[typeshare]\n#[serde(tag = \"t\", content = \"c\")]\npub enum E { V { #[serde(rename = \"k-1\")] a: u8, #[serde(rename = \"k_1\")] b: u8, #[serde(rename = \"k.1\")] c: u8 } }\n"),
        edge("colliding-type-names-after-normalisation", "#[typeshare]\npub struct AccountId { pub a: u8 }\n#[typeshare]\npub struct AccountID { pub b: u8 }\n#[typeshare]\n#[serde(rename = \"Account_Id\")]\npub struct AccountId3 { pub c: u8 }\n#[typeshare]\npub struct Holder { pub x: AccountId, pub y: AccountID, pub z: AccountId3 }\n#[typeshare]\n#[serde(tag = \"t\", content = \"c\")]\npub enum E { Holder { x: u8 }, EHolder(u8), E_Holder { y: u8 } }\n#[typeshare]\npub struct EHolderInner { pub w: u8 }\n"),
        edge("colliding-generic-parameters-and-consts", "#[typeshare]\npub struct G<T, t, T_> { pub a: T, pub b: t, pub c: T_ }\n#[typeshare]\npub const MY_CONST: u32 = 1;\n#[typeshare]\npub const my_const: u32 = 2;\n#[typeshare]\npub const MyConst: u32 = 3;\n"),
        // multi-line doc text whose continuation lines begin with white space that is not ASCII (what CJK editors and
        // copy-paste from web pages leave behind): character counts and byte offsets part ways
        edge("block-doc-non-ascii-indentation", "#[typeshare]\n/** first\n\u{3000}second\n\u{a0}* third\n\u{2003}\u{2003}fourth\n\u{3000}*/\npub struct A {\n    /** f\n\u{3000}\u{3000}g */\n    pub a: u8,\n    #[doc = \"x\\n\u{3000}y\\n\u{a0}\"]\n    pub b: u8,\n}\n#[typeshare]\n#[doc = \"e\\n\u{2028}\u{3000}* f\"]\n#[serde(tag = \"t\", content = \"c\")]\npub enum E {\n    /** v\n\u{a0}w */\n    V,\n    W {\n        /** p\n\u{3000}q\u{3000}\n\u{3000}*/\n        x: u8,\n    },\n}\n#[typeshare]\n/** alias\n\u{feff}\u{3000}text */\npub type Al = Vec<u8>;\n#[typeshare]\n/** const\n\u{3000}text */\npub const K: u32 = 1;\n"),
        edge("block-doc-ascii-decoration", "#[typeshare]\n/**\n * first\n *\tsecond\n \t * third\n **/\npub struct A {\n    /** f\n\n\n      g */\n    pub a: u8,\n}\n"),
        edge("macro-rules-with-attr", "macro_rules! m { () => { #[typeshare] pub struct InMacro { pub a: u8 } } }\nm!();\n#[typeshare]\npub struct A { pub a: u8 }\n"),
    ];
    // bare `use` of a crate name and odd use trees (multi-file import collection)
    let mut e = edge("use-bare-crate", "use some_crate;\nuse another as alias;\nuse ::leading::Thing;\nuse {a::B, c::*};\n#[typeshare]\npub struct A { pub a: u8, pub b: some_crate::Thing }\n");
    e.extra.push(SrcFile { path: "other/src/lib.rs".into(), source: "#[typeshare]\npub struct Thing { pub x: u8 }\n".into() });
    v.push(e);
    let mut e = edge("use-renamed-and-glob-forms", "use other::Thing as Renamed;\nuse other::{Thing as Again, self as o};\nuse *;\nuse ::*;\nuse crate::*;\nuse super::super::*;\n#[typeshare]\npub struct A { pub a: Renamed, pub b: Again, pub c: o::Thing }\n");
    e.extra.push(SrcFile { path: "other/src/lib.rs".into(), source: "#[typeshare]\npub struct Thing { pub x: u8 }\n".into() });
    v.push(e);
    let mut e = edge("use-self-super-crate-only", "use self;\nuse super::*;\nuse crate::{self, Thing};\n#[typeshare]\npub struct A { pub a: Thing }\n");
    e.extra.push(SrcFile { path: "other/src/lib.rs".into(), source: "#[typeshare]\npub struct Thing { pub x: u8 }\n".into() });
    v.push(e);
    let mut e = edge("empty-package", "#[typeshare]\npub struct A { pub a: u8 }\n#[typeshare]\npub type B = Vec<u8>;\n");
    e.package = Some("");
    v.push(e);
    let mut e = edge("package-single-segment", "#[typeshare]\npub struct A { pub a: u8 }\n#[typeshare]\npub type B = Vec<u8>;\n");
    e.package = Some("pkg");
    v.push(e);
    let mut e = edge("package-odd", "#[typeshare]\npub struct A { pub a: u8 }\n");
    e.package = Some(".");
    v.push(e);
    v
}

/// (class, source) of every single-file edge case, for the Miri slice
pub fn corpus_sources() -> Vec<(String, String)> {
    corpus().into_iter().filter(|e| e.class != "many-fields" && e.class != "deep-type" && !e.class.starts_with("layered-reference-graph")).map(|e| (e.class.to_string(), e.source)).collect()
}

struct Verdict {
    sigs: Vec<(String, String)>,
}

fn judge_bin(ctx: &Ctx, o: &crate::sut::BinOutcome, out_exists: bool, offending: &[String], class: &str, mode: &str, lname: &str) -> Verdict {
    let mut sigs = vec![];
    let mut panics = parse_stderr_panic(&o.stderr);
    // `ignore` re-raises a worker's panic when it joins its threads: a consequence, not a second defect
    if panics.iter().any(|(loc, _)| !loc.contains("/registry/")) {
        panics.retain(|(loc, _)| !loc.contains("/registry/"));
    }
    for (loc, msg) in &panics {
        sigs.push((panic_sig(ctx, loc, msg), format!("panicked at {loc}: {msg}")));
    }
    match &o.exit {
        Exit::Timeout(diag) => {
            if diag.starts_with("deadlock") {
                sigs.push((format!("C07|bin|deadlock|{}", if panics.is_empty() { "without-panic" } else { "after-worker-panic" }), format!("process hangs: {diag}")));
            } else if diag.starts_with("busy") {
                sigs.push(("C07|bin|cpu-bound-exceeded".into(), format!("still burning CPU at the limit: {diag}")));
            } else {
                // inconclusive, handled by caller
                sigs.push(("INCONCLUSIVE|watchdog".into(), diag.clone()));
            }
        }
        Exit::Signal(s) => sigs.push((format!("C07|bin|killed-by-signal|{s}"), format!("died by signal {s}"))),
        Exit::Code(0) => {
            if !out_exists {
                sigs.push((format!("C07|bin|exit0-without-output|{mode}"), "exit status 0 but the requested output does not exist".into()));
            }
        }
        Exit::Code(c) => {
            if panics.is_empty() {
                if o.stderr.trim().is_empty() && o.stdout.trim().is_empty() {
                    sigs.push(("C07|bin|failure-without-diagnostic".into(), format!("exit {c} with empty stderr")));
                } else {
                    // the diagnostic is what the tool says about the failure: the INFO line echoing the command-line
                    // directories does not count as naming the offending path
                    let diag: String = o.stderr.lines().chain(o.stdout.lines()).filter(|l| !l.contains("] INFO [") && !l.contains("] DEBUG [")).collect::<Vec<_>>().join("\n");
                    if !offending.is_empty() && !offending.iter().any(|f| diag.contains(f.as_str())) {
                        // which kind of failure forgot the file name
                        let kind = if diag.contains("Failed traversing") {
                            "traversal"
                        } else if diag.contains("Parsing failed") || diag.contains("Parsing error") {
                            "parse"
                        } else if diag.contains("Post generation") {
                            "post-generation"
                        } else if diag.contains("Could not get parsed data") {
                            "nothing-to-generate"
                        } else if diag.contains("failed to write") || diag.contains("output directory") {
                            "write"
                        } else if diag.contains("onfig") {
                            "configuration"
                        } else if diag.contains("failed to generate types") {
                            "generation-error"
                        } else {
                            "other"
                        };
                        sigs.push((format!("C07|bin|diagnostic-without-file-name|{kind}"), format!("exit {c}; the diagnostic names none of {offending:?}: {}", diag.lines().last().unwrap_or(""))));
                    }
                }
            }
        }
    }
    let _ = (class, lname);
    Verdict { sigs }
}

pub fn run(ctx: &Ctx) -> (Spec, Report) {
    let quick = ctx.tier == Tier::Quick;
    let seed = ctx.seed;
    let corp = corpus();
    // ---- (a) edge corpus through library driver (all) and binary (all) -------------------------------
    // (edge, language, folder mode, Go with an `uppercase_acronyms` table)
    let mut units: Vec<(usize, LangId, bool, bool)> = vec![];
    for (i, e) in corp.iter().enumerate() {
        for l in ALL_LANGS {
            if let Some(only) = &e.only {
                if !only.contains(&l) {
                    continue;
                }
            }
            for multi in [false, true] {
                units.push((i, l, multi, false));
                if l == LangId::Go {
                    units.push((i, l, multi, true));
                }
            }
        }
    }
    let corp_ref = &corp;
    let units_ref = &units;
    let cli = ctx.cli.clone();
    let scratch = ctx.scratch("edge");
    let mut rep = par_shards(ctx.threads, units.len(), |u| {
        let (i, lang, multi, acronyms) = units_ref[u];
        let e = &corp_ref[i];
        let mut rep = Report::new();
        let lname = lang.name();
        let mode = if multi { "multi-file" } else { "single-file" };
        let mut cfg = LangCfg::basic(lang);
        if let Some(p) = e.package {
            cfg.package = p.to_string();
        }
        if acronyms {
            // rewrites every identifier in place: slices them at the positions where an acronym was found
            cfg.uppercase_acronyms = vec!["ID".into(), "URL".into(), "Api".into(), "É".into()];
        }
        let mut files = vec![SrcFile { path: "edgecrate/src/lib.rs".into(), source: e.source.clone() }];
        files.extend(e.extra.iter().cloned());
        // library driver
        // edges about cfg-guarded members run with a target list that rejects them
        let target_os: Vec<String> = if e.class.contains("behind-cfg") { vec!["android".to_string()] } else { vec![] };
        let lo = run_lib(&files, lang, &cfg, multi, &target_os);
        rep.eval(1);
        rep.count("library_runs", 1);
        rep.cell(format!("edge|{}|{lname}|{mode}|{}", e.class, lo.kind()));
        let detail = |extra: serde_json::Value| json!({"class": e.class, "language": lname, "mode": mode, "config": cfg.to_json(), "files": files.iter().map(|f| json!({"path": f.path, "source": f.source.chars().take(600).collect::<String>()})).collect::<Vec<_>>(), "extra": extra});
        if let LibOutcome::Panic { stage, loc, msg } = &lo {
            rep.violate(panic_sig(ctx, loc, msg), format!("library {stage} panics on `{}` ({lname}, {mode}): {msg}", e.class), detail(json!({"loc": loc, "msg": msg})));
        }
        // the real binary (Go with an empty package is refused by the CLI itself before generation)
        let root = scratch.join(format!("u{u}"));
        let mut tf = files.clone();
        for f in tf.iter_mut() {
            f.path = format!("src_root/{}", f.path);
        }
        write_tree(&root, &tf);
        let out = if multi { root.join("out") } else { root.join(format!("out.{}", lang.ext())) };
        let mut args = cli_args(lang, &cfg, multi, &out, &["src_root"]);
        if !target_os.is_empty() {
            args.insert(0, format!("--target-os={}", target_os.join(",")));
        }
        let o = run_bin(BinRun { cli: &cli, args: args.clone(), env: vec![], cwd: &root, strace: None, wall_limit: Duration::from_secs(20) });
        rep.eval(1);
        rep.count("cli_runs", 1);
        let exit_kind = match &o.exit {
            Exit::Code(0) => "exit0".to_string(),
            Exit::Code(_) => "exit-nonzero".to_string(),
            Exit::Signal(_) => "signal".into(),
            Exit::Timeout(_) => "watchdog".into(),
        };
        rep.cell(format!("edge-cli|{}|{lname}|{mode}|{exit_kind}", e.class));
        let out_exists = if multi { out.is_dir() || matches!(lo, LibOutcome::Ok(ref m) if m.is_empty()) } else { out.is_file() };
        let offending: Vec<String> = files.iter().map(|f| f.path.clone()).collect();
        let v = judge_bin(ctx, &o, out_exists, &offending, e.class, mode, lname);
        for (sig, what) in v.sigs {
            // "Could not get parsed data": no scanned file yielded an item and none reported an error (the library
            // driver agrees) - there is no offending file a diagnostic could name
            if sig.ends_with("|nothing-to-generate") && matches!(&lo, LibOutcome::GenError(m) if m.contains("Could not get parsed data")) {
                rep.count("nothing_to_generate_runs_without_offending_file", 1);
                continue;
            }
            if sig.starts_with("INCONCLUSIVE") {
                rep.inconclusive("watchdog-without-diagnosis", json!({"class": e.class, "diag": what}));
            } else {
                rep.violate(sig, format!("`{}` ({lname}, {mode}): {what}", e.class), detail(json!({"args": args, "stderr": o.stderr.chars().take(1200).collect::<String>(), "cpu_ms": o.cpu_ms, "wall_ms": o.wall_ms})));
            }
        }
        if o.cpu_ms > 60_000 {
            rep.violate("C07|bin|cpu-bound-exceeded", format!("{} CPU ms on a tiny tree", o.cpu_ms), detail(json!(null)));
        }
        // pipeline equivalence: binary and library agree on success / failure
        let lib_ok = matches!(lo, LibOutcome::Ok(_));
        if matches!(o.exit, Exit::Code(_)) && lib_ok != o.ok() && !(lang == LangId::Go && cfg.package.is_empty()) {
            rep.inconclusive("library-and-binary-disagree-on-outcome", json!({"class": e.class, "language": lname, "mode": mode, "library": lo.describe(), "binary_exit": format!("{:?}", o.exit), "stderr": o.stderr.chars().take(300).collect::<String>()}));
        }
        if u % 97 == 0 {
            rep.sample(json!({"class": e.class, "language": lname, "mode": mode, "source": e.source.chars().take(300).collect::<String>(), "library": lo.describe(), "binary_exit": format!("{:?}", o.exit)}));
        }
        let _ = std::fs::remove_dir_all(&root);
        rep
    });
    rep.count("edge_classes", corp.len() as u64);

    // ---- (c) file-system / invocation faults, one per tree: the diagnostic has to name exactly that path -------
    {
        let root = scratch.join("fsfaults");
        let good = "#[typeshare]\npub struct Good { pub a: u8 }\n";
        // (name, setup, offending path fragment, extra args before the rest, input dirs)
        struct Fault {
            name: &'static str,
            offending: Vec<String>,
            follow: bool,
            dirs: Vec<&'static str>,
            out_is_wrong_kind: bool,
            config: Option<&'static str>,
        }
        let faults: Vec<Fault> = vec![
            Fault { name: "invalid-utf8-file", offending: vec!["invalid_utf8.rs".into()], follow: false, dirs: vec!["t_utf8"], out_is_wrong_kind: false, config: None },
            Fault { name: "unparsable-file", offending: vec!["unparsable.rs".into()], follow: false, dirs: vec!["t_unparsable"], out_is_wrong_kind: false, config: None },
            Fault { name: "dangling-symlink-followed", offending: vec!["dangling.rs".into()], follow: true, dirs: vec!["t_dangling"], out_is_wrong_kind: false, config: None },
            Fault { name: "symlink-loop-followed", offending: vec!["loop_a.rs".into(), "loop_b.rs".into()], follow: true, dirs: vec!["t_loop"], out_is_wrong_kind: false, config: None },
            Fault { name: "missing-input-directory", offending: vec!["no_such_dir".into()], follow: false, dirs: vec!["no_such_dir"], out_is_wrong_kind: false, config: None },
            Fault { name: "missing-directory-next-to-valid", offending: vec!["no_such_dir".into()], follow: false, dirs: vec!["t_good", "no_such_dir"], out_is_wrong_kind: false, config: None },
            Fault { name: "output-location-of-wrong-kind", offending: vec!["wrong_kind_out".into()], follow: false, dirs: vec!["t_good"], out_is_wrong_kind: true, config: None },
            // the property's quantifier is over source files and paths: a broken configuration file only has to end the run
            // with a diagnostic (it does: "Unable to read configuration file" + the TOML error), not to be named
            Fault { name: "config-file-syntax-error", offending: vec![], follow: false, dirs: vec!["t_good"], out_is_wrong_kind: false, config: Some("broken_config.toml") },
            Fault { name: "config-file-missing", offending: vec![], follow: false, dirs: vec!["t_good"], out_is_wrong_kind: false, config: Some("absent_config.toml") },
        ];
        for d in ["t_utf8", "t_unparsable", "t_dangling", "t_loop", "t_good"] {
            let _ = std::fs::create_dir_all(root.join(d).join("c/src"));
            std::fs::write(root.join(d).join("c/src/good.rs"), good).unwrap();
        }
        std::fs::write(root.join("t_utf8/c/src/invalid_utf8.rs"), b"#[typeshare]\npub struct Bad { pub a: u8 } // \xff\xfe\n").unwrap();
        std::fs::write(root.join("t_unparsable/c/src/unparsable.rs"), "#[typeshare]\npub struct {{{{\n").unwrap();
        let _ = std::os::unix::fs::symlink("/nonexistent/target.rs", root.join("t_dangling/c/src/dangling.rs"));
        let _ = std::os::unix::fs::symlink("loop_b.rs", root.join("t_loop/c/src/loop_a.rs"));
        let _ = std::os::unix::fs::symlink("loop_a.rs", root.join("t_loop/c/src/loop_b.rs"));
        let _ = std::fs::create_dir_all(root.join("t_good/c/src/dir_named.rs"));
        std::fs::write(root.join("t_good/c/src/dir_named.rs/inner.rs"), "#[typeshare]\npub struct Inner { pub a: u8 }\n").unwrap();
        let _ = std::os::unix::fs::symlink("..", root.join("t_good/c/src/up"));
        std::fs::write(root.join("t_good/c/src/empty.rs"), "").unwrap();
        std::fs::write(root.join("broken_config.toml"), "[swift\nprefix = \n").unwrap();
        let mut k = 0;
        for f in &faults {
            for (lang, multi) in [(LangId::Ts, false), (LangId::Kotlin, true), (LangId::Swift, true), (LangId::Go, false), (LangId::Python, false)] {
                k += 1;
                let cfg = LangCfg::basic(lang);
                let out = if f.out_is_wrong_kind {
                    // a directory where a file is requested, a file where a folder is requested
                    let p = root.join(format!("wrong_kind_out{k}"));
                    if multi {
                        std::fs::write(&p, "occupied").unwrap();
                    } else {
                        std::fs::create_dir_all(&p).unwrap();
                    }
                    p
                } else if multi {
                    root.join(format!("out{k}"))
                } else {
                    root.join(format!("out{k}.{}", lang.ext()))
                };
                let mut args = cli_args(lang, &cfg, multi, &out, &f.dirs);
                if f.follow {
                    args.insert(0, "--follow-links".into());
                }
                if let Some(c) = f.config {
                    args.insert(0, c.to_string());
                    args.insert(0, "--config-file".into());
                }
                let o = run_bin(BinRun { cli: &cli, args: args.clone(), env: vec![], cwd: &root, strace: None, wall_limit: Duration::from_secs(30) });
                rep.eval(1);
                rep.count("cli_runs", 1);
                rep.count("fault_runs", 1);
                let mode = if multi { "multi-file" } else { "single-file" };
                rep.cell(format!("fs-fault|{}|{}|{mode}|{}", f.name, lang.name(), match &o.exit { Exit::Code(0) => "exit0".to_string(), Exit::Code(_) => "exit-nonzero".into(), Exit::Signal(_) => "signal".into(), Exit::Timeout(_) => "watchdog".into() }));
                let v = judge_bin(ctx, &o, true, &f.offending, f.name, mode, lang.name());
                for (sig, what) in v.sigs {
                    if sig.starts_with("INCONCLUSIVE") {
                        rep.inconclusive("watchdog-without-diagnosis", json!({"class": f.name, "diag": what}));
                    } else {
                        rep.violate(format!("{sig}|{}", f.name), format!("{} ({}, {mode}): {what}", f.name, lang.name()), json!({"fault": f.name, "args": args, "stderr": o.stderr.chars().take(1500).collect::<String>()}));
                    }
                }
                if matches!(o.exit, Exit::Code(0)) && !matches!(f.name, "dangling-symlink-followed" | "symlink-loop-followed") {
                    // success although the named input / output / configuration could not be used: nothing told the user
                    rep.violate(format!("C07|bin|fault-ignored-silently|{}", f.name), format!("exit 0 although {:?} could not be used", f.offending), json!({"fault": f.name, "args": args, "stderr": o.stderr.chars().take(800).collect::<String>()}));
                }
            }
        }
        let _ = std::fs::remove_dir_all(&root);
    }

    // ---- (c2) a valid crate reached through every spelling of its path: from inside the crate (`src`, `./src`, `.`),
    //      from inside `src`, from the workspace root, through `..`, with a trailing slash, absolute, and a crate whose
    //      own name is `src`. The crate name is derived from the path as given, before the file is read
    {
        let root = scratch.join("pathshapes");
        for d in ["ws/mycrate/src/sub", "ws/src/src"] {
            let _ = std::fs::create_dir_all(root.join(d));
        }
        std::fs::write(root.join("ws/mycrate/src/lib.rs"), "#[typeshare]\npub struct Good { pub a: u8 }\n").unwrap();
        std::fs::write(root.join("ws/mycrate/src/sub/m.rs"), "#[typeshare]\npub enum Kind { A, B }\n").unwrap();
        std::fs::write(root.join("ws/src/src/lib.rs"), "#[typeshare]\npub struct InSrc { pub a: u8 }\n").unwrap();
        let abs = root.join("ws/mycrate").to_string_lossy().into_owned();
        let abs_src = root.join("ws/mycrate/src").to_string_lossy().into_owned();
        // (cwd below the scratch root, input directory as typed)
        let shapes: Vec<(&str, String)> = vec![
            ("ws/mycrate", "src".into()),
            ("ws/mycrate", "./src".into()),
            ("ws/mycrate", "src/".into()),
            ("ws/mycrate", ".".into()),
            ("ws/mycrate", "src/sub".into()),
            ("ws/mycrate/src", ".".into()),
            ("ws/mycrate/src", "sub".into()),
            ("ws/mycrate/src", "..".into()),
            ("ws/mycrate/src/sub", "../..".into()),
            ("ws", "mycrate".into()),
            ("ws", "mycrate/".into()),
            ("ws", "mycrate/src/".into()),
            ("ws", "./mycrate/../mycrate".into()),
            ("ws", "src".into()),
            ("ws", "src/src".into()),
            ("ws/src", "src".into()),
            ("ws/src/src", ".".into()),
            ("ws", abs.clone()),
            ("ws", abs_src.clone()),
            ("ws", ".".into()),
        ];
        let mut k = 0;
        for (cwd, dir) in &shapes {
            for (lang, multi) in [(LangId::Ts, false), (LangId::Kotlin, true), (LangId::Swift, true), (LangId::Python, true), (LangId::Go, false)] {
                k += 1;
                let cfg = LangCfg::basic(lang);
                let out = if multi { root.join(format!("out{k}")) } else { root.join(format!("out{k}.{}", lang.ext())) };
                let args = cli_args(lang, &cfg, multi, &out, &[dir.as_str()]);
                let o = run_bin(BinRun { cli: &cli, args: args.clone(), env: vec![], cwd: &root.join(cwd), strace: None, wall_limit: Duration::from_secs(30) });
                rep.eval(1);
                rep.count("cli_runs", 1);
                rep.count("path_shape_runs", 1);
                let mode = if multi { "multi-file" } else { "single-file" };
                let shape = if dir.starts_with('/') { "absolute".to_string() } else { format!("{}:{dir}", cwd.trim_start_matches("ws").trim_start_matches('/')) };
                rep.cell(format!("path-shape|{shape}|{}|{mode}|{}", lang.name(), match &o.exit { Exit::Code(0) => "exit0".to_string(), Exit::Code(_) => "exit-nonzero".into(), Exit::Signal(_) => "signal".into(), Exit::Timeout(_) => "watchdog".into() }));
                let v = judge_bin(ctx, &o, out.exists(), &[], "path-shape", mode, lang.name());
                for (sig, what) in v.sigs {
                    if sig.starts_with("INCONCLUSIVE") {
                        rep.inconclusive("watchdog-without-diagnosis", json!({"class": "path-shape", "diag": what}));
                    } else {
                        rep.violate(format!("{sig}|path-shape"), format!("input directory `{dir}` from `{cwd}` ({}, {mode}): {what}", lang.name()), json!({"cwd": cwd, "args": args, "stderr": o.stderr.chars().take(1500).collect::<String>()}));
                    }
                }
            }
        }
        let _ = std::fs::remove_dir_all(&root);
    }

    // ---- (d) one fatal file among many valid ones: the walker threads race with the collector's early return ----
    {
        let root = scratch.join("fatal-among-many");
        let n_trees = ctx.tier.pick(3, 8);
        let mut rng = Rng::derive(ctx.seed, "C07-fatal-among-many", 0);
        for t in 0..n_trees {
            let tr = root.join(format!("t{t}"));
            let n_files = [40usize, 150, 400][t % 3];
            let mut files = vec![];
            for i in 0..n_files {
                files.push(SrcFile { path: format!("src_root/k{}/src/d{}/f{i}.rs", i % 3, i % 7), source: format!("#[typeshare]\npub struct S{t}x{i} {{ pub a: u32, pub b: Vec<String> }}\n#[typeshare]\n#[serde(tag = \"t\", content = \"c\")]\npub enum E{t}x{i} {{ A, B(u32), C {{ x: bool }} }}\n") });
            }
            let (bad_name, bad_src): (&str, &[u8]) = match t % 3 {
                0 => ("a_unparsable.rs", b"#[typeshare]\npub struct {{{{\n"),
                1 => ("m_invalid_utf8.rs", b"#[typeshare]\npub struct Bad { pub a: u8 } // \xff\xfe\n"),
                _ => ("z_unparsable.rs", b"#[typeshare]\npub enum E { A(, }\n"),
            };
            write_tree(&tr, &files);
            std::fs::write(tr.join(format!("src_root/k1/src/{bad_name}")), bad_src).unwrap();
            let runs = ctx.tier.pick(24, 120);
            let jobs: Vec<(usize, u64)> = (0..runs).map(|_| (*rng.pick(&[2usize, 3, 4, 8, 16]), rng.below(1000) as u64)).collect();
            let cli_ref = &cli;
            let tr_ref = &tr;
            let results = par_shards(ctx.threads.min(4), jobs.len(), |j| {
                let (th, dseed) = jobs[j];
                let mut rep = Report::new();
                let lang = [LangId::Ts, LangId::Kotlin, LangId::Swift, LangId::Python][j % 4];
                let multi = j % 2 == 1 && lang != LangId::Python;
                let cfg = LangCfg::basic(lang);
                let out = if multi { tr_ref.join(format!("out{j}")) } else { tr_ref.join(format!("out{j}.{}", lang.ext())) };
                let args = cli_args(lang, &cfg, multi, &out, &["src_root"]);
                let mut env = vec![("TYPESHARE_VERIF_THREADS".to_string(), th.to_string())];
                if j % 3 != 0 {
                    env.push(("TYPESHARE_VERIF_DELAYS".to_string(), format!("{dseed}:300")));
                }
                let o = run_bin(BinRun { cli: cli_ref, args: args.clone(), env, cwd: tr_ref, strace: None, wall_limit: Duration::from_secs(60) });
                rep.eval(1);
                rep.count("cli_runs", 1);
                rep.count("fatal_among_many_runs", 1);
                let mode = if multi { "multi-file" } else { "single-file" };
                rep.cell(format!("fatal-among-many|files={n_files}|threads={th}|{mode}"));
                let v = judge_bin(ctx, &o, true, &[bad_name.to_string()], "fatal-among-many", mode, lang.name());
                for (sig, what) in v.sigs {
                    if sig.starts_with("INCONCLUSIVE") {
                        rep.inconclusive("watchdog-without-diagnosis", json!({"class": "fatal-among-many", "diag": what}));
                    } else {
                        rep.violate(sig, format!("one fatal file ({bad_name}) among {n_files} valid ones, {th} walker threads ({}, {mode}): {what}", lang.name()), json!({"args": args, "threads": th, "files": n_files, "stderr": o.stderr.chars().take(1500).collect::<String>()}));
                    }
                }
                if matches!(o.exit, Exit::Code(0)) {
                    rep.violate("C07|bin|fault-ignored-silently|fatal-among-many".to_string(), format!("exit 0 although {bad_name} cannot be parsed"), json!({"args": args}));
                }
                let _ = std::fs::remove_dir_all(&out);
                let _ = std::fs::remove_file(&out);
                rep
            });
            rep.merge(results);
        }
        let _ = std::fs::remove_dir_all(&root);
    }

    // ---- (b) valid Rust at large: broad generator with hostile type forms, library driver ----------------
    let n_lib = ctx.tier.pick(6000, 150_000);
    let shards = 64;
    let r2 = par_shards(ctx.threads, shards, |s| {
        let mut rep = Report::new();
        let hostile = ["fn(u8) -> u8", "Box<dyn Send>", "!", "(u8)", "*const u8", "m!()", "[u8; N]", "Self", "<u8 as Into<u16>>::Output", "Vec", "Option", "HashMap<String>", "&'static mut [u8]", "[Vec<u8>; 0]", "Option<()>", "Vec<Vec<Vec<()>>>", "impl Sized", "_", "Weak<u8>", "std::rc::Rc<std::cell::RefCell<Self>>",
            // maps keyed by the item's own type parameter (the generator names parameters T and U)
            "HashMap<T, String>", "HashMap<U, Vec<T>>", "Vec<HashMap<T, T>>", "Option<HashMap<T, u8>>"];
        for k in 0..(n_lib / shards) {
            let mut rng = Rng::derive(seed, "C07-broad", (s * 1_000_000 + k) as u64);
            let lang = ALL_LANGS[rng.below(6)];
            let mut p = Profile::broad();
            p.consts = true;
            p.type_renames = true;
            p.datetime = true;
            let glang = if rng.chance(1, 3) { None } else { Some(lang) };
            let mut prog = gen_program(&mut rng, &p, glang);
            // plant a hostile type form in one program out of two
            let mut planted = "none";
            if rng.coin() {
                let h = *rng.pick(&hostile);
                planted = h;
                // into the first field of a struct or the first newtype / struct variant of an enum; forms that mention T go to
                // a generic item when there is one
                let wants_generic = h.contains('T');
                let start = prog.items.iter().position(|i| !wants_generic || !i.generics.is_empty()).unwrap_or(0);
                let n_items = prog.items.len().max(1);
                let in_enum = rng.coin();
                'plant: for k in 0..n_items {
                    let it = &mut prog.items[(start + k) % n_items];
                    match &mut it.kind {
                        crate::model::Kind::Struct(fs) if !in_enum || k + 1 == n_items => {
                            if let Some(f) = fs.first_mut() {
                                f.ty = crate::model::Ty::Raw(h.to_string());
                                break 'plant;
                            }
                        }
                        crate::model::Kind::Enum { variants, tag: Some(_), .. } if in_enum => {
                            for v in variants.iter_mut() {
                                match &mut v.kind {
                                    crate::model::VKind::Newtype(t) => {
                                        *t = crate::model::Ty::Raw(h.to_string());
                                        break 'plant;
                                    }
                                    crate::model::VKind::Struct(fs) => {
                                        if let Some(f) = fs.first_mut() {
                                            f.ty = crate::model::Ty::Raw(h.to_string());
                                            break 'plant;
                                        }
                                    }
                                    _ => {}
                                }
                            }
                        }
                        _ => {}
                    }
                }
            }
            let prelude = rng.coin();
            let src = prog.render(&mut rng, &RenderOpts { vary: true, prelude, strip_typeshare: false });
            let multi = rng.chance(1, 4);
            let mut cfg = LangCfg::basic(lang);
            if rng.chance(1, 6) {
                cfg.prefix = "Pre".into();
            }
            let files = vec![SrcFile { path: "gen_crate/src/lib.rs".into(), source: src.clone() }];
            let lo = run_lib(&files, lang, &cfg, multi, &[]);
            rep.eval(1);
            rep.count("library_runs", 1);
            rep.cell(format!("broad|{}|planted={}|{}", lang.name(), planted != "none", lo.kind()));
            if let LibOutcome::Panic { stage, loc, msg } = &lo {
                rep.violate(panic_sig(ctx, loc, msg), format!("library {stage} panics ({}, planted type `{planted}`): {msg}", lang.name()), json!({"language": lang.name(), "multi_file": multi, "config": cfg.to_json(), "planted": planted, "source": src, "loc": loc, "msg": msg}));
            }
        }
        rep
    });
    rep.merge(r2);

    // ---- snapshot corpus with seeded textual mutations ----------------------------------------------------
    let mut inputs: Vec<(String, String)> = vec![];
    if let Ok(rd) = std::fs::read_dir(ctx.repo.join("core/data/tests")) {
        let mut es: Vec<_> = rd.flatten().collect();
        es.sort_by_key(|e| e.file_name());
        for e in es {
            if let Ok(t) = std::fs::read_to_string(e.path().join("input.rs")) {
                inputs.push((e.file_name().to_string_lossy().into_owned(), t));
            }
        }
    }
    let n_mut = ctx.tier.pick(6, 60);
    let inputs_ref = &inputs;
    let r3 = par_shards(ctx.threads, inputs.len(), |i| {
        let mut rep = Report::new();
        let (name, text) = &inputs_ref[i];
        for m in 0..=n_mut {
            let mut rng = Rng::derive(seed, "C07-corpus", (i * 1000 + m) as u64);
            let mut src = text.clone();
            if m > 0 {
                // textual mutations: type substitution, attribute injection, item duplication
                let subs = [("String", "Vec"), ("u32", "()"), ("Vec<", "Option<Vec<"), ("Option<", "Option<Option<"), ("pub struct", "#[serde(rename_all = \"camelCase\")]\npub struct"), ("pub enum", "#[serde(rename_all = \"SCREAMING-KEBAB-CASE\")]\npub enum"), ("#[typeshare]", "#[typeshare(swift = \"Equatable\", kotlin = \"JvmInline\", redacted)]"), ("i32", "I54"), ("bool", "[bool; 3]"), ("u8", "&'static [u8]")];
                for _ in 0..rng.range(1, 3) {
                    let (a, b) = *rng.pick(&subs);
                    if let Some(pos) = src.match_indices(a).map(|x| x.0).nth(rng.below(4)) {
                        src.replace_range(pos..pos + a.len(), b);
                    }
                }
            }
            for lang in ALL_LANGS {
                let mut cfg = LangCfg::basic(lang);
                cfg.prefix = if m % 2 == 1 { "OP".into() } else { String::new() };
                let files = vec![SrcFile { path: "corpus/src/lib.rs".into(), source: src.clone() }];
                let lo = run_lib(&files, lang, &cfg, m % 3 == 2, &[]);
                rep.eval(1);
                rep.count("library_runs", 1);
                rep.cell(format!("corpus|{}|mutated={}|{}", lang.name(), m > 0, lo.kind()));
                if let LibOutcome::Panic { stage, loc, msg } = &lo {
                    rep.violate(panic_sig(ctx, loc, msg), format!("library {stage} panics on corpus input {name} (mutation {m}, {}): {msg}", lang.name()), json!({"language": lang.name(), "corpus_input": name, "mutation": m, "source": src, "loc": loc, "msg": msg}));
                }
            }
        }
        rep
    });
    rep.merge(r3);
    rep.count("corpus_inputs", inputs.len() as u64);
    let _ = std::fs::remove_dir_all(&scratch);
    if !quick {
        crate::checks::sanitize::miri_lib_slice(ctx, &mut rep);
    }
    let spec = Spec {
        level: "exploration",
        rule: format!(
            "{} hand-written edge classes of the input grammar x 6 languages (Go with and without an uppercase_acronyms table) x single/multi-file through the library pipeline (catch_unwind) and the real binary (exit status, stderr, output presence, CPU time, /proc thread-state diagnosis when the watchdog fires); a file-system fault tree (invalid UTF-8, dangling and cyclic symlinks, directory named *.rs) with and without --follow-links; one valid crate reached through 20 spellings of its path (from inside the crate: `src`, `./src`, `.`; from inside src; through `..`; trailing slash; absolute; a crate itself named src) x 5 language/mode cells; {} generated programs with hostile type forms and the mutated snapshot corpus through the library; distinct = (workload, class, language, mode, outcome kind)",
            corp.len(),
            n_lib
        ),
        assumptions: vec![
            "liveness is restated as bounded progress: 20 s wall watchdog + /proc diagnosis (dead-lock = all threads sleeping with no CPU progress), 60 CPU-seconds bound".into(),
            "unreadable paths are approximated by invalid UTF-8 and broken symlinks because the sandbox runs as root".into(),
            "release semantics (no overflow checks / debug assertions)".into(),
        ],
        exhaustive: None,
    };
    (spec, rep)
}
