//! C16 — rename_all agrees with serde_derive's case.rs (vendored verbatim), end to end through
//! parser::parse -> generated TypeScript -> TS parser.
use crate::gen::RULES;
use crate::ir::{DefKind, ParseStatus};
use crate::lang::parse_text;
use crate::oracle::serde_case::RenameRule;
use crate::report::{catch, par_shards, Ctx, Report, Spec};
use crate::rng::Rng;
use crate::sut::{single_file, LangCfg, LangId, LibOutcome};
use serde_json::json;

fn is_snake(s: &str) -> bool {
    let b: Vec<char> = s.chars().collect();
    if b.is_empty() || !b[0].is_ascii_lowercase() {
        return false;
    }
    let mut prev_us = false;
    for &c in &b {
        if c == '_' {
            if prev_us {
                return false;
            }
            prev_us = true;
        } else if c.is_ascii_lowercase() || c.is_ascii_digit() {
            prev_us = false;
        } else {
            return false;
        }
    }
    !prev_us
}

pub fn class_of(id: &str, variant: bool) -> &'static str {
    if !id.is_ascii() {
        // a non-ASCII letter with a lower-case mapping is its own class: serde maps case in ASCII only
        return if id.chars().any(|c| !c.is_ascii() && c.is_uppercase()) { "non-ascii-upper" } else { "non-ascii" };
    }
    let letters = id.chars().filter(|c| c.is_ascii_alphabetic()).count();
    if letters > 0 && id.to_ascii_uppercase() == id {
        return "all-upper";
    }
    if !variant {
        if is_snake(id) {
            "conventional"
        } else if id.chars().any(|c| c.is_ascii_uppercase()) {
            "upper-in-field"
        } else {
            "odd-underscore"
        }
    } else if id.contains('_') {
        "underscore-in-variant"
    } else if id.chars().next().map(|c| c.is_ascii_uppercase()).unwrap_or(false) {
        "conventional"
    } else {
        "lower-initial-variant"
    }
}

fn serde_expect(rule: &str, id: &str, variant: bool) -> Result<String, ()> {
    let r = match RenameRule::from_str(rule) {
        Ok(r) => r,
        Err(_) => return Ok(id.to_string()), // unknown rule: unchanged (serde itself refuses to compile)
    };
    catch(|| if variant { r.apply_to_variant(id) } else { r.apply_to_field(id) }).map_err(|_| ())
}

fn source_for(rule: &str, ids: &[String], variant: bool) -> String {
    // the rule is written the way rustfmt and people write serde lists: alone, with a trailing comma, over several lines,
    // merged with or beside other arguments
    let mut s = match (ids.len() + rule.len() + variant as usize) % 6 {
        1 => format!("#[typeshare]\n#[serde(rename_all = \"{rule}\",)]\n"),
        2 => format!("#[typeshare]\n#[serde(\n    rename_all = \"{rule}\",\n)]\n"),
        3 => format!("#[typeshare]\n#[serde(deny_unknown_fields, rename_all = \"{rule}\")]\n"),
        4 => format!("#[serde(deny_unknown_fields)]\n#[typeshare]\n#[serde(rename_all = \"{rule}\")]\n"),
        _ => format!("#[typeshare]\n#[serde(rename_all = \"{rule}\")]\n"),
    };
    if variant {
        s.push_str("pub enum Subject {\n");
        for id in ids {
            s.push_str(&format!("    {id},\n"));
        }
    } else {
        s.push_str("pub struct Subject {\n");
        for id in ids {
            s.push_str(&format!("    pub {id}: u8,\n"));
        }
    }
    s.push_str("}\n");
    s
}

/// names typeshare produced for `ids` (None where typeshare panicked / failed on that identifier).
/// Primary observation: the parsed item typeshare hands to every backend (public `ParsedData`);
/// cross-check: the same names read back from generated TypeScript when that text parses.
fn typeshare_names(rule: &str, ids: &[String], variant: bool, rep: &mut Report) -> Vec<Option<String>> {
    if ids.is_empty() {
        return vec![];
    }
    let src = source_for(rule, ids, variant);
    let files = single_file(&src);
    rep.count("typeshare_runs", 1);
    let parsed = crate::sut::parse_stage(&files, LangId::Ts, &LangCfg::default(), false, &[]);
    if let Ok(p) = parsed {
        let mut names: Vec<String> = vec![];
        if let Some(pd) = p.crates.values().next() {
            if variant {
                if let Some(e) = pd.enums.first() {
                    names = e.shared().variants.iter().map(|v| v.shared().id.renamed.clone()).collect();
                }
            } else if let Some(st) = pd.structs.first() {
                names = st.fields.iter().map(|f| f.id.renamed.clone()).collect();
            }
        }
        if names.len() == ids.len() {
            // cross-check through the TypeScript backend
            let out = crate::sut::generate_stage(p, LangId::Ts, &LangCfg::default(), false);
            if let LibOutcome::Ok(_) = &out {
                if let (ParseStatus::Parsed(f), _) = parse_text(LangId::Ts, out.single().unwrap_or("")) {
                    if let Some(d) = f.defs.iter().find(|d| d.name == "Subject") {
                        let back: Vec<String> = if variant && d.kind == DefKind::UnitEnum {
                            d.variants.iter().map(|v| v.wire_name.clone().unwrap_or_default()).collect()
                        } else {
                            d.fields.iter().map(|f| f.wire_key.clone()).collect()
                        };
                        if back.len() == names.len() {
                            rep.count("names_read_back_from_typescript", back.len() as u64);
                            for (a, b) in names.iter().zip(back.iter()) {
                                if a != b {
                                    rep.violate("C16|typescript-readback-differs", format!("TypeScript prints {b:?} for the name {a:?}"), json!({"rule": rule, "ir": a, "typescript": b}));
                                }
                            }
                        }
                    }
                }
            }
            return names.into_iter().map(Some).collect();
        }
    }
    if ids.len() == 1 {
        rep.count("typeshare_failed_on_identifier", 1);
        return vec![None];
    }
    let mid = ids.len() / 2;
    let mut a = typeshare_names(rule, &ids[..mid], variant, rep);
    a.extend(typeshare_names(rule, &ids[mid..], variant, rep));
    a
}

fn all_identifiers(max_len: usize) -> Vec<String> {
    let alpha = ['a', 'B', '7', '_', 'é', 'É'];
    let mut out = vec![];
    let mut cur: Vec<String> = vec![String::new()];
    for _ in 0..max_len {
        let mut next = vec![];
        for p in &cur {
            for c in alpha {
                if p.is_empty() && c == '7' {
                    continue;
                }
                let mut s = p.clone();
                s.push(c);
                next.push(s);
            }
        }
        out.extend(next.iter().filter(|s| *s != "_").cloned());
        cur = next;
    }
    out
}

fn dictionary(limit: usize) -> (Vec<String>, Vec<String>) {
    // real-world identifiers from the cargo registry sources on disk
    let mut fields = std::collections::BTreeSet::new();
    let mut variants = std::collections::BTreeSet::new();
    let home = std::env::var("CARGO_HOME").unwrap_or_else(|_| format!("{}/.cargo", std::env::var("HOME").unwrap_or("/root".into())));
    let mut stack = vec![std::path::PathBuf::from(home).join("registry/src")];
    let mut files = 0;
    while let Some(d) = stack.pop() {
        let Ok(rd) = std::fs::read_dir(&d) else { continue };
        let mut es: Vec<_> = rd.flatten().map(|e| e.path()).collect();
        es.sort();
        for p in es {
            if p.is_dir() {
                stack.push(p);
            } else if p.extension().map(|e| e == "rs").unwrap_or(false) && files < 4000 {
                files += 1;
                let Ok(t) = std::fs::read_to_string(&p) else { continue };
                for line in t.lines() {
                    let l = line.trim();
                    if let Some(rest) = l.strip_prefix("pub ") {
                        if let Some((name, _)) = rest.split_once(':') {
                            let name = name.trim();
                            if !name.is_empty() && name.chars().all(|c| c.is_ascii_alphanumeric() || c == '_') && name.chars().next().unwrap().is_ascii_lowercase() && fields.len() < limit {
                                fields.insert(name.to_string());
                            }
                        }
                    } else if l.ends_with(',') && l.len() > 2 {
                        let name = l.trim_end_matches(',');
                        if name.chars().all(|c| c.is_ascii_alphanumeric()) && name.chars().next().unwrap().is_ascii_uppercase() && variants.len() < limit {
                            variants.insert(name.to_string());
                        }
                    }
                }
            }
        }
        if fields.len() >= limit && variants.len() >= limit {
            break;
        }
    }
    const KW: [&str; 12] = ["fn", "in", "as", "if", "do", "mod", "ref", "use", "let", "mut", "for", "type"];
    let f: Vec<String> = fields.into_iter().filter(|s| !KW.contains(&s.as_str()) && !matches!(s.as_str(), "self" | "super" | "crate" | "loop" | "move" | "else" | "enum" | "impl" | "true" | "false" | "match" | "const" | "where" | "while" | "break" | "trait" | "struct" | "static" | "return" | "unsafe" | "extern" | "continue" | "async" | "await" | "dyn" | "pub" | "try" | "yield" | "box" | "priv" | "final" | "macro" | "typeof" | "unsized" | "virtual" | "abstract" | "become" | "override")).collect();
    let v: Vec<String> = variants.into_iter().filter(|s| s != "Self").collect();
    (f, v)
}

pub fn run(ctx: &Ctx) -> (Spec, Report) {
    let max_len = 7;
    let ids = all_identifiers(max_len);
    let mut rules: Vec<&str> = RULES.to_vec();
    rules.push("Unknown_Rule");
    let batch = 250usize;
    // work units: (rule, variant?, chunk)
    let chunks: Vec<&[String]> = ids.chunks(batch).collect();
    let mut units: Vec<(usize, bool, usize)> = vec![];
    for r in 0..rules.len() {
        for v in [false, true] {
            for c in 0..chunks.len() {
                units.push((r, v, c));
            }
        }
    }
    let rules_ref = &rules;
    let chunks_ref = &chunks;
    let units_ref = &units;
    let compare = |rule: &str, variant: bool, ids: &[String], rep: &mut Report, source: &str| {
        let got = typeshare_names(rule, ids, variant, rep);
        for (id, g) in ids.iter().zip(got.iter()) {
            let pos = if variant { "variant" } else { "field" };
            // an identifier written raw (`r#type`) is the identifier without the prefix, for serde and for the rule
            let id = &id.strip_prefix("r#").unwrap_or(id).to_string();
            let cls = class_of(id, variant);
            let want = serde_expect(rule, id, variant);
            rep.eval(1);
            match (want, g) {
                (Err(()), _) => {
                    // serde itself panics on this identifier: outside the domain
                    *rep.inconclusive.entry("serde-panics-on-identifier".into()).or_insert(0) += 1;
                }
                (Ok(w), None) => {
                    rep.violate(
                        format!("C16|{pos}|{rule}|{cls}|typeshare-fails"),
                        format!("{pos} {id:?} under {rule}: typeshare fails where serde yields {w:?}"),
                        json!({"identifier": id, "rule": rule, "position": pos, "serde": w, "class": cls, "source": source}),
                    );
                }
                (Ok(w), Some(g)) => {
                    if w != *id {
                        rep.cell(format!("{pos}|{rule}|{cls}|len{}", id.chars().count()));
                    }
                    if w != *g {
                        let strip = |x: &str| x.chars().filter(|c| *c != '_' && *c != '-').flat_map(|c| c.to_lowercase()).collect::<String>();
                        let kind = if w.to_lowercase() == g.to_lowercase() {
                            "case-differs"
                        } else if strip(&w) == strip(g) {
                            "separators-differ"
                        } else {
                            "letters-differ"
                        };
                        if source == "exhaustive" {
                            // order-independent digest of the (identifier, typeshare's name) pairs of this class over the
                            // exhaustive set: the class becomes a different signature as soon as its membership changes
                            let mut h: u64 = 0xcbf29ce484222325;
                            for b in id.bytes().chain(std::iter::once(0)).chain(g.bytes()) {
                                h = (h ^ b as u64).wrapping_mul(0x100000001b3);
                            }
                            let e = rep.monitors.entry(format!("set-digest:C16|{pos}|{rule}|{cls}|{kind}")).or_insert(0);
                            *e = e.wrapping_add(h);
                        }
                        rep.violate(
                            format!("C16|{pos}|{rule}|{cls}|{kind}"),
                            format!("{pos} {id:?} under {rule}: typeshare {g:?}, serde_derive {w:?}"),
                            json!({"identifier": id, "rule": rule, "position": pos, "typeshare": g, "serde": w, "class": cls, "source": source}),
                        );
                    }
                }
            }
        }
    };
    let mut rep = par_shards(ctx.threads, units.len(), |u| {
        let (r, v, c) = units_ref[u];
        let mut rep = Report::new();
        compare(rules_ref[r], v, chunks_ref[c], &mut rep, "exhaustive");
        if u == 0 {
            rep.sample(json!({"rule": rules_ref[r], "position": "field", "identifiers": chunks_ref[c].iter().take(12).collect::<Vec<_>>() }));
        }
        rep
    });
    rep.count("identifiers_exhaustive", ids.len() as u64);
    // the same rule applies to identifiers written raw: every keyword that can be a raw identifier, and ordinary ones
    {
        let mut raw: Vec<String> = ["fn", "in", "as", "if", "do", "mod", "ref", "use", "let", "mut", "for", "type", "loop", "move", "else", "enum", "impl", "match", "const", "where", "while", "break", "trait", "struct", "static", "return", "unsafe", "extern", "continue", "async", "await", "dyn", "pub", "try", "yield", "box", "final", "macro", "virtual", "abstract", "become", "override", "priv", "typeof", "unsized", "true", "false"]
            .iter()
            .map(|k| format!("r#{k}"))
            .collect();
        raw.extend(ids.iter().filter(|i| i.is_ascii() && i.chars().count() <= 3 && i.chars().any(|c| c != '_')).map(|i| format!("r#{i}")));
        rep.count("identifiers_written_raw", raw.len() as u64);
        let raw_ref = &raw;
        let r = par_shards(ctx.threads, rules.len() * 2, |u| {
            let mut rep = Report::new();
            compare(rules_ref[u / 2], u % 2 == 1, raw_ref, &mut rep, "raw-identifier");
            rep
        });
        rep.merge(r);
    }
    // dictionary + random longer identifiers (thorough; a small slice in quick)
    let (mut dict_f, mut dict_v) = dictionary(ctx.tier.pick(600, 6000));
    let mut rng = Rng::derive(ctx.seed, "C16-long", 0);
    let n_random = ctx.tier.pick(2000, 40000);
    let alpha: Vec<char> = "abcxyzABXYZ019__".chars().collect();
    for i in 0..n_random {
        let len = rng.range(8, 24);
        let mut s = String::new();
        for k in 0..len {
            let mut c = *rng.pick(&alpha);
            if k == 0 && (c.is_ascii_digit()) {
                c = 'q';
            }
            s.push(c);
        }
        if i % 2 == 0 {
            dict_f.push(s);
        } else {
            dict_v.push(s);
        }
    }
    dict_f.sort();
    dict_f.dedup();
    dict_v.sort();
    dict_v.dedup();
    rep.count("dictionary_and_random_field_identifiers", dict_f.len() as u64);
    rep.count("dictionary_and_random_variant_identifiers", dict_v.len() as u64);
    let fch: Vec<&[String]> = dict_f.chunks(batch).collect();
    let vch: Vec<&[String]> = dict_v.chunks(batch).collect();
    let mut units2: Vec<(usize, bool, usize)> = vec![];
    for r in 0..rules.len() {
        for c in 0..fch.len() {
            units2.push((r, false, c));
        }
        for c in 0..vch.len() {
            units2.push((r, true, c));
        }
    }
    let r2 = par_shards(ctx.threads, units2.len(), |u| {
        let (r, v, c) = units2[u];
        let mut rep = Report::new();
        compare(rules_ref[r], v, if v { vch[c] } else { fch[c] }, &mut rep, "dictionary/random");
        rep
    });
    rep.merge(r2);
    // a class of disagreement is identified together with the set of identifiers it holds on the exhaustive part
    {
        let digests: Vec<(String, u64)> = rep.monitors.iter().filter(|(k, _)| k.starts_with("set-digest:")).map(|(k, v)| (k["set-digest:".len()..].to_string(), *v)).collect();
        rep.monitors.retain(|k, _| !k.starts_with("set-digest:"));
        for (sig, d) in digests {
            let renamed = format!("{sig}|set={:08x}", (d ^ (d >> 32)) as u32);
            if let Some(c) = rep.viol_counts.remove(&sig) {
                rep.viol_counts.insert(renamed.clone(), c);
            }
            for v in rep.violations.iter_mut().filter(|v| v.sig == sig) {
                v.sig = renamed.clone();
            }
        }
        rep.count("disagreement_classes_identified_by_member_set", rep.viol_counts.keys().filter(|k| k.contains("|set=")).count() as u64);
    }
    let spec = Spec {
        level: "exploration",
        rule: format!(
            "every valid Rust identifier of length <= {max_len} over the class representatives {{a, B, 7, _, é, É}} ({} identifiers) x 8 rename_all rules + an unknown rule x {{field, variant}} position, exhaustively; plus every keyword and every identifier of length <= 3 written as a raw identifier (`r#type`), registry-harvested real-world identifiers and seeded random identifiers of length 8-24; typeshare's name is read back from generated TypeScript (parser::parse -> TypeScript backend -> TS parser), the oracle is serde_derive 1.0.214's case.rs; distinct = (position, rule, identifier class, length) with serde name != identifier",
            ids.len()
        ),
        assumptions: vec![
            "harness/src/oracle/serde_case.rs is a verbatim copy of serde_derive-1.0.214/src/internals/case.rs (cross-checked against the running derive by C01/C02)".into(),
            "identifiers on which serde_derive itself panics are outside the domain (counted as inconclusive)".into(),
        ],
        exhaustive: Some(true),
    };
    (spec, rep)
}
