//! C03 — exactly the annotated, non-skipped items, fields and variants are generated.
//! Oracle: the generator's item list; attribution by unique stems (no naming rule involved).
use crate::checks::broad::{run_rounds, usable, Case, Gen};
use crate::facts::{principal_def, variant_helper};
use crate::gen::{first_stem, gen_program, normalise, stems_in, Profile, Program};
use crate::ir::{DefKind, Payload};
use crate::model::*;
use crate::report::{Ctx, Report, Spec};
use crate::rng::Rng;
use crate::sut::{LangCfg, LangId, LibOutcome, SrcFile, ALL_LANGS};
use serde_json::json;

fn kept_fields(fs: &[Field]) -> Vec<String> {
    fs.iter().filter(|f| f.skip == Skip::No).filter_map(|f| first_stem(&f.ident)).collect()
}

fn field_stems(fs: &[crate::ir::Field]) -> Vec<String> {
    fs.iter().map(|f| stems_in(&f.wire_key).last().cloned().or_else(|| stems_in(&f.ident).last().cloned()).unwrap_or_else(|| format!("?{}", f.ident))).collect()
}

fn judge(case: &Case<Program>, rep: &mut Report) {
    let lname = case.lang.name();
    let Some(file) = usable(case, "C03", rep, true) else { return };
    let text = case.outcome.single().unwrap_or("");
    let norm = normalise(text);
    let srctext = &case.files[0].source;
    let layout = if srctext.contains("\r\n") {
        "crlf-tabs"
    } else if srctext.contains("/* shared */") {
        "behind-block-comment"
    } else if srctext.lines().any(|l| l.trim_start().starts_with("#[typeshare")) {
        "attribute-starts-line"
    } else {
        "attribute-never-starts-line"
    };
    rep.count(&format!("layout_{layout}"), 1);
    let mut expected_defs: Vec<(String, Option<String>)> = vec![]; // (item stem, variant stem for helpers)
    for it in &case.model.items {
        // the twins below share their Rust identifier and are told apart by their serde names
        let Some(st) = first_stem(it.rename.as_deref().unwrap_or(&it.ident)) else { continue };
        if it.rename.is_some() {
            rep.count("same_identifier_twins_checked", 1);
        }
        rep.eval(1);
        if !it.is_annotated() {
            // decoys: neither the item nor its fields may leave any trace
            let mut traces = vec![st.clone()];
            if let Kind::Struct(fs) = &it.kind {
                traces.extend(fs.iter().filter_map(|f| first_stem(&f.ident)));
            }
            for t in traces {
                rep.count("decoy_stems_searched", 1);
                if norm.contains(&t) {
                    rep.violate(format!("C03|{lname}|un-annotated-item-generated"), format!("un-annotated item {} leaves a trace ({t}) in the output", it.ident), case.detail(json!({"item": it.ident})));
                }
            }
            rep.cell(format!("{lname}|decoy|mods{}", it.mods.len()));
            continue;
        }
        let defs = principal_def(file, &st);
        let kind_name = match &it.kind {
            Kind::Struct(_) | Kind::UnitStruct => "struct",
            Kind::Newtype(_) => "newtype",
            Kind::Alias(_) => "alias",
            Kind::Const { .. } => "const",
            Kind::Enum { tag, .. } => {
                if tag.is_some() {
                    "tagged-enum"
                } else {
                    "unit-enum"
                }
            }
            Kind::TupleStruct(_) => "tuple-struct",
        };
        rep.cell(format!("{lname}|{kind_name}|mods{}|{:?}", it.mods.len(), it.annot));
        rep.count(&format!("items_checked_{lname}"), 1);
        if defs.len() != 1 {
            rep.violate(
                format!("C03|{lname}|{kind_name}|{}", if defs.is_empty() { "definition-missing" } else { "definition-duplicated" }),
                format!("annotated {kind_name} {} (module depth {}) has {} principal definitions", it.ident, it.mods.len(), defs.len()),
                case.detail(json!({"item": it.ident, "found": defs.iter().map(|d| d.name.clone()).collect::<Vec<_>>() })),
            );
            continue;
        }
        let def = defs[0];
        expected_defs.push((st.clone(), None));
        let want_kind = match &it.kind {
            Kind::Struct(_) | Kind::UnitStruct => DefKind::Struct,
            Kind::Newtype(_) | Kind::Alias(_) | Kind::TupleStruct(_) => DefKind::Alias,
            Kind::Const { .. } => DefKind::Const,
            Kind::Enum { tag, .. } => {
                if tag.is_some() {
                    DefKind::TaggedEnum
                } else {
                    DefKind::UnitEnum
                }
            }
        };
        // Go prints an alias of `()` as `type X struct{}`, which *is* an empty struct type in Go
        let go_unit_alias = case.lang == LangId::Go && def.kind == DefKind::Struct && def.fields.is_empty() && matches!(&it.kind, Kind::Alias(t) | Kind::Newtype(t) if *t.peel() == Ty::Unit);
        if def.kind != want_kind && !go_unit_alias {
            rep.violate(format!("C03|{lname}|{kind_name}|generated-as-{:?}", def.kind), format!("{} generated as {:?}", it.ident, def.kind), case.detail(json!({"item": it.ident})));
            continue;
        }
        match &it.kind {
            Kind::Struct(fs) => {
                let want = kept_fields(fs);
                let got = field_stems(&def.fields);
                rep.count("members_compared", want.len() as u64);
                if want != got {
                    rep.violate(
                        format!("C03|{lname}|struct|fields-{}", diff_kind(&want, &got)),
                        format!("{}: fields {:?} generated for source fields {:?}", it.ident, got, want),
                        case.detail(json!({"item": it.ident, "expected": want, "generated": got})),
                    );
                }
            }
            Kind::Enum { variants, .. } => {
                let want: Vec<String> = variants.iter().filter(|v| v.skip == Skip::No).filter_map(|v| first_stem(&v.ident)).collect();
                let got: Vec<String> = def
                    .variants
                    .iter()
                    .map(|v| stems_in(&v.ident).last().cloned().or_else(|| v.wire_name.as_ref().and_then(|w| stems_in(w).last().cloned())).unwrap_or_else(|| format!("?{}", v.ident)))
                    .collect();
                rep.count("members_compared", want.len() as u64);
                if want != got {
                    rep.violate(
                        format!("C03|{lname}|{kind_name}|variants-{}", diff_kind(&want, &got)),
                        format!("{}: variants {:?} generated for source variants {:?}", it.ident, got, want),
                        case.detail(json!({"item": it.ident, "expected": want, "generated": got})),
                    );
                    continue;
                }
                // struct-variant fields
                for (ord, v) in variants.iter().filter(|v| v.skip == Skip::No).enumerate() {
                    if let VKind::Struct(fs) = &v.kind {
                        let vst = first_stem(&v.ident).unwrap_or_default();
                        let wantf = kept_fields(fs);
                        let gotf: Option<Vec<String>> = if case.lang == LangId::Ts {
                            match def.variants.get(ord).map(|x| &x.payload) {
                                Some(Payload::Struct(ff)) => Some(field_stems(ff)),
                                _ => None,
                            }
                        } else {
                            let hs = variant_helper(file, &st, &vst);
                            expected_defs.push((st.clone(), Some(vst.clone())));
                            if hs.len() == 1 {
                                Some(field_stems(&hs[0].fields))
                            } else {
                                None
                            }
                        };
                        rep.count("members_compared", wantf.len() as u64);
                        rep.cell(format!("{lname}|struct-variant|skipped={}", fs.iter().any(|f| f.skip != Skip::No)));
                        match gotf {
                            None => rep.violate(format!("C03|{lname}|struct-variant|helper-missing-or-duplicated"), format!("{}::{}: no single definition carries the variant's fields", it.ident, v.ident), case.detail(json!({"variant": v.ident}))),
                            Some(g) if g != wantf => rep.violate(
                                format!("C03|{lname}|struct-variant|fields-{}", diff_kind(&wantf, &g)),
                                format!("{}::{}: fields {:?} generated for source fields {:?}", it.ident, v.ident, g, wantf),
                                case.detail(json!({"variant": v.ident, "expected": wantf, "generated": g})),
                            ),
                            _ => {}
                        }
                    }
                }
            }
            _ => {}
        }
    }
    // skipped members must leave no trace
    for it in case.model.items.iter().filter(|i| i.is_annotated()) {
        let mut skipped: Vec<String> = vec![];
        match &it.kind {
            Kind::Struct(fs) => skipped.extend(fs.iter().filter(|f| f.skip != Skip::No).filter_map(|f| first_stem(&f.ident))),
            Kind::Enum { variants, .. } => {
                for v in variants {
                    if v.skip != Skip::No {
                        skipped.extend(first_stem(&v.ident));
                        if let VKind::Struct(fs) = &v.kind {
                            skipped.extend(fs.iter().filter_map(|f| first_stem(&f.ident)));
                        }
                    } else if let VKind::Struct(fs) = &v.kind {
                        skipped.extend(fs.iter().filter(|f| f.skip != Skip::No).filter_map(|f| first_stem(&f.ident)));
                    }
                }
            }
            _ => {}
        }
        for s in skipped {
            rep.count("skipped_stems_searched", 1);
            if norm.contains(&s) {
                rep.violate(format!("C03|{lname}|skipped-member-generated"), format!("{}: a member marked skip leaves a trace ({s}) in the output", it.ident), case.detail(json!({"item": it.ident, "stem": s})));
            }
        }
    }
    // nothing invented
    for d in file.defs.iter().filter(|d| d.kind != DefKind::Helper) {
        let s = stems_in(&d.name);
        let ok = match s.len() {
            1 => expected_defs.iter().any(|(a, b)| *a == s[0] && b.is_none()),
            2 => expected_defs.iter().any(|(a, b)| *a == s[0] && b.as_deref() == Some(s[1].as_str())),
            _ => false,
        };
        if !ok {
            rep.violate(format!("C03|{lname}|invented-definition|{:?}", d.kind), format!("definition {} corresponds to no annotated source item", d.name), case.detail(json!({"definition": d.name})));
        }
    }
    if case.index < 2 {
        rep.sample(json!({"language": lname, "source": case.source(), "definitions": file.defs.iter().filter(|d| d.kind != DefKind::Helper).map(|d| d.name.clone()).collect::<Vec<_>>() }));
    }
}

fn diff_kind(want: &[String], got: &[String]) -> &'static str {
    let mut w = want.to_vec();
    let mut g = got.to_vec();
    w.sort();
    g.sort();
    if w == g {
        "reordered"
    } else if g.len() < w.len() && g.iter().all(|x| w.contains(x)) {
        "dropped"
    } else if g.len() > w.len() && w.iter().all(|x| g.contains(x)) {
        "extra"
    } else {
        "different"
    }
}

pub fn run(ctx: &Ctx) -> (Spec, Report) {
    let n = ctx.tier.pick(5000, 60_000);
    let mut rep = run_rounds(
        ctx,
        "C03",
        n,
        false,
        |rng: &mut Rng, _i| {
            let mut p = Profile::broad();
            p.mods = 4;
            p.type_renames = false;
            p.consts = true;
            p.items = (2, 8);
            // one language per program decides which optional features are generated (consts, generic enums)
            let lang = ALL_LANGS[rng.below(6)];
            let mut prog = gen_program(rng, &p, Some(lang));
            // a quarter of the programs: two annotated structs with the same Rust identifier in two modules (`v1::Settings`,
            // `v2::Settings`), kept apart by different serde names - two items, two definitions
            if rng.chance(1, 4) {
                if let Some(ai) = prog.items.iter().position(|i| i.is_annotated() && i.generics.is_empty() && matches!(i.kind, Kind::Struct(_))) {
                    let mut stems = crate::gen::Stems::default();
                    let mut fresh = |rng: &mut Rng, prog: &Program| loop {
                        let s = stems.fresh(rng);
                        if !prog.stems.contains_key(&s) {
                            return s;
                        }
                    };
                    let (sa, sb) = (fresh(rng, &prog), fresh(rng, &prog));
                    let mut b = prog.items[ai].clone();
                    prog.items[ai].rename = Some(format!("{}TwinA", crate::gen::cap(&sa)));
                    prog.items[ai].mods = vec!["tw_one".into()];
                    b.rename = Some(format!("{}TwinB", crate::gen::cap(&sb)));
                    b.mods = vec!["tw_two".into()];
                    if let Kind::Struct(fs) = &mut b.kind {
                        for f in fs.iter_mut() {
                            let st = fresh(rng, &prog);
                            f.ident = format!("{st}_b");
                            f.rename = None;
                            f.raw = false;
                        }
                    }
                    prog.items.push(b);
                    prog.items.sort_by(|x, y| x.mods.cmp(&y.mods));
                }
            }
            // a fifth of the programs: a tagged enum gets two more unit variants whose names differ only in the case of their
            // last letters (`QxxxxxId`, `QxxxxxID`): whatever a backend derives from a variant's name (member keys, constants,
            // case names), each of them is still one variant of the output
            if rng.chance(1, 5) {
                let mut stems = crate::gen::Stems::default();
                let st = loop {
                    let s = stems.fresh(rng);
                    if !prog.stems.contains_key(&s) {
                        break s;
                    }
                };
                if let Some(it) = prog.items.iter_mut().find(|i| i.is_annotated() && matches!(&i.kind, Kind::Enum { tag: Some(_), content: Some(_), .. })) {
                    if let Kind::Enum { variants, .. } = &mut it.kind {
                        let at = rng.below(variants.len() + 1);
                        let (a, b) = *rng.pick(&[("Id", "ID"), ("Url", "URL"), ("Ok", "OK")]);
                        variants.insert(at, Variant::new(&format!("{}{a}", crate::gen::cap(&st)), VKind::Unit));
                        let at2 = rng.range(at + 1, variants.len());
                        variants.insert(at2, Variant::new(&format!("{}{b}", crate::gen::cap(&st)), VKind::Unit));
                    }
                }
            }
            // items declared inside function bodies and anonymous const blocks are annotated items like any other
            if rng.chance(1, 3) {
                let container = *rng.pick(&["fn_local_items", "constblock"]);
                for it in prog.items.iter_mut() {
                    if it.mods.is_empty() && it.rename.is_none() && rng.chance(1, 3) {
                        it.mods = vec![container.to_string()];
                    }
                }
                prog.items.sort_by(|x, y| x.mods.cmp(&y.mods));
            }
            let src = prog.render(rng, &RenderOpts { vary: true, prelude: false, strip_typeshare: false });
            // a third of the files in a layout where no attribute starts its line
            let layout = if rng.chance(1, 3) { rng.range(1, 4) } else { 0 };
            let src = relayout(&src, layout);
            let has_const = prog.items.iter().any(|i| matches!(i.kind, Kind::Const { .. }));
            let generic_enum = prog.items.iter().any(|i| matches!(i.kind, Kind::Enum { .. }) && !i.generics.is_empty());
            let generic_alias = prog.items.iter().any(|i| matches!(i.kind, Kind::Alias(_) | Kind::Newtype(_)) && !i.generics.is_empty());
            let langs: Vec<(LangId, LangCfg)> = ALL_LANGS
                .iter()
                .filter(|l| !(has_const && !l.supports_const()))
                .filter(|l| !((generic_enum || generic_alias) && matches!(l, LangId::Go | LangId::Python)))
                .map(|l| {
                    let mut c = LangCfg::basic(*l);
                    if *l == LangId::Go && rng.coin() {
                        // acronym upper-casing rewrites type names: definitions and references have to agree under it
                        c.uppercase_acronyms = vec!["ID".into(), "URL".into(), "Info".into()];
                    }
                    if matches!(l, LangId::Swift | LangId::Kotlin) && rng.coin() {
                        c.prefix = "Pf".into();
                    }
                    // package shape decides how Scala and Kotlin wrap the definitions (package object / nested packages / none)
                    match l {
                        LangId::Scala => c.package = rng.pick(&["com.verif.gen", "com.verif.gen", "pkg", "two.parts"]).to_string(),
                        LangId::Kotlin => c.package = rng.pick(&["com.verif.gen", "com.verif.gen", "pkg", ""]).to_string(),
                        _ => {}
                    }
                    (*l, c)
                })
                .collect();
            Gen { model: prog, files: vec![SrcFile { path: "src/lib.rs".into(), source: src }], multi: false, langs }
        },
        judge,
    );
    // annotated items a backend cannot generate: error or definition, never silent omission
    let cells: Vec<(&str, String)> = vec![
        ("const", "#[typeshare]\npub const QCONST_LIMIT: u32 = 7;\n#[typeshare]\npub struct Qkeepa { pub a: u8 }\n".to_string()),
        ("union", "#[typeshare]\npub union Qunion { a: u8, b: u16 }\n#[typeshare]\npub struct Qkeepa { pub a: u8 }\n".to_string()),
        ("datetime-field", "#[typeshare]\npub struct Qdated { pub at: OffsetDateTime }\n#[typeshare]\npub struct Qkeepa { pub a: u8 }\n".to_string()),
    ];
    for (what, src) in &cells {
        for lang in ALL_LANGS {
            let cfg = LangCfg::basic(lang);
            let o = crate::sut::run_lib(&crate::sut::single_file(src), lang, &cfg, false, &[]);
            rep.eval(1);
            rep.cell(format!("cannot-generate|{what}|{}|{}", lang.name(), o.kind()));
            if let LibOutcome::Ok(_) = &o {
                let text = o.single().unwrap_or("").to_lowercase();
                let needle = match *what {
                    "const" => "qconst",
                    "union" => "qunion",
                    _ => "qdated",
                };
                if !text.contains(needle) {
                    rep.violate(
                        format!("C03|{}|annotated-{what}-silently-omitted", if *what == "union" { "all-backends" } else { lang.name() }),
                        format!("#[typeshare] {what}: the run succeeds but the output does not define it"),
                        json!({"language": lang.name(), "source": src, "output": o.single()}),
                    );
                }
            }
        }
    }
    // an annotated item that cannot be generated, in one file of a crate whose other files are fine, through the real
    // binary under every delivery order of the three files: the run fails, or the item is defined - it is never left out
    {
        let scratch = ctx.scratch("bad-among-good");
        let cli = ctx.cli.clone();
        // (what, source, what a successful run has to contain)
        let bad_items: [(&str, &str, &str); 5] = [
            ("tuple-struct", "#[typeshare]\npub struct Qpairbad(pub u32, pub String);\n", "qpairbad"),
            ("union", "#[typeshare]\npub union Qpairbad { a: u8, b: u16 }\n", "qpairbad"),
            ("unsupported-field-type", "#[typeshare]\npub struct Qpairbad { pub big: u64 }\n", "qpairbad"),
            ("unsupported-struct-variant-field-type", "#[typeshare]\n#[serde(tag = \"t\", content = \"c\")]\npub enum Qpairbad { Plain, Rec { first: u32, qbigfield: u64, #[typeshare(skip)] scratch: u8, last: String } }\n", "qbigfield"),
            ("unsupported-tuple-type-in-struct-variant", "#[typeshare]\n#[serde(tag = \"t\", content = \"c\")]\npub enum Qpairbad { Rec { qbigfield: (u32, u32), last: String }, Plain }\n", "qbigfield"),
        ];
        let perms = ["0,1,2", "0,2,1", "1,0,2", "1,2,0", "2,0,1", "2,1,0"];
        let mut cases = vec![];
        for (bi, _) in bad_items.iter().enumerate() {
            for lang in ALL_LANGS {
                for multi in [false, true] {
                    if multi && matches!(lang, LangId::Scala | LangId::Go) {
                        continue;
                    }
                    for perm in perms {
                        cases.push((bi, lang, multi, perm));
                    }
                }
            }
        }
        let cases_ref = &cases;
        let r = crate::report::par_shards(ctx.threads, cases.len(), |i| {
            let (bi, lang, multi, perm) = cases_ref[i];
            let (what, bad, needle) = bad_items[bi];
            let mut rep = Report::new();
            let root = scratch.join(format!("b{i}"));
            crate::sut::write_tree(
                &root,
                &[
                    SrcFile { path: "src_root/my_crate/src/a_good.rs".into(), source: "#[typeshare]\npub struct Qgoodfirst { pub a: u8 }\n".into() },
                    SrcFile { path: "src_root/my_crate/src/m_bad.rs".into(), source: format!("{bad}#[typeshare]\npub struct Qgoodbeside {{ pub b: u8 }}\n") },
                    SrcFile { path: "src_root/my_crate/src/z_good.rs".into(), source: "#[typeshare]\npub enum Qgoodlast { A, B }\n".into() },
                ],
            );
            let cfg = LangCfg::basic(lang);
            let out = if multi { root.join("out") } else { root.join(format!("out.{}", lang.ext())) };
            let args = crate::sut::cli_args(lang, &cfg, multi, &out, &["src_root"]);
            let o = crate::sut::run_bin(crate::sut::BinRun { cli: &cli, args: args.clone(), env: vec![("TYPESHARE_VERIF_ORDER".into(), format!("perm:{perm}"))], cwd: &root, strace: None, wall_limit: std::time::Duration::from_secs(30) });
            rep.eval(1);
            rep.count("cli_runs", 1);
            rep.cell(format!("bad-among-good|{what}|{}|multi={multi}|{}", lang.name(), if o.ok() { "exit0" } else { "failed" }));
            if o.ok() {
                let text: String = if multi { crate::sut::read_dir_files(&out).values().map(|b| String::from_utf8_lossy(b).to_lowercase()).collect::<Vec<_>>().join("\n") } else { std::fs::read_to_string(&out).unwrap_or_default().to_lowercase() };
                if !text.contains(needle) {
                    rep.violate(
                        format!("C03|cli|annotated-item-silently-omitted|{what}"),
                        format!("{} ({}): the run succeeds but `{needle}` ({what}) is in no output; files delivered in order {perm}", lang.name(), if multi { "folder" } else { "single file" }),
                        json!({"language": lang.name(), "multi_file": multi, "args": args, "delivery_order": perm, "stderr": o.stderr.chars().take(600).collect::<String>(), "output": text.chars().take(1500).collect::<String>()}),
                    );
                }
            }
            let _ = std::fs::remove_dir_all(&root);
            rep
        });
        rep.merge(r);
        let _ = std::fs::remove_dir_all(&scratch);
    }
    // a source file that is a symbolic link to a regular file elsewhere (a shared wire-types file linked into two crates):
    // it is a visible, non-ignored source file with or without --follow-links
    {
        let root = ctx.scratch("linked-file");
        let cli = ctx.cli.clone();
        let _ = std::fs::create_dir_all(root.join("shared"));
        let _ = std::fs::create_dir_all(root.join("src_root/app/src/nested"));
        std::fs::write(root.join("shared/wire.rs"), "#[typeshare]\npub struct Qlinkedone { pub a: u8, #[serde(skip)] pub qhiddenfield: u8 }\npub struct Qnotannotated { pub b: u8 }\npub mod inner { #[typeshare]\npub enum Qlinkedtwo { A, B } }\n").unwrap();
        std::fs::write(root.join("src_root/app/src/lib.rs"), "#[typeshare]\npub struct Qordinary { pub c: u8 }\n").unwrap();
        let _ = std::os::unix::fs::symlink("../../../shared/wire.rs", root.join("src_root/app/src/wire.rs"));
        let _ = std::os::unix::fs::symlink(root.join("shared/wire.rs"), root.join("src_root/app/src/nested/absolute_link.rs"));
        let mut k = 0;
        for lang in ALL_LANGS {
            for multi in [false, true] {
                if multi && matches!(lang, LangId::Scala | LangId::Go) {
                    continue;
                }
                for follow in [false, true] {
                    k += 1;
                    let cfg = LangCfg::basic(lang);
                    let out = if multi { root.join(format!("out{k}")) } else { root.join(format!("out{k}.{}", lang.ext())) };
                    let mut args = crate::sut::cli_args(lang, &cfg, multi, &out, &["src_root"]);
                    if follow {
                        args.insert(0, "--follow-links".into());
                    }
                    let o = crate::sut::run_bin(crate::sut::BinRun { cli: &cli, args: args.clone(), env: vec![], cwd: &root, strace: None, wall_limit: std::time::Duration::from_secs(30) });
                    rep.eval(1);
                    rep.count("cli_runs", 1);
                    rep.cell(format!("linked-file|{}|multi={multi}|follow={follow}", lang.name()));
                    if !o.ok() {
                        rep.inconclusive("cli-run-failed-on-linked-file", json!({"language": lang.name(), "stderr": o.stderr.chars().take(300).collect::<String>()}));
                        continue;
                    }
                    let text: String = if multi { crate::sut::read_dir_files(&out).values().map(|b| String::from_utf8_lossy(b).to_lowercase()).collect::<Vec<_>>().join("\n") } else { std::fs::read_to_string(&out).unwrap_or_default().to_lowercase() };
                    for (needle, must) in [("qordinary", true), ("qlinkedone", true), ("qlinkedtwo", true), ("qnotannotated", false), ("qhiddenfield", false)] {
                        if text.contains(needle) != must {
                            rep.violate(
                                format!("C03|cli|linked-source-file|{}", if must { "annotated-item-missing" } else { "unshared-element-generated" }),
                                format!("{} ({}, follow-links={follow}): `{needle}` {} the output although the file it is in is {}", lang.name(), if multi { "folder" } else { "single file" }, if must { "is missing from" } else { "appears in" }, if must { "a source file of the crate (through a symbolic link)" } else { "not shared" }),
                                json!({"language": lang.name(), "multi_file": multi, "args": args, "stderr": o.stderr.chars().take(500).collect::<String>(), "output": text.chars().take(1500).collect::<String>()}),
                            );
                        }
                    }
                }
            }
        }
        let _ = std::fs::remove_dir_all(&root);
    }
    // the same file reached twice from the command line (a directory named twice, a directory and one of its
    // sub-directories): still one foreign type per annotated item
    {
        let scratch = ctx.scratch("overlap");
        let cli = ctx.cli.clone();
        let n_ov = ctx.tier.pick(24, 120);
        let r = crate::report::par_shards(ctx.threads, n_ov, |i| {
            let mut rep = Report::new();
            let mut rng = Rng::derive(ctx.seed, "C03-overlap", i as u64);
            let lang = ALL_LANGS[i % 6];
            let mut p = Profile::broad();
            p.consts = false;
            p.type_renames = false;
            p.items = (2, 5);
            p.mods = 0;
            let prog = gen_program(&mut rng, &p, Some(lang));
            if prog.items.iter().any(|it| !it.generics.is_empty() && matches!(it.kind, Kind::Enum { .. } | Kind::Alias(_) | Kind::Newtype(_))) && matches!(lang, LangId::Go | LangId::Python) {
                return rep;
            }
            let src = prog.render(&mut rng, &RenderOpts { vary: true, prelude: false, strip_typeshare: false });
            let root = scratch.join(format!("o{i}"));
            crate::sut::write_tree(&root, &[SrcFile { path: "src_root/my_crate/src/inner/lib.rs".into(), source: src.clone() }, SrcFile { path: "src_root/my_crate/src/other.rs".into(), source: "#[typeshare]\npub struct QotherFixed { pub z: u8 }\n".into() }]);
            let cfg = LangCfg::basic(lang);
            let mut outputs: Vec<(String, Option<Vec<u8>>)> = vec![];
            for (label, dirs) in [("once", vec!["src_root"]), ("directory-twice", vec!["src_root", "src_root"]), ("directory-and-subdirectory", vec!["src_root", "src_root/my_crate/src/inner"]), ("subdirectory-first", vec!["src_root/my_crate", "src_root"])] {
                let out = root.join(format!("out-{label}.{}", lang.ext()));
                let args = crate::sut::cli_args(lang, &cfg, false, &out, &dirs);
                let o = crate::sut::run_bin(crate::sut::BinRun { cli: &cli, args, env: vec![], cwd: &root, strace: None, wall_limit: std::time::Duration::from_secs(30) });
                rep.count("cli_runs", 1);
                outputs.push((label.to_string(), if o.ok() { std::fs::read(&out).ok() } else { None }));
            }
            rep.eval(1);
            rep.count("overlapping_directory_cases", 1);
            rep.cell(format!("overlap|{}", lang.name()));
            if let Some(reference) = outputs[0].1.clone() {
                for (label, b) in outputs.iter().skip(1) {
                    match b {
                        Some(b) if *b == reference => {}
                        Some(b) => {
                            let (nr, nb) = (String::from_utf8_lossy(&reference).matches("QotherFixed").count(), String::from_utf8_lossy(b).matches("QotherFixed").count());
                            rep.violate(format!("C03|cli|input-reached-twice|{}", if nb > nr { "definitions-duplicated" } else { "output-differs" }), format!("{}: naming the input as `{label}` changes the output (QotherFixed occurs {nb} times instead of {nr})", lang.name()), json!({"language": lang.name(), "form": label, "source": src, "output_once": String::from_utf8_lossy(&reference), "output": String::from_utf8_lossy(b)}));
                        }
                        None => rep.inconclusive("cli-run-failed-with-overlapping-directories", json!({"form": label, "language": lang.name()})),
                    }
                }
            } else {
                rep.inconclusive("cli-run-failed", json!({"language": lang.name()}));
            }
            let _ = std::fs::remove_dir_all(&root);
            rep
        });
        rep.merge(r);
        let _ = std::fs::remove_dir_all(&scratch);
    }
    let spec = Spec {
        level: "exploration",
        rule: format!("{n} generated files (Scala and Kotlin under dotted / single-segment / two-segment / absent packages) mixing annotated and un-annotated items at module depth 0-4 and inside function bodies / anonymous const blocks, a quarter of them with two structs of one Rust identifier in two modules (different serde names), #[typeshare] / #[typeshare::typeshare] / with arguments, serde(skip) / typeshare(skip) on random subsets of fields, variants and struct-variant fields, any attribute order, five source layouts (rustfmt-like, attribute behind another attribute or a block comment on the same line, all attributes and the item on one line, CRLF + tabs), x up to 6 languages; definitions and members are attributed to source elements by unique stems and compared with the generator's item list (count, kind, order); decoy and skipped stems are searched over the whole output; plus the real binary with the input named twice (same directory twice, a directory and one of its sub-directories, in both orders): byte-identical to naming it once; plus a crate with source files that are symbolic links to a file outside the input directory (relative and absolute link, with and without --follow-links); plus 'cannot be generated' cells (const / union / DateTime per backend; through the binary a tuple struct / union / u64 field / unsupported struct-variant field in one of three files of a crate, all six delivery orders, single file and folder): error or definition, never success without definition; distinct = (language, item kind, module depth, annotation spelling) and (language, struct-variant, has-skipped)"),
        assumptions: vec!["stems (q + 5 letters, no other 'q' in generated words) identify source elements after case conversion".into()],
        exhaustive: None,
    };
    (spec, rep)
}
