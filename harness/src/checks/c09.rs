//! C09 — every reference to a generated type uses the name the type is defined under.
//! Oracle: agreement between use and definition, paired by stems; no presumed spelling.
use crate::checks::broad::{run_rounds, usable, Case, Gen};
use crate::gen::{first_stem, gen_program, stems_in, Profile, Program};
use crate::ir::{Def, DefKind, Payload, TypeExpr};
use crate::model::*;
use crate::report::{Ctx, Report, Spec};
use crate::rng::Rng;
use crate::sut::{LangCfg, LangId, SrcFile, ALL_LANGS};
use serde_json::json;
use std::collections::BTreeMap;

fn collect_names<'a>(t: &'a TypeExpr, depth: usize, out: &mut Vec<(&'a str, usize)>) {
    match t {
        TypeExpr::Name(n, a) => {
            out.push((n.as_str(), depth));
            for x in a {
                collect_names(x, depth + 1, out);
            }
        }
        TypeExpr::Seq(x) | TypeExpr::FixedSeq(x, _) | TypeExpr::Nullable(x) => collect_names(x, depth + 1, out),
        TypeExpr::Map(k, v) => {
            collect_names(k, depth + 1, out);
            collect_names(v, depth + 1, out);
        }
        TypeExpr::Union(v) | TypeExpr::Tuple(v) => {
            for x in v {
                collect_names(x, depth + 1, out);
            }
        }
        TypeExpr::Object(fs) => {
            for f in fs {
                collect_names(&f.ty, depth + 1, out);
            }
        }
        _ => {}
    }
}

struct ItemInfo {
    kind: &'static str,
    original: String,
    renamed: Option<String>,
}

fn spelling(name: &str, info: &ItemInfo, prefix: &str) -> String {
    let mut forms = vec![];
    let pairs: Vec<(&str, String)> = {
        let mut v = vec![("original", info.original.clone())];
        if let Some(r) = &info.renamed {
            v.push(("renamed", r.clone()));
        }
        v
    };
    for (lbl, n) in pairs {
        if name == format!("{prefix}{n}") && !prefix.is_empty() {
            forms.push(format!("{lbl}+prefix"));
        } else if name == n {
            forms.push(lbl.to_string());
        }
    }
    // Go's uppercase_acronyms changes the case of parts of a name and nothing else: the label (which spelling was
    // meant) is the same, only the exact agreement between use and definition is what the check decides
    if forms.is_empty() {
        for (lbl, n) in [("original", Some(info.original.clone())), ("renamed", info.renamed.clone())] {
            if let Some(n) = n {
                if name.eq_ignore_ascii_case(&n) {
                    forms.push(lbl.to_string());
                }
            }
        }
    }
    if forms.is_empty() {
        "other".into()
    } else {
        forms[0].clone()
    }
}

fn judge(case: &Case<Program>, rep: &mut Report) {
    let lname = case.lang.name();
    let Some(file) = usable(case, "C09", rep, true) else { return };
    let prefix = case.cfg.prefix.as_str();
    // model: stem -> item
    let mut items: BTreeMap<String, ItemInfo> = BTreeMap::new();
    for it in &case.model.items {
        if let Some(st) = first_stem(&it.ident) {
            let kind = match &it.kind {
                Kind::Struct(_) | Kind::UnitStruct => {
                    if it.generics.is_empty() {
                        "struct"
                    } else {
                        "generic-struct"
                    }
                }
                Kind::Enum { tag, .. } => {
                    if tag.is_some() {
                        "tagged-enum"
                    } else {
                        "unit-enum"
                    }
                }
                Kind::Alias(_) => "alias",
                Kind::Newtype(_) => "newtype",
                _ => "other",
            };
            items.insert(st, ItemInfo { kind, original: it.ident.clone(), renamed: it.rename.clone() });
        }
    }
    // definitions by their stems
    let mut defs_by_stems: BTreeMap<Vec<String>, Vec<&Def>> = BTreeMap::new();
    for d in &file.defs {
        let s = stems_in(&d.name);
        if !s.is_empty() {
            defs_by_stems.entry(s).or_default().push(d);
        }
    }
    let mut check_ref = |name: &str, site: &str, depth: usize, owner: &Def, rep: &mut Report| {
        let s = stems_in(name);
        if s.is_empty() {
            return;
        }
        rep.eval(1);
        rep.count(&format!("references_checked_{lname}"), 1);
        let Some(info) = items.get(&s[0]) else { return };
        let renamed = info.renamed.is_some();
        rep.cell(format!("{lname}|{}|{site}|renamed={renamed}|prefix={}|nested={}", info.kind, !prefix.is_empty(), depth > 0));
        let defs = defs_by_stems.get(&s).cloned().unwrap_or_default();
        // helper-struct references carry two stems (enum + variant)
        let target_kind = if s.len() == 2 { "variant-helper" } else { info.kind };
        if defs.iter().any(|d| d.name == name) {
            return;
        }
        let def_names: Vec<String> = defs.iter().map(|d| d.name.clone()).collect();
        let def_sp = def_names.first().map(|n| if s.len() == 2 { helper_spelling(n, name) } else { spelling(n, info, prefix) }).unwrap_or_else(|| "undefined".into());
        let ref_sp = if s.len() == 2 { "helper".to_string() } else { spelling(name, info, prefix) };
        rep.violate(
            format!("C09|{lname}|target={target_kind}|site={site}|def={def_sp}|ref={ref_sp}"),
            format!("{} refers to `{name}` ({site}) but the type is defined as {:?}", owner.name, def_names),
            case.detail(json!({"reference": name, "site": site, "in_definition": owner.name, "defined_names": def_names})),
        );
    };
    for d in &file.defs {
        if d.kind == DefKind::Helper && !matches!(case.lang, LangId::Python) {
            continue;
        }
        let mut names = vec![];
        for f in &d.fields {
            names.clear();
            collect_names(&f.ty, 0, &mut names);
            for (n, depth) in names.clone() {
                check_ref(n, "field", depth, d, rep);
            }
        }
        if let Some(t) = &d.alias_target {
            names.clear();
            collect_names(t, 0, &mut names);
            for (n, depth) in names.clone() {
                check_ref(n, "alias-target", depth, d, rep);
            }
        }
        for v in &d.variants {
            match &v.payload {
                Payload::Newtype(t) => {
                    names.clear();
                    collect_names(t, 0, &mut names);
                    for (n, depth) in names.clone() {
                        let site = if stems_in(n).len() == 2 { "variant-helper-reference" } else { "payload" };
                        check_ref(n, site, depth, d, rep);
                    }
                }
                Payload::Struct(fs) => {
                    for f in fs {
                        names.clear();
                        collect_names(&f.ty, 0, &mut names);
                        for (n, depth) in names.clone() {
                            check_ref(n, "struct-variant-field", depth, d, rep);
                        }
                    }
                }
                Payload::None => {}
            }
            for p in &v.parents {
                names.clear();
                collect_names(p, 0, &mut names);
                if let Some((n, _)) = names.first() {
                    check_ref(n, "variant-parent", 0, d, rep);
                }
            }
        }
    }
    // generic parameters are never prefixed or renamed
    for it in case.model.items.iter().filter(|i| !i.generics.is_empty()) {
        let Some(st) = first_stem(&it.ident) else { continue };
        if let Some(ds) = defs_by_stems.get(&vec![st.clone()]) {
            for d in ds.iter().filter(|d| d.kind != DefKind::Helper) {
                rep.eval(1);
                // "never prefixed or renamed": every parameter the definition declares must be one of the source's
                if let Some(g) = d.generics.iter().find(|g| !it.generics.contains(g)) {
                    rep.violate(format!("C09|{lname}|generic-parameter-changed|{:?}", d.kind), format!("{}: generic parameter {g} is not one of {:?}", d.name, it.generics), case.detail(json!({"definition": d.name})));
                }
            }
        }
    }
    if case.index < 2 {
        rep.sample(json!({"language": lname, "prefix": prefix, "source": case.source(), "definitions": file.defs.iter().filter(|d| d.kind != DefKind::Helper).map(|d| d.name.clone()).collect::<Vec<_>>() }));
    }
}

fn helper_spelling(def_name: &str, ref_name: &str) -> String {
    if def_name.len() == ref_name.len() {
        "helper-other-spelling".into()
    } else if def_name.len() > ref_name.len() {
        "helper-longer".into()
    } else {
        "helper-shorter".into()
    }
}

/// serde(rename) values on types that are not identifiers of any target language (`account-id`): the generated file is
/// not valid code (C10's hostile-name class), but C09 is about agreement - whatever the name is turned into, definition
/// and references are turned into the same thing. Judged on the text: every run of name characters (letters, digits,
/// `_`, `-`) that contains the type's distinguishing word has one and the same spelling.
fn dashed_type_renames() -> Report {
    let mut rep = Report::new();
    let src = "#[typeshare]\n#[serde(rename = \"account-id\")]\npub struct AccountId(pub String);\n#[typeshare]\n#[serde(rename = \"user-rec\")]\npub struct UserRec { pub a: u8 }\n#[typeshare]\n#[serde(rename = \"kind-of\")]\npub enum KindOf { A, B }\n#[typeshare]\npub struct Holder { pub id: AccountId, pub u: Vec<UserRec>, pub k: Option<KindOf>, pub m: HashMap<String, AccountId> }\n#[typeshare]\n#[serde(tag = \"t\", content = \"c\")]\npub enum Pick { One(AccountId), Two { inner: UserRec } }\n";
    let files = vec![SrcFile { path: "src/lib.rs".into(), source: src.into() }];
    for lang in ALL_LANGS {
        for prefix in ["", "OP"] {
            if !prefix.is_empty() && !matches!(lang, LangId::Swift | LangId::Kotlin) {
                continue;
            }
            let mut cfg = LangCfg::basic(lang);
            cfg.prefix = prefix.into();
            let o = crate::sut::run_lib(&files, lang, &cfg, false, &[]);
            rep.eval(1);
            rep.cell(format!("dashed-type-rename|{}|prefix={}", lang.name(), !prefix.is_empty()));
            let Some(text) = o.single() else {
                rep.inconclusive("dashed-type-rename-not-generated", json!({"language": lang.name(), "outcome": o.describe()}));
                continue;
            };
            // (distinguishing word, the Go unit enum is defined under its Rust name: recorded finding of this property)
            for word in ["account", "user", "kind"] {
                if lang == LangId::Go && word == "kind" {
                    continue;
                }
                let mut spellings: std::collections::BTreeSet<String> = Default::default();
                let mut cur = String::new();
                for ch in text.chars().chain(std::iter::once(' ')) {
                    if ch.is_alphanumeric() || ch == '_' || ch == '-' {
                        cur.push(ch);
                    } else if !cur.is_empty() {
                        let w = std::mem::take(&mut cur);
                        // the name itself: prefix + renamed name, in whatever sanitised form; longer names built from it
                        // (variant helpers, coding keys) and the wire strings of other items do not start like it
                        let lower = w.to_lowercase().replace('_', "-");
                        let target = match word {
                            "account" => "account-id",
                            "user" => "user-rec",
                            _ => "kind-of",
                        };
                        if lower == target || lower == format!("{}{target}", prefix.to_lowercase()) {
                            spellings.insert(w);
                        }
                    }
                }
                rep.count("dashed_type_rename_spellings_seen", spellings.len() as u64);
                if spellings.len() > 1 {
                    rep.violate(
                        format!("C09|{}|dashed-type-rename|definition-and-references-spelled-differently", lang.name()),
                        format!("{}: the type renamed to a dashed name is written as {:?}", lang.name(), spellings),
                        json!({"language": lang.name(), "prefix": prefix, "spellings": spellings, "source": src, "output": text}),
                    );
                }
            }
        }
    }
    rep
}

/// serde names that are at the same time Rust identifiers of other shared types: a reference is rewritten exactly once
/// (identifier -> serde name of *that* type), whatever the new spelling happens to mean as an identifier
fn rename_chains(ctx: &Ctx) -> Report {
    let mut rep = Report::new();
    let src = "#[typeshare]\n#[serde(rename = \"User\")]\npub struct UserV2 { pub a: u8 }\n#[typeshare]\n#[serde(rename = \"UserLegacy\")]\npub struct User { pub b: u8 }\n#[typeshare]\n#[serde(rename = \"Right\")]\npub struct Left { pub l: u8 }\n#[typeshare]\n#[serde(rename = \"Left\")]\npub struct Right { pub r: u8 }\n#[typeshare]\npub struct Holder { pub current: UserV2, pub old: Vec<User>, pub left: Left, pub right: Option<Right>, pub both: HashMap<String, Vec<UserV2>> }\n#[typeshare]\npub type Current = UserV2;\n#[typeshare]\n#[serde(tag = \"t\", content = \"c\")]\npub enum Pick { One(UserV2), Two { inner: User, side: Left } }\n";
    // field of Holder -> name its type has to mention (before the prefix)
    let expect = [("current", "User"), ("old", "UserLegacy"), ("left", "Right"), ("right", "Left"), ("both", "User")];
    let files = vec![SrcFile { path: "src_root/chain_crate/src/lib.rs".into(), source: src.into() }];
    let scratch = ctx.scratch("chains");
    let mut k = 0;
    for lang in ALL_LANGS {
        for prefix in ["", "OP", "Core"] {
            if !prefix.is_empty() && !matches!(lang, LangId::Swift | LangId::Kotlin) {
                continue;
            }
            k += 1;
            let mut cfg = LangCfg::basic(lang);
            cfg.prefix = prefix.into();
            let lo = crate::sut::run_lib(&files, lang, &cfg, false, &[]);
            rep.eval(1);
            rep.cell(format!("rename-chain|{}|prefix={}", lang.name(), !prefix.is_empty()));
            let Some(text) = lo.single() else {
                rep.inconclusive("rename-chain-not-generated", json!({"language": lang.name(), "outcome": lo.describe()}));
                continue;
            };
            let facts = crate::facts::parse_many(ctx, &format!("chains-py{k}"), &[(lang, text)], false);
            if let Some(file) = facts[0].file() {
                if let Some(h) = file.defs.iter().find(|d| d.name == format!("{prefix}Holder")) {
                    for (fname, want) in expect {
                        let Some(f) = h.fields.iter().find(|f| f.wire_key == fname || f.ident == fname) else { continue };
                        let mut names = vec![];
                        f.ty.names(&mut names);
                        rep.count("rename_chain_references_checked", 1);
                        let wanted = format!("{prefix}{want}");
                        if !names.iter().any(|n| *n == wanted) {
                            rep.violate(
                                format!("C09|{}|rename-chain|reference-names-another-type", lang.name()),
                                format!("{}: Holder.{fname} has to refer to `{wanted}` but is written {}", lang.name(), f.ty.show()),
                                json!({"language": lang.name(), "prefix": prefix, "source": src, "output": text}),
                            );
                        }
                    }
                }
            } else {
                rep.inconclusive("rename-chain-output-not-parsed", json!({"language": lang.name()}));
            }
            // the binary runs the same passes once each: byte-identical to the library
            let root = scratch.join(format!("c{k}"));
            crate::sut::write_tree(&root, &files);
            let out = root.join(format!("out.{}", lang.ext()));
            let o = crate::sut::run_bin(crate::sut::BinRun { cli: &ctx.cli, args: crate::sut::cli_args(lang, &cfg, false, &out, &["src_root"]), env: vec![], cwd: &root, strace: None, wall_limit: std::time::Duration::from_secs(30) });
            rep.count("cli_runs", 1);
            if o.ok() {
                let got = std::fs::read_to_string(&out).unwrap_or_default();
                if got != text {
                    rep.violate(
                        format!("C09|{}|rename-chain|binary-differs-from-library", lang.name()),
                        format!("{}: the binary spells the references of the rename-chain program differently from the library pipeline", lang.name()),
                        json!({"language": lang.name(), "prefix": prefix, "source": src, "library_output": text, "cli_output": got}),
                    );
                }
            } else {
                rep.inconclusive("rename-chain-cli-run-failed", json!({"language": lang.name(), "stderr": o.stderr.chars().take(300).collect::<String>()}));
            }
            let _ = std::fs::remove_dir_all(&root);
        }
    }
    let _ = std::fs::remove_dir_all(&scratch);
    rep
}

pub fn run(ctx: &Ctx) -> (Spec, Report) {
    let n = ctx.tier.pick(5000, 60_000);
    let rep = run_rounds(
        ctx,
        "C09",
        n,
        false,
        |rng: &mut Rng, _i| {
            let mut p = Profile::broad();
            p.items = (3, 10);
            p.type_renames = true;
            p.decoys = false;
            p.skips = false;
            p.docs = false;
            p.consts = false;
            p.type_depth = 3;
            p.mods = 1;
            let lang = ALL_LANGS[rng.below(6)];
            let mut prog = gen_program(rng, &p, Some(lang));
            // some structs / enums are shared as a plain string (`serialized_as`): they are then emitted as aliases, keep
            // their name, and the container's rename_all (which is about fields / variants) must not reach that name
            for it in prog.items.iter_mut().filter(|i| i.is_annotated() && i.generics.is_empty() && matches!(i.kind, Kind::Struct(_) | Kind::Enum { .. })) {
                if rng.chance(1, 7) {
                    it.serialized_as = Some("String".into());
                    if it.rename_all.is_none() && rng.coin() {
                        it.rename_all = Some(rng.pick(&["camelCase", "snake_case", "lowercase", "UPPERCASE", "kebab-case", "SCREAMING_SNAKE_CASE"]).to_string());
                    }
                }
            }
            let src = prog.render(rng, &RenderOpts { vary: true, prelude: false, strip_typeshare: false });
            let src = if rng.chance(1, 4) { crate::model::relayout(&src, rng.range(1, 4)) } else { src };
            let generic_enum = prog.items.iter().any(|i| matches!(i.kind, Kind::Enum { .. }) && !i.generics.is_empty());
            let generic_alias = prog.items.iter().any(|i| matches!(i.kind, Kind::Alias(_) | Kind::Newtype(_)) && !i.generics.is_empty());
            let langs: Vec<(LangId, LangCfg)> = ALL_LANGS
                .iter()
                .filter(|l| !((generic_enum || generic_alias) && matches!(l, LangId::Go | LangId::Python)))
                .map(|l| {
                    let mut c = LangCfg::basic(*l);
                    if *l == LangId::Go && rng.coin() {
                        // acronym upper-casing rewrites type names: definitions and references have to agree under it
                        c.uppercase_acronyms = vec!["ID".into(), "URL".into(), "Info".into()];
                    }
                    if matches!(l, LangId::Swift | LangId::Kotlin) && rng.coin() {
                        c.prefix = "OP".into();
                    }
                    (*l, c)
                })
                .collect();
            Gen { model: prog, files: vec![SrcFile { path: "src/lib.rs".into(), source: src }], multi: false, langs }
        },
        judge,
    );
    let mut rep = rep;
    rep.merge(rename_chains(ctx));
    rep.merge(dashed_type_renames());
    let spec = Spec {
        level: "exploration",
        rule: format!("{n} programs of 3-10 mutually referencing types (struct, generic struct, unit enum, tagged enum with newtype and struct variants, alias, newtype), references direct / through containers / as generic arguments, a random subset carrying serde(rename) on the type, a seventh of the structs / enums shared through `serialized_as` (with or without a container rename_all), prefix on or off (Swift, Kotlin), 6 languages; every type name used in a field, payload, generic argument, alias target, variant parent or variant-helper reference must equal the name of the definition carrying the same stem(s); plus a fixed program in which serde names and Rust identifiers overlap (`UserV2` renamed to `User` beside `User` renamed to `UserLegacy`; `Left` and `Right` renamed to each other), through the library and through the binary under 3 prefixes: each reference is spelled like the definition of the type it refers to; plus types renamed to dashed names (no identifier anywhere), where definition and references must still be turned into the same spelling; distinct = (language, target kind, site, renamed?, prefix?, nested?)"),
        assumptions: vec!["use and definition are paired by stems, so either spelling passes as long as both sides agree".into()],
        exhaustive: None,
    };
    (spec, rep)
}
