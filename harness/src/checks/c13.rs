//! C13 — --target-os filtering follows the documented accept/reject rule at every level.
//! Oracle: a small evaluator written from the property text (not from target_os_check.rs).
use crate::gen::{stems_in, Stems};
use crate::ir::ParseStatus;
use crate::lang::parse_text;
use crate::report::{par_shards, Ctx, Report, Spec};
use crate::rng::Rng;
use crate::sut::{run_bin, run_lib, write_tree, BinRun, LangCfg, LangId, LibOutcome, SrcFile};
use serde_json::json;
use std::collections::BTreeSet;
use std::time::Duration;

#[derive(Clone, Debug, PartialEq)]
pub enum Cfg {
    Os(&'static str),
    Feature,
    Unix,
    Not(Box<Cfg>),
    Any(Vec<Cfg>),
    All(Vec<Cfg>),
}

impl Cfg {
    pub fn render(&self) -> String {
        match self {
            Cfg::Os(o) => format!("target_os = \"{o}\""),
            Cfg::Feature => "feature = \"f\"".into(),
            Cfg::Unix => "unix".into(),
            Cfg::Not(x) => format!("not({})", x.render()),
            Cfg::Any(v) => format!("any({})", v.iter().map(|x| x.render()).collect::<Vec<_>>().join(", ")),
            Cfg::All(v) => format!("all({})", v.iter().map(|x| x.render()).collect::<Vec<_>>().join(", ")),
        }
    }
    pub fn depth(&self) -> usize {
        match self {
            Cfg::Not(x) => 1 + x.depth(),
            Cfg::Any(v) | Cfg::All(v) => 1 + v.iter().map(|x| x.depth()).max().unwrap_or(0),
            _ => 0,
        }
    }
    /// the property text: OS names inside any not(...) -> n, the others -> p
    fn collect(&self, under_not: bool, n: &mut BTreeSet<&'static str>, p: &mut BTreeSet<&'static str>) {
        match self {
            Cfg::Os(o) => {
                if under_not {
                    n.insert(o);
                } else {
                    p.insert(o);
                }
            }
            Cfg::Not(x) => x.collect(true, n, p),
            Cfg::Any(v) | Cfg::All(v) => {
                for x in v {
                    x.collect(under_not, n, p);
                }
            }
            _ => {}
        }
    }
    fn shape(&self) -> String {
        match self {
            Cfg::Os(_) => "os".into(),
            Cfg::Feature => "feat".into(),
            Cfg::Unix => "word".into(),
            Cfg::Not(x) => format!("not({})", x.shape()),
            Cfg::Any(v) => format!("any({})", v.iter().map(|x| x.shape()).collect::<Vec<_>>().join(",")),
            Cfg::All(v) => format!("all({})", v.iter().map(|x| x.shape()).collect::<Vec<_>>().join(",")),
        }
    }
}

/// keep <=> T empty, or (N ∩ T = ∅ and (P = ∅ or P ∩ T ≠ ∅)), over all cfg attributes of the element
pub fn expect_keep(cfgs: &[Cfg], t: &[&str]) -> bool {
    if t.is_empty() {
        return true;
    }
    let mut n = BTreeSet::new();
    let mut p = BTreeSet::new();
    for c in cfgs {
        c.collect(false, &mut n, &mut p);
    }
    let hits = |s: &BTreeSet<&'static str>| s.iter().any(|o| t.contains(o));
    !hits(&n) && (p.is_empty() || hits(&p))
}

fn leaves(full: bool) -> Vec<Cfg> {
    if full {
        vec![Cfg::Os("a"), Cfg::Os("b"), Cfg::Os("c"), Cfg::Feature, Cfg::Unix]
    } else {
        vec![Cfg::Os("a"), Cfg::Os("b"), Cfg::Feature, Cfg::Unix]
    }
}

/// next depth: not(x), any(x), all(x) and binary nodes pairing x with a leaf in both child orders
fn extend(prev_new: &[Cfg], lv: &[Cfg]) -> Vec<Cfg> {
    let mut out = vec![];
    for x in prev_new {
        out.push(Cfg::Not(Box::new(x.clone())));
        out.push(Cfg::Any(vec![x.clone()]));
        out.push(Cfg::All(vec![x.clone()]));
        for l in lv {
            out.push(Cfg::Any(vec![x.clone(), l.clone()]));
            out.push(Cfg::Any(vec![l.clone(), x.clone()]));
            out.push(Cfg::All(vec![x.clone(), l.clone()]));
            out.push(Cfg::All(vec![l.clone(), x.clone()]));
        }
    }
    out
}

/// all expressions up to `depth`: depth 1 is the full product over leaves, deeper levels pair a deep child with a leaf
pub fn enumerate(depth: usize, full_alphabet: bool) -> Vec<Cfg> {
    let lv = leaves(full_alphabet);
    let mut all: Vec<Cfg> = lv.clone();
    // depth 1: complete (both children any leaf, ordered)
    let mut d1 = vec![];
    for x in &lv {
        d1.push(Cfg::Not(Box::new(x.clone())));
        d1.push(Cfg::Any(vec![x.clone()]));
        d1.push(Cfg::All(vec![x.clone()]));
        for y in &lv {
            d1.push(Cfg::Any(vec![x.clone(), y.clone()]));
            d1.push(Cfg::All(vec![x.clone(), y.clone()]));
        }
    }
    let mut frontier = d1.clone();
    if depth >= 1 {
        all.extend(d1);
    }
    for _ in 2..=depth {
        let next = extend(&frontier, &lv);
        all.extend(next.iter().cloned());
        frontier = next;
    }
    all
}

fn random_cfg(rng: &mut Rng, depth: usize) -> Cfg {
    if depth == 0 || rng.chance(1, 5) {
        return leaves(true)[rng.below(5)].clone();
    }
    match rng.below(5) {
        0 | 1 => Cfg::Not(Box::new(random_cfg(rng, depth - 1))),
        2 => Cfg::Any((0..rng.range(1, 2)).map(|_| random_cfg(rng, depth - 1)).collect()),
        3 => Cfg::All((0..rng.range(1, 2)).map(|_| random_cfg(rng, depth - 1)).collect()),
        _ => {
            if rng.coin() {
                Cfg::Any(vec![random_cfg(rng, depth - 1), random_cfg(rng, depth - 1)])
            } else {
                Cfg::All(vec![random_cfg(rng, depth - 1), random_cfg(rng, depth - 1)])
            }
        }
    }
}

const LEVELS: [&str; 5] = ["file", "type", "variant", "field", "struct-variant-field"];

fn target_lists() -> Vec<Vec<&'static str>> {
    let os = ["a", "b", "c", "d"];
    (0..16u32).map(|m| (0..4).filter(|i| m & (1 << i) != 0).map(|i| os[i]).collect()).collect()
}

/// Build one source file with many guarded elements at `level`; returns (source, stems of the guarded elements)
fn build_source(level: usize, groups: &[Vec<Cfg>], stems: &mut Stems, rng: &mut Rng) -> (String, Vec<String>) {
    // the guards stand among the other attributes an item carries, in any order: doc comments (each line an attribute of
    // its own) and lint attributes before, between and after them
    let nth = std::cell::Cell::new(0usize);
    let attrs = |g: &Vec<Cfg>, ind: &str| {
        let n = nth.get();
        nth.set(n + 1);
        let cfgs: Vec<String> = g.iter().map(|c| format!("{ind}#[cfg({})]\n", c.render())).collect();
        let mid = cfgs.len() / 2;
        match n % 8 {
            1 => format!("{}{ind}/// said after the guards\n", cfgs.concat()),
            2 => format!("{ind}/// said before the guards\n{}", cfgs.concat()),
            3 => format!("{}{ind}/// said between the guards\n{ind}/// in two lines\n{}", cfgs[..mid].concat(), cfgs[mid..].concat()),
            4 => format!("{}{ind}#[allow(dead_code)]\n", cfgs.concat()),
            5 => format!("{}{ind}#[doc = \"said after the guards\"]\n{ind}#[allow(dead_code)]\n", cfgs.concat()),
            _ => cfgs.concat(),
        }
    };
    let mut st = vec![];
    let mut s = String::new();
    match level {
        0 => {
            // file level: exactly one group
            for c in &groups[0] {
                s.push_str(&format!("#![cfg({})]\n", c.render()));
            }
            let x = stems.fresh(rng);
            s.push_str(&format!("#[typeshare]\npub struct {} {{ pub v: u8 }}\n", crate::gen::cap(&x)));
            st.push(x);
        }
        1 => {
            for g in groups {
                let x = stems.fresh(rng);
                s.push_str(&attrs(g, ""));
                s.push_str(&format!("#[typeshare]\npub struct {} {{ pub v: u8 }}\n", crate::gen::cap(&x)));
                st.push(x);
            }
        }
        2 => {
            s.push_str("#[typeshare]\npub enum Holder {\n    Always,\n");
            for g in groups {
                let x = stems.fresh(rng);
                s.push_str(&attrs(g, "    "));
                s.push_str(&format!("    {},\n", crate::gen::cap(&x)));
                st.push(x);
            }
            s.push_str("}\n");
        }
        3 => {
            s.push_str("#[typeshare]\npub struct Holder {\n    pub always: u8,\n");
            for g in groups {
                let x = stems.fresh(rng);
                s.push_str(&attrs(g, "    "));
                s.push_str(&format!("    pub {x}: u8,\n"));
                st.push(x);
            }
            s.push_str("}\n");
        }
        _ => {
            s.push_str("#[typeshare]\n#[serde(tag = \"t\", content = \"c\")]\npub enum Holder {\n    Always,\n    Rec {\n        always: u8,\n");
            for g in groups {
                let x = stems.fresh(rng);
                s.push_str(&attrs(g, "        "));
                s.push_str(&format!("        {x}: u8,\n"));
                st.push(x);
            }
            s.push_str("    },\n}\n");
        }
    }
    // a quarter of the files spell every attribute with something between `cfg` and its parenthesis (white space, a line
    // break, a comment): the same attribute to rustc and to syn
    let s = match rng.below(8) {
        0 => s.replace("cfg(", "cfg ("),
        1 => s.replace("cfg(", "cfg\n    ("),
        _ => s,
    };
    (s, st)
}

/// stems present in the generated TypeScript (all identifiers and keys of the parsed definitions)
fn present_stems(text: &str) -> Option<BTreeSet<String>> {
    let (st, _) = parse_text(LangId::Ts, text);
    let ParseStatus::Parsed(f) = st else { return None };
    let mut out = BTreeSet::new();
    for d in &f.defs {
        out.extend(stems_in(&d.name));
        for fl in &d.fields {
            out.extend(stems_in(&fl.wire_key));
        }
        for v in &d.variants {
            out.extend(stems_in(&v.ident));
            if let crate::ir::Payload::Struct(fs) = &v.payload {
                for fl in fs {
                    out.extend(stems_in(&fl.wire_key));
                }
            }
        }
    }
    Some(out)
}

fn judge(level: usize, groups: &[Vec<Cfg>], stems: &[String], t: &[&str], present: &BTreeSet<String>, how: &str, rep: &mut Report, source: &str) {
    for (g, st) in groups.iter().zip(stems.iter()) {
        let want = expect_keep(g, t);
        let got = present.contains(st);
        rep.eval(1);
        rep.count(&format!("decisions_{}", LEVELS[level]), 1);
        let shape = if g.len() == 1 {
            let sh = g[0].shape();
            format!("d{}|{}|not={}", g[0].depth(), sh.split('(').next().unwrap_or(""), sh.contains("not("))
        } else {
            format!("{} attrs", g.len())
        };
        rep.cell(format!("{}|{}|T{}|{}", LEVELS[level], shape, t.len(), want));
        if want != got {
            let has_not = g.iter().any(|c| c.render().contains("not("));
            rep.violate(
                format!("C13|{how}|{}|{}|{}", LEVELS[level], if want { "wrongly-filtered" } else { "wrongly-kept" }, if t.is_empty() { "no-target-list" } else if has_not { "with-not" } else { "without-not" }),
                format!("{} guarded by {} with target list {:?}: expected {}, generated output {}", LEVELS[level], g.iter().map(|c| format!("cfg({})", c.render())).collect::<Vec<_>>().join(" + "), t, if want { "kept" } else { "omitted" }, if got { "contains it" } else { "omits it" }),
                json!({"level": LEVELS[level], "cfg": g.iter().map(|c| c.render()).collect::<Vec<_>>(), "target_os": t, "expected_kept": want, "observed_kept": got, "via": how, "source_excerpt": source.chars().take(1500).collect::<String>()}),
            );
        }
    }
}

fn run_groups_lib(level: usize, groups: &[Vec<Cfg>], rng: &mut Rng, rep: &mut Report, lists: &[Vec<&'static str>]) {
    let mut stems = Stems::default();
    let (src, st) = build_source(level, groups, &mut stems, rng);
    let files = vec![SrcFile { path: "src/lib.rs".into(), source: src.clone() }];
    for t in lists {
        let tos: Vec<String> = t.iter().map(|s| s.to_string()).collect();
        let out = run_lib(&files, LangId::Ts, &LangCfg::default(), false, &tos);
        rep.count("library_runs", 1);
        let present = match &out {
            LibOutcome::Ok(_) => match present_stems(out.single().unwrap_or("")) {
                Some(p) => p,
                None => {
                    rep.inconclusive("typescript-output-not-parsed", json!({"source": src.chars().take(400).collect::<String>()}));
                    continue;
                }
            },
            // a fully filtered file leaves nothing to generate
            LibOutcome::GenError(_) => BTreeSet::new(),
            other => {
                rep.inconclusive("typeshare-failed", json!({"outcome": other.describe()}));
                continue;
            }
        };
        judge(level, groups, &st, t, &present, "library", rep, &src);
    }
}

/// Alternatives of one type under one name, each in a file of its own (`platform_a.rs` with `#![cfg(target_os = "a")]`,
/// `platform_b.rs` ..) or guarded item by item: every alternative is judged by its own guard, whatever the others are
/// called (a target list that accepts two of them gets both)
fn same_named_alternatives(rep: &mut Report, lists: &[Vec<&'static str>]) {
    let guards = vec![Cfg::Os("a"), Cfg::Os("b"), Cfg::Not(Box::new(Cfg::Os("a"))), Cfg::Any(vec![Cfg::Os("a"), Cfg::Os("c")]), Cfg::Feature];
    let mut stems = Stems::default();
    let mut rng = Rng::new(1313);
    for level in 0..2usize {
        for order in 0..3usize {
            let mut files = vec![];
            let mut st = vec![];
            let mut groups = vec![];
            for k in 0..guards.len() {
                let g = &guards[(k + order * 2) % guards.len()];
                let x = stems.fresh(&mut rng);
                let source = if level == 0 {
                    format!("#![cfg({})]\n#[typeshare]\npub struct Platform {{ pub {x}: u8 }}\n", g.render())
                } else {
                    format!("#[cfg({})]\n#[typeshare]\npub struct Platform {{ pub {x}: u8 }}\n", g.render())
                };
                files.push(SrcFile { path: format!("src/platform_{k}.rs"), source });
                st.push(x);
                groups.push(vec![g.clone()]);
            }
            let all_src: String = files.iter().map(|f| format!("// {}\n{}", f.path, f.source)).collect();
            for t in lists {
                let tos: Vec<String> = t.iter().map(|s| s.to_string()).collect();
                let out = run_lib(&files, LangId::Ts, &LangCfg::default(), false, &tos);
                rep.count("library_runs", 1);
                rep.count("same_named_alternative_runs", 1);
                let present = match &out {
                    LibOutcome::Ok(_) => match present_stems(out.single().unwrap_or("")) {
                        Some(p) => p,
                        None => {
                            rep.inconclusive("typescript-output-not-parsed", json!({"source": all_src.chars().take(400).collect::<String>()}));
                            continue;
                        }
                    },
                    LibOutcome::GenError(_) => BTreeSet::new(),
                    other => {
                        rep.inconclusive("typeshare-failed", json!({"outcome": other.describe()}));
                        continue;
                    }
                };
                judge(level, &groups, &st, t, &present, "library-same-named-alternatives", rep, &all_src);
            }
        }
    }
}

/// A guarded member inside a guarded parent (field in a struct variant, field in a struct): each level is judged on its
/// own attributes - the member is generated iff the parent passes by its guard and the member passes by its own
fn two_levels(rep: &mut Report, lists: &[Vec<&'static str>]) {
    let guards = vec![Cfg::Os("a"), Cfg::Os("b"), Cfg::Os("c"), Cfg::Not(Box::new(Cfg::Os("a"))), Cfg::Not(Box::new(Cfg::Os("b"))), Cfg::Feature, Cfg::Any(vec![Cfg::Os("a"), Cfg::Os("b")])];
    let mut stems = Stems::default();
    let mut rng = Rng::new(13);
    // (parent guard, member guard, parent stem, member stem, kind)
    let mut cases: Vec<(Cfg, Cfg, String, String, &'static str)> = vec![];
    let mut src = String::from("#[typeshare]\n#[serde(tag = \"t\", content = \"c\")]\npub enum Holder {\n    Always,\n");
    for v in &guards {
        for f in &guards {
            let (vs, fs) = (stems.fresh(&mut rng), stems.fresh(&mut rng));
            src.push_str(&format!("    #[cfg({})]\n    {} {{\n        always: u8,\n        #[cfg({})]\n        {fs}: u8,\n    }},\n", v.render(), crate::gen::cap(&vs), f.render()));
            cases.push((v.clone(), f.clone(), vs, fs, "struct-variant-field"));
        }
    }
    src.push_str("}\n");
    for v in &guards {
        for f in &guards {
            let (vs, fs) = (stems.fresh(&mut rng), stems.fresh(&mut rng));
            src.push_str(&format!("#[cfg({})]\n#[typeshare]\npub struct {} {{\n    pub always: u8,\n    #[cfg({})]\n    pub {fs}: u8,\n}}\n", v.render(), crate::gen::cap(&vs), f.render()));
            cases.push((v.clone(), f.clone(), vs, fs, "field"));
        }
    }
    let files = vec![SrcFile { path: "src/lib.rs".into(), source: src.clone() }];
    for t in lists {
        let tos: Vec<String> = t.iter().map(|s| s.to_string()).collect();
        let out = run_lib(&files, LangId::Ts, &LangCfg::default(), false, &tos);
        rep.count("library_runs", 1);
        let present = match &out {
            LibOutcome::Ok(_) => match present_stems(out.single().unwrap_or("")) {
                Some(p) => p,
                None => {
                    rep.inconclusive("typescript-output-not-parsed", json!({"workload": "two-levels"}));
                    continue;
                }
            },
            other => {
                rep.inconclusive("typeshare-failed", json!({"workload": "two-levels", "outcome": other.describe()}));
                continue;
            }
        };
        for (v, f, vs, fs, kind) in &cases {
            let want_parent = expect_keep(std::slice::from_ref(v), t);
            let want_member = want_parent && expect_keep(std::slice::from_ref(f), t);
            rep.eval(1);
            rep.count("decisions_two_levels", 1);
            rep.cell(format!("two-levels|{kind}|parent={}|member={}|T{}|{want_parent}|{want_member}", v.shape(), f.shape(), t.len()));
            for (what, want, got) in [("parent", want_parent, present.contains(vs)), ("member", want_member, present.contains(fs))] {
                if want != got {
                    rep.violate(
                        format!("C13|library|two-levels|{kind}|{what}|{}", if want { "wrongly-filtered" } else { "wrongly-kept" }),
                        format!("{kind} guarded by cfg({}) inside a parent guarded by cfg({}) with target list {t:?}: the {what} is expected {}, the generated output {}", f.render(), v.render(), if want { "kept" } else { "omitted" }, if got { "contains it" } else { "omits it" }),
                        json!({"parent_cfg": v.render(), "member_cfg": f.render(), "target_os": t, "what": what, "expected_kept": want, "observed_kept": got}),
                    );
                }
            }
        }
    }
}

/// A guard on the file (`#![cfg(..)]`) and a guard on something inside it: the file's guard decides about the file, and
/// every type, variant, field and struct-variant field of a kept file is judged against the whole target list again
fn file_and_member_levels(rep: &mut Report, lists: &[Vec<&'static str>]) {
    let file_guards = vec![Cfg::Os("a"), Cfg::Os("b"), Cfg::Any(vec![Cfg::Os("a"), Cfg::Os("b")]), Cfg::Not(Box::new(Cfg::Os("c"))), Cfg::All(vec![Cfg::Feature, Cfg::Os("a")]), Cfg::Feature];
    let member_guards = vec![Cfg::Os("a"), Cfg::Os("b"), Cfg::Os("c"), Cfg::Not(Box::new(Cfg::Os("a"))), Cfg::Not(Box::new(Cfg::Os("b"))), Cfg::Any(vec![Cfg::Os("b"), Cfg::Os("c")]), Cfg::Feature];
    let mut stems = Stems::default();
    let mut rng = Rng::new(47);
    // (file guard, member guard, stem of the file's un-guarded type, member stem, kind)
    let mut cases: Vec<(Cfg, Cfg, String, String, &'static str)> = vec![];
    let mut files = vec![];
    for (i, fg) in file_guards.iter().enumerate() {
        let anchor = stems.fresh(&mut rng);
        let mut src = format!("#![cfg({})]\n#[typeshare]\npub struct {} {{ pub always: u8 }}\n", fg.render(), crate::gen::cap(&anchor));
        let mut variants = String::new();
        let mut fields = String::new();
        let mut vfields = String::new();
        for mg in &member_guards {
            let (ts, vs, fs, ws) = (stems.fresh(&mut rng), stems.fresh(&mut rng), stems.fresh(&mut rng), stems.fresh(&mut rng));
            src.push_str(&format!("#[cfg({})]\n#[typeshare]\npub struct {} {{ pub v: u8 }}\n", mg.render(), crate::gen::cap(&ts)));
            variants.push_str(&format!("    #[cfg({})]\n    {},\n", mg.render(), crate::gen::cap(&vs)));
            fields.push_str(&format!("    #[cfg({})]\n    pub {fs}: u8,\n", mg.render()));
            vfields.push_str(&format!("        #[cfg({})]\n        {ws}: u8,\n", mg.render()));
            for (st, kind) in [(ts, "type"), (vs, "variant"), (fs, "field"), (ws, "struct-variant-field")] {
                cases.push((fg.clone(), mg.clone(), anchor.clone(), st, kind));
            }
        }
        src.push_str(&format!("#[typeshare]\npub enum Choice{i} {{\n    Always,\n{variants}}}\n"));
        src.push_str(&format!("#[typeshare]\npub struct Record{i} {{\n    pub always: u8,\n{fields}}}\n"));
        src.push_str(&format!("#[typeshare]\n#[serde(tag = \"t\", content = \"c\")]\npub enum Tagged{i} {{\n    Always,\n    Rec {{\n        always: u8,\n{vfields}    }},\n}}\n"));
        files.push(SrcFile { path: format!("src/guarded_{i}.rs"), source: src });
    }
    for t in lists {
        let tos: Vec<String> = t.iter().map(|s| s.to_string()).collect();
        let out = run_lib(&files, LangId::Ts, &LangCfg::default(), false, &tos);
        rep.count("library_runs", 1);
        let present = match &out {
            LibOutcome::Ok(_) => match present_stems(out.single().unwrap_or("")) {
                Some(p) => p,
                None => {
                    rep.inconclusive("typescript-output-not-parsed", json!({"workload": "file-and-member-levels"}));
                    continue;
                }
            },
            other => {
                rep.inconclusive("typeshare-failed", json!({"workload": "file-and-member-levels", "outcome": other.describe()}));
                continue;
            }
        };
        for (fg, mg, anchor, st, kind) in &cases {
            let want_file = expect_keep(std::slice::from_ref(fg), t);
            let want_member = want_file && expect_keep(std::slice::from_ref(mg), t);
            rep.eval(1);
            rep.count("decisions_file_and_member_levels", 1);
            rep.cell(format!("file-and-member|{kind}|file={}|member={}|T{}|{want_file}|{want_member}", fg.shape(), mg.shape(), t.len()));
            for (what, want, got) in [("file", want_file, present.contains(anchor)), ("member", want_member, present.contains(st))] {
                if want != got {
                    rep.violate(
                        format!("C13|library|file-and-member-levels|{kind}|{what}|{}", if want { "wrongly-filtered" } else { "wrongly-kept" }),
                        format!("{kind} guarded by cfg({}) in a file guarded by #![cfg({})] with target list {t:?}: the {what} is expected {}, the generated output {}", mg.render(), fg.render(), if want { "kept" } else { "omitted" }, if got { "contains it" } else { "omits it" }),
                        json!({"file_cfg": fg.render(), "member_cfg": mg.render(), "target_os": t, "what": what, "expected_kept": want, "observed_kept": got}),
                    );
                }
            }
        }
    }
}

/// An un-guarded enum without tag / content whose only data-carrying variants are rejected by the target list: what is
/// left is a unit enum, and it is generated with exactly its accepted variants
fn rejected_payload_variants(rep: &mut Report, lists: &[Vec<&'static str>]) {
    let guards = vec![Cfg::Os("a"), Cfg::Os("b"), Cfg::Not(Box::new(Cfg::Os("a"))), Cfg::Not(Box::new(Cfg::Os("c"))), Cfg::Any(vec![Cfg::Os("a"), Cfg::Os("b")]), Cfg::All(vec![Cfg::Feature, Cfg::Not(Box::new(Cfg::Os("b")))])];
    for t in lists {
        if t.is_empty() {
            continue;
        }
        let rejected: Vec<&Cfg> = guards.iter().filter(|g| !expect_keep(std::slice::from_ref(*g), t)).collect();
        if rejected.is_empty() {
            continue;
        }
        let mut stems = Stems::default();
        let mut rng = Rng::new(31);
        let mut src = String::new();
        let mut cases = vec![];
        for g in &rejected {
            let (hs, ks, ns, ps) = (stems.fresh(&mut rng), stems.fresh(&mut rng), stems.fresh(&mut rng), stems.fresh(&mut rng));
            src.push_str(&format!(
                "#[typeshare]\npub enum {} {{\n    {},\n    #[cfg({})]\n    {}(String),\n    #[cfg({})]\n    {} {{ name: String }},\n}}\n",
                crate::gen::cap(&hs),
                crate::gen::cap(&ks),
                g.render(),
                crate::gen::cap(&ns),
                g.render(),
                crate::gen::cap(&ps)
            ));
            cases.push(((*g).clone(), hs, ks, ns, ps));
            // the same for fields: a rejected field may carry what typeshare would refuse on a field it shares
            let (ss, kf, ff, bf) = (stems.fresh(&mut rng), stems.fresh(&mut rng), stems.fresh(&mut rng), stems.fresh(&mut rng));
            src.push_str(&format!(
                "#[typeshare]\npub struct {} {{\n    pub {kf}: u8,\n    #[cfg({})]\n    #[serde(flatten)]\n    pub {ff}: RejectedOther,\n    #[cfg({})]\n    pub {bf}: u64,\n}}\n",
                crate::gen::cap(&ss),
                g.render(),
                g.render()
            ));
            cases.push(((*g).clone(), ss, kf, ff, bf));
        }
        src.push_str("#[typeshare]\npub struct RejectedOther { pub z: u8 }\n");
        let files = vec![SrcFile { path: "src/lib.rs".into(), source: src.clone() }];
        let tos: Vec<String> = t.iter().map(|s| s.to_string()).collect();
        let out = run_lib(&files, LangId::Ts, &LangCfg::default(), false, &tos);
        rep.count("library_runs", 1);
        rep.eval(1);
        rep.cell(format!("rejected-payload-variants|T{}|{}", t.len(), out.kind()));
        match &out {
            LibOutcome::Ok(_) => {
                let Some(present) = present_stems(out.single().unwrap_or("")) else {
                    rep.inconclusive("typescript-output-not-parsed", json!({"workload": "rejected-payload-variants"}));
                    continue;
                };
                for (g, hs, ks, ns, ps) in &cases {
                    rep.count("decisions_rejected_payload_variants", 1);
                    if !present.contains(hs) || !present.contains(ks) || present.contains(ns) || present.contains(ps) {
                        rep.violate(
                            "C13|library|variant|enum-with-rejected-payload-variants|wrong-members".to_string(),
                            format!("enum whose data variants are guarded by cfg({}) with target list {t:?}: expected the enum with its unit variant only", g.render()),
                            json!({"cfg": g.render(), "target_os": t, "source": src, "output": out.single()}),
                        );
                    }
                }
            }
            LibOutcome::Panic { .. } => rep.inconclusive("typeshare-panic (reported by C07)", json!({"workload": "rejected-payload-variants"})),
            other => {
                rep.violate(
                    "C13|library|variant|enum-with-rejected-payload-variants|not-generated".to_string(),
                    format!("un-guarded enums whose data variants are all rejected by the target list {t:?} are not generated: {}", other.describe()),
                    json!({"target_os": t, "source": src, "outcome": other.describe()}),
                );
            }
        }
    }
}

pub fn run(ctx: &Ctx) -> (Spec, Report) {
    let lists = target_lists();
    let quick = ctx.tier == crate::report::Tier::Quick;
    // exhaustive enumeration
    let exprs = enumerate(3, true);
    let n3 = exprs.len();
    let batch = 800usize;
    let mut units: Vec<(usize, Vec<Vec<Cfg>>)> = vec![];
    for level in 0..5 {
        if level == 0 {
            // one expression per file; quick: depth <= 2 only for the file level
            let sel: Vec<&Cfg> = exprs.iter().filter(|e| !quick || e.depth() <= 2).collect();
            for ch in sel.chunks(64) {
                for e in ch {
                    units.push((0, vec![vec![(*e).clone()]]));
                }
            }
        } else {
            for ch in exprs.chunks(batch) {
                units.push((level, ch.iter().map(|e| vec![e.clone()]).collect()));
            }
        }
    }
    let mut exhaustive_d4 = 0usize;
    if !quick {
        // depth 4 over the reduced alphabet at type level, other levels on a seeded 5 %
        let e4: Vec<Cfg> = enumerate(4, false).into_iter().filter(|e| e.depth() == 4).collect();
        exhaustive_d4 = e4.len();
        for ch in e4.chunks(batch) {
            units.push((1, ch.iter().map(|e| vec![e.clone()]).collect()));
        }
        let mut rng = Rng::derive(ctx.seed, "C13-d4-sample", 0);
        for level in 2..5 {
            let sample: Vec<Vec<Cfg>> = e4.iter().filter(|_| rng.chance(1, 20)).map(|e| vec![e.clone()]).collect();
            for ch in sample.chunks(batch) {
                units.push((level, ch.to_vec()));
            }
        }
    }
    // random deep expressions and several cfg attributes on one element
    let n_random = ctx.tier.pick(6000, 200_000);
    {
        let mut rng = Rng::derive(ctx.seed, "C13-random", 0);
        for level in 1..5 {
            let mut groups = vec![];
            for _ in 0..(n_random / 4) {
                let k = *rng.pick(&[1usize, 1, 2, 2, 3]);
                groups.push((0..k).map(|_| random_cfg(&mut rng, 4)).collect::<Vec<_>>());
            }
            for ch in groups.chunks(batch) {
                units.push((level, ch.to_vec()));
            }
        }
        for _ in 0..ctx.tier.pick(200, 3000) {
            let k = *rng.pick(&[1usize, 2, 2]);
            units.push((0, vec![(0..k).map(|_| random_cfg(&mut rng, 3)).collect()]));
        }
    }
    let units_ref = &units;
    let lists_ref = &lists;
    let seed = ctx.seed;
    let mut rep = par_shards(ctx.threads, units.len(), |u| {
        let (level, groups) = &units_ref[u];
        let mut rng = Rng::derive(seed, "C13-unit", u as u64);
        let mut rep = Report::new();
        run_groups_lib(*level, groups, &mut rng, &mut rep, lists_ref);
        if u % 997 == 0 {
            rep.sample(json!({"level": LEVELS[*level], "cfg": groups[0].iter().map(|c| c.render()).collect::<Vec<_>>(), "target_lists": 16}));
        }
        rep
    });
    rep.count("expressions_exhaustive_depth_le_3", n3 as u64);
    rep.count("expressions_exhaustive_depth_4_reduced_alphabet", exhaustive_d4 as u64);

    // the real binary: --target-os a b, -t a, the documented comma form, and no option at all
    let n_cli = ctx.tier.pick(60, 500);
    let cli = ctx.cli.clone();
    let scratch = ctx.scratch("cli");
    let r2 = par_shards(ctx.threads, n_cli, |i| {
        let mut rep = Report::new();
        let mut rng = Rng::derive(seed, "C13-cli", i as u64);
        let level = 1 + rng.below(4);
        let groups: Vec<Vec<Cfg>> = (0..40).map(|_| vec![random_cfg(&mut rng, 3)]).collect();
        let mut stems = Stems::default();
        let (src, st) = build_source(level, &groups, &mut stems, &mut rng);
        let dir = scratch.join(format!("c{i}"));
        write_tree(&dir, &[SrcFile { path: "src/lib.rs".into(), source: src.clone() }]);
        let lists = target_lists();
        let t = lists[rng.below(16)].clone();
        let forms: Vec<(&str, Vec<String>)> = if t.is_empty() {
            vec![("no-option", vec![])]
        } else {
            let mut long = vec!["--target-os".to_string()];
            long.extend(t.iter().map(|s| s.to_string()));
            let mut short = vec!["-t".to_string()];
            short.extend(t.iter().map(|s| s.to_string()));
            let mut forms = vec![("space-separated", long), ("short-option", short), ("comma-separated", vec![format!("--target-os={}", t.join(","))])];
            // the same set spelled with a repeated name in the middle, with an empty entry, and as several options:
            // T is a set, none of these spellings may change it
            let mut rep_list: Vec<String> = t.iter().map(|s| s.to_string()).collect();
            rep_list.insert(rng.below(rep_list.len()) + 1, t[0].to_string());
            if rep_list.len() > 2 {
                let last = rep_list.len() - 1;
                rep_list.swap(1, last); // a new name after the repetition
            }
            forms.push(("repeated-entry", vec![format!("--target-os={}", rep_list.join(","))]));
            let mut rep_space = vec!["-t".to_string()];
            rep_space.extend(rep_list.iter().cloned());
            forms.push(("repeated-entry-space-separated", rep_space));
            let mut with_empty: Vec<String> = t.iter().map(|s| s.to_string()).collect();
            with_empty.insert(rng.below(with_empty.len() + 1), String::new());
            forms.push(("empty-entry", vec![format!("--target-os={}", with_empty.join(","))]));
            let mut several = vec![];
            for x in t.iter() {
                several.push("-t".to_string());
                several.push(x.to_string());
            }
            forms.push(("one-option-per-name", several));
            forms
        };
        for (fname, extra) in forms {
            let out = dir.join(format!("out-{fname}.ts"));
            let mut args = vec!["--lang".to_string(), "typescript".into(), "--output-file".into(), out.to_string_lossy().into_owned()];
            // options taking several values must not swallow the directory
            let mut a2 = vec!["src".to_string()];
            a2.extend(extra);
            args.extend(a2);
            let o = run_bin(BinRun { cli: &cli, args, env: vec![], cwd: &dir, strace: None, wall_limit: Duration::from_secs(30) });
            rep.count("cli_runs", 1);
            if !o.ok() {
                rep.inconclusive("cli-run-failed", json!({"stderr": o.stderr.chars().take(300).collect::<String>(), "form": fname}));
                continue;
            }
            let text = std::fs::read_to_string(&out).unwrap_or_default();
            let Some(present) = present_stems(&text) else {
                rep.inconclusive("typescript-output-not-parsed", json!({"form": fname}));
                continue;
            };
            judge(level, &groups, &st, &t, &present, &format!("cli-{fname}"), &mut rep, &src);
        }
        let _ = std::fs::remove_dir_all(&dir);
        rep
    });
    rep.merge(r2);
    two_levels(&mut rep, &lists);
    same_named_alternatives(&mut rep, &lists);
    rejected_payload_variants(&mut rep, &lists);
    file_and_member_levels(&mut rep, &lists);
    let _ = std::fs::remove_dir_all(&scratch);
    let spec = Spec {
        level: "exploration",
        rule: format!(
            "cfg expressions over any/all/not with leaves target_os=a|b|c, feature, unix: all {n3} expressions of depth <= 3 (depth 1 complete, deeper levels pair one deep child with a leaf in both child orders) x all 16 target lists over {{a,b,c,d}} x 5 attachment levels (file level: depth <= 2 in quick), a quarter of the files writing `cfg (` / `cfg<newline>(`; thorough adds all {exhaustive_d4} depth-4 expressions over the reduced alphabet at type level (5 % at the other levels); plus un-guarded untagged enums whose only data variants are rejected and structs whose rejected fields carry serde(flatten) / u64 (6 guards x 15 target lists: the item remains, without those members); plus 98 two-level cases (a guarded field inside a guarded struct variant / struct, 7 x 7 guards) x 16 target lists; plus {n_random} random depth-4 expressions incl. two deep children and 1-3 cfg attributes per element, and {n_cli} trees through the real binary with --target-os a b / -t a b / --target-os=a,b / a repeated name in the middle / an empty entry / one -t per name / no option; decision read from generated TypeScript; a cell is distinct by (level, expression shape, |T|, expected decision)"
        ),
        assumptions: vec![
            "the oracle is the rule as worded in the property: N = names under any not(...), P = the others, over all cfg attributes of the element".into(),
            "presence is read from generated TypeScript by stem".into(),
        ],
        exhaustive: Some(true),
    };
    (spec, rep)
}
