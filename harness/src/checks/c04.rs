//! C04 — a generated field is optional iff the Rust field is Option<T> or carries bare serde(default);
//! the marker never changes the underlying type. Oracle: model table + metamorphic comparison with a
//! required sibling of the same type T in the same definition.
use crate::checks::broad::{run_rounds, usable, Case, Gen};
use crate::facts::{principal_def, variant_helper};
use crate::ir::{DefKind, Payload, TypeExpr};
use crate::report::{Ctx, Report, Spec};
use crate::rng::Rng;
use crate::sut::{LangCfg, LangId, SrcFile, ALL_LANGS};
use serde_json::json;
use std::collections::BTreeSet;

#[derive(Clone, Debug)]
struct Slot {
    /// base type T as Rust text
    t: String,
    /// 0 = T, 1 = Option<T>, 2 = Option<Option<T>>
    opt: u8,
    default: u8, // 0 none, 1 bare #[serde(default)], 2 merged with rename, 3 merged with skip_serializing_if
    wrap: u8,    // 0 none, 1 Box<..> outside, 2 Arc inside the option, 3 both
    ident: String,
    /// the whole group carries a per-language type override (`#[typeshare(swift(type = ..), ..)]`): the type is replaced,
    /// optionality is still decided by Option / serde(default)
    ovr: bool,
}

impl Slot {
    fn ty(&self) -> String {
        let inner = if self.wrap & 2 != 0 { format!("Arc<{}>", self.t) } else { self.t.clone() };
        let o = match self.opt {
            0 => inner,
            1 => format!("Option<{inner}>"),
            _ => format!("Option<Option<{inner}>>"),
        };
        if self.wrap & 1 != 0 {
            format!("Box<{o}>")
        } else {
            o
        }
    }
    fn attrs(&self) -> String {
        let d = match self.default {
            0 => String::new(),
            1 => "#[serde(default)]\n".into(),
            2 => format!("#[serde(rename = \"{}Renamed\", default)]\n", self.ident),
            3 => "#[serde(skip_serializing_if = \"is_default\", default)]\n".into(),
            // serde arguments that have nothing to do with optionality: the field stays as required as its type says
            4 => "#[serde(skip_serializing_if = \"is_default\")]\n".into(),
            5 => format!("#[serde(rename = \"{}Renamed\", skip_serializing_if = \"Vec::is_empty\")]\n", self.ident),
            _ => "#[serde(alias = \"otherName\", deserialize_with = \"de_helper\")]\n".into(),
        };
        if self.ovr {
            format!("{d}#[typeshare(swift(type = \"OvrT\"), kotlin(type = \"OvrT\"), typescript(type = \"OvrT\"), go(type = \"OvrT\"), scala(type = \"OvrT\"))]\n")
        } else {
            d
        }
    }
    fn optional(&self) -> bool {
        self.opt > 0 || self.has_default()
    }
    fn has_default(&self) -> bool {
        matches!(self.default, 1..=3)
    }
}

#[derive(Clone, Debug)]
struct Model {
    /// groups: each group = slots over one base type; slot 0 is the required sibling
    struct_groups: Vec<Vec<Slot>>,
    variant_groups: Vec<Vec<Slot>>,
    /// newtype variants: (variant ident, base, opt)
    newtypes: Vec<(String, String, u8)>,
    /// aliases: (ident, base, opt)
    aliases: Vec<(String, String, u8)>,
    generic: bool,
}

const BASES: [&str; 22] = [
    // an Option inside the type (element, map value, nested generic argument) says nothing about the field
    "Vec<Option<u32>>", "HashMap<String, Option<Leaf>>", "Vec<Vec<Option<String>>>",
    "u32", "String", "bool", "f64", "I54", "char", "()", "Vec<u8>", "Vec<String>", "HashMap<String, u32>", "[u16; 2]", "Leaf", "Vec<Leaf>", "HashMap<String, Vec<Leaf>>",
    // slices: written like Vec<T> by every backend, but not what Go's `no_pointer_slice` is about
    "&'static [u16]", "Box<[Leaf]>", "&'static [Leaf]",
    // user types whose names are reserved words of a target language (Swift escapes them)
    "Type", "Vec<Protocol>",
];

fn gen_model(rng: &mut Rng, exhaustive_index: Option<usize>) -> Model {
    let generic = rng.chance(1, 4);
    let mut bases: Vec<String> = BASES.iter().map(|s| s.to_string()).collect();
    if generic {
        bases.push("T".into());
        bases.push("Vec<T>".into());
    }
    let mut counter = 0;
    let mut slots_for = |base: &str, rng: &mut Rng, all: bool| -> Vec<Slot> {
        let mut v = vec![];
        // one group in six is overridden as a whole (every backend that has overrides gets one); how its Option<T> slots are
        // judged depends on the backend, see `judge_group`
        let ovr = !all && rng.chance(1, 6);
        let mut push = |opt: u8, default: u8, wrap: u8, v: &mut Vec<Slot>| {
            counter += 1;
            v.push(Slot { t: base.to_string(), opt, default, wrap, ident: format!("f{counter}"), ovr });
        };
        push(0, 0, 0, &mut v); // required sibling
        if all {
            for opt in 0..3u8 {
                for default in 0..7u8 {
                    if opt == 0 && default == 0 {
                        continue;
                    }
                    push(opt, default, 0, &mut v);
                }
            }
            for wrap in 1..4u8 {
                push(1, 0, wrap, &mut v);
                push(0, 1, wrap, &mut v);
            }
        } else {
            for _ in 0..rng.range(1, 4) {
                push(rng.below(3) as u8, rng.below(7) as u8, rng.below(4) as u8, &mut v);
            }
        }
        v
    };
    let pick = |rng: &mut Rng, bases: &Vec<String>| bases[rng.below(bases.len())].clone();
    let mut struct_groups = vec![];
    match exhaustive_index {
        Some(i) => {
            let b = bases[i % bases.len()].clone();
            struct_groups.push(slots_for(&b, rng, true));
        }
        None => {
            for _ in 0..rng.range(1, 3) {
                let b = pick(rng, &bases);
                struct_groups.push(slots_for(&b, rng, false));
            }
        }
    }
    let mut variant_groups = vec![];
    let b = match exhaustive_index {
        Some(i) => bases[(i / 2) % bases.len()].clone(),
        None => pick(rng, &bases),
    };
    variant_groups.push(slots_for(&b, rng, exhaustive_index.is_some() && exhaustive_index.unwrap() % 2 == 0));
    let mut newtypes = vec![];
    let mut aliases = vec![];
    for k in 0..3 {
        let b = pick(rng, &bases);
        newtypes.push((format!("Nreq{k}"), b.clone(), 0));
        newtypes.push((format!("Nopt{k}"), b.clone(), 1));
        let ab: Vec<String> = bases.iter().filter(|x| !x.contains('T') || x.contains("Vec<u8>") || x.starts_with("HashMap")).filter(|x| **x != "T" && **x != "Vec<T>").cloned().collect();
        let b2 = ab[rng.below(ab.len())].clone();
        aliases.push((format!("AliasReq{k}"), b2.clone(), 0));
        aliases.push((format!("AliasOpt{k}"), b2, 1));
    }
    Model { struct_groups, variant_groups, newtypes, aliases, generic }
}

fn render(m: &Model) -> String {
    let g = if m.generic { "<T>" } else { "" };
    let mut s = String::from("#[typeshare]\npub struct Leaf { pub v: u8 }\n#[typeshare]\npub struct Type { pub t: u8 }\n#[typeshare]\npub struct Protocol { pub p: u8 }\n\n");
    s.push_str(&format!("#[typeshare]\npub struct Holder{g} {{\n"));
    for grp in &m.struct_groups {
        for sl in grp {
            s.push_str(&sl.attrs());
            s.push_str(&format!("    pub {}: {},\n", sl.ident, sl.ty()));
        }
    }
    s.push_str("}\n\n");
    s.push_str(&format!("#[typeshare]\n#[serde(tag = \"t\", content = \"c\")]\npub enum Choice{g} {{\n    Rec {{\n"));
    for grp in &m.variant_groups {
        for sl in grp {
            s.push_str(&sl.attrs());
            s.push_str(&format!("        {}: {},\n", sl.ident, sl.ty()));
        }
    }
    s.push_str("    },\n");
    for (id, b, opt) in &m.newtypes {
        let t = if *opt == 1 { format!("Option<{b}>") } else { b.clone() };
        s.push_str(&format!("    {id}({t}),\n"));
    }
    s.push_str("}\n\n");
    for (id, b, opt) in &m.aliases {
        let t = if *opt == 1 { format!("Option<{b}>") } else { b.clone() };
        s.push_str(&format!("#[typeshare]\npub type {id} = {t};\n"));
    }
    s
}

fn expected_markers(lang: LangId, cfg: &LangCfg, sl: &Slot) -> BTreeSet<String> {
    let mut m = BTreeSet::new();
    if !sl.optional() {
        return m;
    }
    let add = |m: &mut BTreeSet<String>, xs: &[&str]| {
        for x in xs {
            m.insert(x.to_string());
        }
    };
    match lang {
        LangId::Ts => {
            add(&mut m, &["?"]);
            if sl.opt == 2 {
                add(&mut m, &["|null"]);
            }
        }
        LangId::Kotlin => add(&mut m, &["?", "=null"]),
        LangId::Swift => add(&mut m, &["?"]),
        LangId::Scala => add(&mut m, &["Option", "=None"]),
        // `[go] no_pointer_slice`: Option<Vec<T>> is the nil-able slice itself, still omitted when empty
        LangId::Go if cfg.no_pointer_slice && sl.opt == 1 && sl.t.starts_with("Vec<") => add(&mut m, &["omitempty"]),
        LangId::Go => add(&mut m, &["ptr", "omitempty"]),
        LangId::Python => add(&mut m, &["Optional", "default=None"]),
    }
    m
}

/// strip the nullable layers a doubly optional type keeps inside the type (Kotlin `T??`, Go `**T`, ...)
fn strip_nullable(t: &TypeExpr) -> TypeExpr {
    match t {
        TypeExpr::Nullable(x) => strip_nullable(x),
        TypeExpr::Union(parts) => {
            let rest: Vec<TypeExpr> = parts.iter().filter(|p| !matches!(p, TypeExpr::Name(n, _) if n == "null" || n == "undefined" || n == "None")).cloned().collect();
            if rest.len() == 1 {
                strip_nullable(&rest[0])
            } else {
                TypeExpr::Union(rest)
            }
        }
        other => other.clone(),
    }
}

fn check_group(case: &Case<Model>, rep: &mut Report, position: &str, grp: &[Slot], ffields: &[crate::ir::Field], offset: usize) {
    let lname = case.lang.name();
    let Some(req) = ffields.get(offset) else { return };
    let req_ty = strip_nullable(&req.ty);
    for (k, sl) in grp.iter().enumerate() {
        let Some(ff) = ffields.get(offset + k) else {
            rep.violate(format!("C04|{lname}|{position}|field-missing"), format!("field {} missing", sl.ident), case.detail(json!(null)));
            return;
        };
        // Option<T> under a type override: Kotlin, Swift, Scala and Go print the override text in place of `T?` / `*T`, so
        // what the field looks like is the user's own text (outside the property's quantifier, DESIGN 10.2). TypeScript keeps
        // the marker outside the type, and Python has no overrides: those two are judged as usual
        if sl.ovr && sl.opt > 0 && !matches!(case.lang, LangId::Ts | LangId::Python) {
            rep.count("overridden_option_fields_left_to_the_user", 1);
            continue;
        }
        rep.eval(1);
        rep.count(&format!("fields_checked_{lname}"), 1);
        let cls = format!("opt{}|default{}|wrap{}", sl.opt, sl.default, sl.wrap);
        if sl.optional() {
            rep.cell(format!("{lname}|{position}|{cls}|{}{}", base_class(&sl.t), if case.cfg.no_pointer_slice { "|no_pointer_slice" } else { "" }));
        }
        if case.cfg.no_pointer_slice {
            rep.count("go_fields_checked_under_no_pointer_slice", 1);
        }
        let want = expected_markers(case.lang, case.cfg, sl);
        // markers that do not concern optionality are ignored
        let relevant = ["?", "|null", "|undefined", "=null", "=None", "=_", "ptr", "omitempty", "Option", "Optional", "default=None", "=default"];
        let got: BTreeSet<String> = ff.markers.iter().filter(|m| relevant.contains(&m.as_str())).cloned().collect();
        if got != want {
            let dir = if sl.optional() { "optional-field-not-marked" } else { "required-field-marked-optional" };
            rep.violate(
                format!("C04|{lname}|{position}|{dir}|opt{}|{}", sl.opt, if sl.has_default() { "default" } else { "no-default" }),
                format!("{position} `{}: {}` {}: markers {:?}, expected {:?}", sl.ident, sl.ty(), sl.attrs().trim(), got, want),
                case.detail(json!({"field": sl.ident, "rust_type": sl.ty(), "attrs": sl.attrs(), "markers": got, "expected": want})),
            );
        }
        let t = strip_nullable(&ff.ty);
        if t != req_ty {
            rep.violate(
                format!("C04|{lname}|{position}|type-changed-by-marker|opt{}|{}", sl.opt, if sl.has_default() { "default" } else { "no-default" }),
                format!("{position} `{}: {}`: type {} differs from the required sibling's {}", sl.ident, sl.ty(), t.show(), req_ty.show()),
                case.detail(json!({"field": sl.ident, "type": t.show(), "sibling_type": req_ty.show()})),
            );
        }
    }
}

fn base_class(t: &str) -> &'static str {
    if t.contains("Leaf") || t.contains("Type") || t.contains("Protocol") {
        "user"
    } else if t.contains('T') && !t.contains("String") {
        "generic"
    } else if t.contains('<') || t.contains('[') {
        "container"
    } else {
        "primitive"
    }
}

fn judge(case: &Case<Model>, rep: &mut Report) {
    let lname = case.lang.name();
    let Some(file) = usable(case, "C04", rep, true) else { return };
    let m = case.model;
    // struct fields
    let holder = file.defs.iter().find(|d| d.name.ends_with("Holder") && d.kind == DefKind::Struct);
    match holder {
        Some(h) => {
            let mut off = 0;
            for g in &m.struct_groups {
                check_group(case, rep, "struct-field", g, &h.fields, off);
                off += g.len();
            }
        }
        None => rep.violate(format!("C04|{lname}|holder-missing"), "struct Holder not generated".to_string(), case.detail(json!(null))),
    }
    // struct-variant fields
    let choice = file.defs.iter().find(|d| d.name.ends_with("Choice") && d.kind == DefKind::TaggedEnum);
    let Some(choice) = choice else {
        rep.violate(format!("C04|{lname}|choice-missing"), "enum Choice not generated".to_string(), case.detail(json!(null)));
        return;
    };
    let vfields: Option<Vec<crate::ir::Field>> = if case.lang == LangId::Ts {
        choice.variants.first().and_then(|v| match &v.payload {
            Payload::Struct(f) => Some(f.clone()),
            _ => None,
        })
    } else {
        file.defs.iter().find(|d| d.kind == DefKind::Struct && d.name.contains("ChoiceRecInner")).map(|d| d.fields.clone())
    };
    match vfields {
        Some(vf) => {
            let mut off = 0;
            for g in &m.variant_groups {
                check_group(case, rep, "struct-variant-field", g, &vf, off);
                off += g.len();
            }
        }
        None => rep.violate(format!("C04|{lname}|variant-helper-missing"), "fields of Choice::Rec not found".to_string(), case.detail(json!(null))),
    }
    // newtype payloads: pairs (required, optional) of one base type
    for pair in m.newtypes.chunks(2) {
        let find = |id: &str| choice.variants.iter().find(|v| v.ident.to_lowercase().ends_with(&id.to_lowercase()) || v.wire_name.as_deref() == Some(id));
        let (Some(vr), Some(vo)) = (find(&pair[0].0), find(&pair[1].0)) else { continue };
        let (Payload::Newtype(tr), Payload::Newtype(to)) = (&vr.payload, &vo.payload) else { continue };
        rep.eval(1);
        rep.count(&format!("payloads_checked_{lname}"), 1);
        rep.cell(format!("{lname}|newtype-payload|{}", base_class(&pair[0].1)));
        let is_nullable = |t: &TypeExpr, markers: &BTreeSet<String>| matches!(t, TypeExpr::Nullable(_)) || markers.contains("?") || markers.contains("Optional") || markers.contains("Option");
        // Go payloads of struct type are pointers for both variants (implementation detail of the accessor), so Go is judged on type equality only
        if case.lang != LangId::Go {
            if !is_nullable(to, &vo.markers) {
                rep.violate(format!("C04|{lname}|newtype-payload|optional-payload-not-marked"), format!("payload Option<{}> of {} is not optional: {}", pair[1].1, pair[1].0, to.show()), case.detail(json!({"variant": pair[1].0})));
            }
            if is_nullable(tr, &vr.markers) {
                rep.violate(format!("C04|{lname}|newtype-payload|required-payload-marked-optional"), format!("payload {} of {} is optional: {}", pair[0].1, pair[0].0, tr.show()), case.detail(json!({"variant": pair[0].0})));
            }
        }
        if strip_nullable(tr) != strip_nullable(to) {
            rep.violate(format!("C04|{lname}|newtype-payload|type-changed-by-marker"), format!("payload types differ: {} vs {}", tr.show(), to.show()), case.detail(json!({"variants": [pair[0].0.clone(), pair[1].0.clone()]})));
        }
    }
    // aliases
    for pair in m.aliases.chunks(2) {
        let (dr, dopt) = (principal_alias(file, &pair[0].0), principal_alias(file, &pair[1].0));
        let (Some(dr), Some(dopt)) = (dr, dopt) else {
            // Go prints `type X struct{}` for an alias of (): parsed as a struct
            continue;
        };
        let (Some(tr), Some(to)) = (&dr.alias_target, &dopt.alias_target) else { continue };
        rep.eval(1);
        rep.count(&format!("aliases_checked_{lname}"), 1);
        rep.cell(format!("{lname}|alias|{}", base_class(&pair[0].1)));
        let nullable = |d: &crate::ir::Def, t: &TypeExpr| matches!(t, TypeExpr::Nullable(_)) || d.alias_markers.contains("|undefined") || d.alias_markers.contains("?");
        // Go with no_pointer_slice: the slice type is its own nil-able form (documented meaning of the option)
        let nil_able_slice = case.lang == LangId::Go && case.cfg.no_pointer_slice && pair[1].1.starts_with("Vec<");
        if !nullable(dopt, to) && !nil_able_slice {
            rep.violate(format!("C04|{lname}|alias|optional-alias-not-marked"), format!("alias {} = Option<{}> is not optional: {}", pair[1].0, pair[1].1, to.show()), case.detail(json!({"alias": pair[1].0})));
        }
        if nullable(dr, tr) {
            rep.violate(format!("C04|{lname}|alias|required-alias-marked-optional"), format!("alias {} = {} is optional: {}", pair[0].0, pair[0].1, tr.show()), case.detail(json!({"alias": pair[0].0})));
        }
        if strip_nullable(tr) != strip_nullable(to) {
            rep.violate(format!("C04|{lname}|alias|type-changed-by-marker"), format!("alias targets differ: {} vs {}", tr.show(), to.show()), case.detail(json!({"aliases": [pair[0].0.clone(), pair[1].0.clone()]})));
        }
    }
    if case.index < 2 {
        rep.sample(json!({"language": lname, "source": case.source(), "holder": holder.map(|h| h.to_json())}));
    }
    let _ = (principal_def, variant_helper);
}

fn principal_alias<'a>(file: &'a crate::ir::File, id: &str) -> Option<&'a crate::ir::Def> {
    file.defs.iter().find(|d| d.kind == DefKind::Alias && d.name.ends_with(id))
}

pub fn run(ctx: &Ctx) -> (Spec, Report) {
    let n_exh = 2 * (BASES.len() + 2) * 2;
    let n = n_exh + ctx.tier.pick(4000, 40_000);
    let rep = run_rounds(
        ctx,
        "C04",
        n,
        false,
        |rng: &mut Rng, i| {
            let m = gen_model(rng, if i < n_exh { Some(i) } else { None });
            let src = render(&m);
            let src = if rng.chance(1, 4) { crate::model::relayout(&src, rng.range(1, 4)) } else { src };
            let langs: Vec<(LangId, LangCfg)> = ALL_LANGS
                .iter()
                // generic tagged enums are not supported by the Go and Python backends
                .filter(|l| !(m.generic && matches!(l, LangId::Go | LangId::Python)))
                .map(|l| {
                    let mut c = LangCfg::basic(*l);
                    if matches!(l, LangId::Swift | LangId::Kotlin) && rng.chance(1, 3) {
                        c.prefix = "Pf".into();
                    }
                    if *l == LangId::Go {
                        c.no_pointer_slice = rng.coin();
                    }
                    // Python wraps types with custom (de)serialisers (bytes, datetime) in Annotated[..]: the optional
                    // idiom has to survive that wrapper
                    if *l == LangId::Python && rng.coin() {
                        c.type_mappings.insert("Vec<u8>".into(), "bytes".into());
                    }
                    (*l, c)
                })
                .collect();
            Gen { model: m, files: vec![SrcFile { path: "src/lib.rs".into(), source: src }], multi: false, langs }
        },
        judge,
    );
    let spec = Spec {
        level: "exploration",
        rule: format!("{n} programs: for each base type T (primitives, containers incl. slices and containers of optional elements, user types, generic parameters) the full product {{T, Option<T>, Option<Option<T>>}} x {{no default, #[serde(default)], merged with rename, merged with skip_serializing_if, and three attribute sets without `default` (skip_serializing_if alone, with rename, alias + deserialize_with)}} plus Box/Arc-wrapped forms and groups whose type is replaced by a per-language type override (first {n_exh} programs enumerate it per base type), then random compositions; positions: struct field, struct-variant field, newtype payload, alias; 6 languages (Go with and without `no_pointer_slice`); oracle: marker set per language idiom from `is_option || has_default`, and type equality with a required sibling of the same T; distinct = (language, position, opt/default/wrap cell, base-type class)"),
        assumptions: vec![
            "double options must stay distinguishable only in TypeScript (`?` + `| null`), as the property says".into(),
            "Go newtype payloads are judged on type equality only: the accessor's pointer is an implementation detail of struct-typed payloads".into(),
        ],
        exhaustive: Some(false),
    };
    (spec, rep)
}
