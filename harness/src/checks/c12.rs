//! C12 — every helper name typeshare introduces into a file is defined or imported there.
//! Oracle: set inclusion use ⊆ defined ∪ imported, with triggers placed by the model.
use crate::checks::broad::{run_rounds, usable, Case, Gen};
use crate::ir::{Def, DefKind, Payload, TypeExpr};
use crate::report::{par_shards, Ctx, Report, Spec};
use crate::rng::Rng;
use crate::sut::{cli_args, read_dir_files, run_bin, write_tree, BinRun, LangCfg, LangId, SrcFile, ALL_LANGS};
use serde_json::json;
use std::collections::{BTreeSet, HashMap};
use std::time::Duration;

#[derive(Clone, Debug)]
struct Model {
    trigger: &'static str,
    position: &'static str,
    depth: usize,
    combined: bool,
    generic: bool,
    /// serde(default) on the subject field (field / struct-variant-field positions)
    default: bool,
    /// a per-language type override on the subject field: it replaces the type for that one backend only, every other
    /// backend still writes the Rust type (field / struct-variant-field / generic-argument positions)
    lang_override: Option<&'static str>,
}

const OVERRIDES: [&str; 5] = ["kotlin(type = \"kotlin.Any\")", "swift(type = \"Int\")", "typescript(type = \"number\")", "scala(type = \"Long\")", "go(type = \"int\")"];

const TRIGGERS: [&str; 11] = ["()", "u8", "u16", "u32", "U53", "OffsetDateTime", "Vec<u8>", "T", "HashMap<String, u8>", "HashMap<u16, String>", "HashMap<u32, Vec<bool>>"];
const POSITIONS: [&str; 6] = ["field", "struct-variant-field", "payload", "alias", "generic-argument", "skipped-field"];

fn nest(t: &str, depth: usize, rng: &mut Rng) -> String {
    let mut s = t.to_string();
    for _ in 0..depth {
        s = match rng.below(5) {
            0 => format!("Vec<{s}>"),
            1 => format!("Option<{s}>"),
            2 => format!("HashMap<String, {s}>"),
            3 => format!("[{s}; 2]"),
            _ => format!("Box<{s}>"),
        };
    }
    s
}

fn render(m: &Model, rng: &mut Rng) -> String {
    // only the item that mentions T is generic, so that its backend code alone has to declare the parameter
    let g = if m.generic && matches!(m.position, "field" | "generic-argument" | "skipped-field") { "<T>" } else { "" };
    let ty = nest(m.trigger, m.depth, rng);
    let mut extra_fields = String::new();
    if m.combined {
        for t in ["()", "u16", "Option<u32>", "Vec<U53>", "HashMap<String, Vec<()>>"] {
            extra_fields.push_str(&format!("    pub c{}: {},\n", extra_fields.len(), t));
        }
    }
    let mut s = String::from("#[typeshare]\npub struct Plain { pub s: String, pub b: bool, pub n: i32 }\n#[typeshare]\npub struct Wrapper<X> { pub x: X }\n\n");
    let field_ty = match m.position {
        "field" => ty.clone(),
        "generic-argument" => format!("Wrapper<{ty}>"),
        // the subject only occurs in a field that is not shared (the typed-id pattern): a parameter of the struct is then
        // still a parameter of the generated type and has to be declared like any other
        "skipped-field" => format!("std::marker::PhantomData<{ty}>"),
        _ => "String".to_string(),
    };
    let dflt = format!("{}{}", if m.default { "#[serde(default)]\n    " } else { "" }, m.lang_override.map(|o| format!("#[typeshare({o})]\n    ")).unwrap_or_default());
    let dflt = dflt.as_str();
    s.push_str(&format!("#[typeshare]\npub struct Holder{g} {{\n    pub first: i32,\n    {}pub subject: {field_ty},\n{extra_fields}}}\n\n", if m.position == "skipped-field" { "#[serde(skip)]\n    " } else if matches!(m.position, "field" | "generic-argument") { dflt } else { "" }));
    let ge = if m.generic && matches!(m.position, "struct-variant-field" | "payload") { "<T>" } else { "" };
    let sv = if m.position == "struct-variant-field" { ty.clone() } else { "bool".into() };
    let pl = if m.position == "payload" { ty.clone() } else { "String".into() };
    s.push_str(&format!("#[typeshare]\n#[serde(tag = \"t\", content = \"c\")]\npub enum Choice{ge} {{\n    Unit,\n    Rec {{ {}inner: {sv} }},\n    Pay({pl}),\n}}\n\n", if m.position == "struct-variant-field" { dflt.replace("\n    ", " ") } else { String::new() }));
    let al = if m.position == "alias" { ty } else { "Vec<String>".into() };
    let ga = if m.generic && m.position == "alias" { "<T>" } else { "" };
    s.push_str(&format!("#[typeshare]\npub type Shortcut{ga} = {al};\n"));
    s
}

fn names_of(d: &Def) -> Vec<String> {
    fn walk(t: &TypeExpr, out: &mut Vec<String>) {
        let mut v = vec![];
        t.names(&mut v);
        out.extend(v.into_iter().map(|s| s.to_string()));
    }
    let mut out = vec![];
    for f in &d.fields {
        walk(&f.ty, &mut out);
    }
    if let Some(t) = &d.alias_target {
        walk(t, &mut out);
    }
    if let Some(t) = &d.const_type {
        walk(t, &mut out);
    }
    for v in &d.variants {
        match &v.payload {
            Payload::Newtype(t) => walk(t, &mut out),
            Payload::Struct(fs) => {
                for f in fs {
                    walk(&f.ty, &mut out);
                }
            }
            Payload::None => {}
        }
    }
    out
}

fn judge(case: &Case<Model>, rep: &mut Report) {
    let lname = case.lang.name();
    let m = case.model;
    let Some(file) = usable(case, "C12", rep, false) else { return };
    rep.eval(1);
    rep.count(&format!("outputs_checked_{lname}"), 1);
    let dclass = match m.depth {
        0 => "0",
        1 => "1",
        _ => "2+",
    };
    rep.cell(format!("{lname}|{}|{}|depth{dclass}|combined={}|override={}", m.trigger, m.position, m.combined, m.lang_override.map(|o| o.split('(').next().unwrap_or("")).unwrap_or("none")));
    let sig = |helper: &str| format!("C12|{lname}|{helper}|trigger={}|position={}|depth={dclass}{}", m.trigger, m.position, if m.combined { "|combined" } else { "" });
    let mut used: BTreeSet<String> = BTreeSet::new();
    for d in &file.defs {
        used.extend(names_of(d));
    }
    rep.count("names_examined", used.len() as u64);
    match case.lang {
        LangId::Swift => {
            if used.contains("CodableVoid") {
                rep.count("helper_uses_swift_CodableVoid", 1);
                if !file.defs.iter().any(|d| d.name == "CodableVoid") {
                    rep.violate(sig("CodableVoid"), "CodableVoid is used but `struct CodableVoid` is not in the output".to_string(), case.detail(json!(null)));
                }
            }
        }
        LangId::Scala => {
            for a in ["UByte", "UShort", "UInt", "ULong"] {
                if used.contains(a) {
                    rep.count("helper_uses_scala_unsigned_alias", 1);
                    if !file.defs.iter().any(|d| d.name == a && d.kind == DefKind::Helper) {
                        rep.violate(sig("unsigned-alias"), format!("{a} is used but `type {a} = ..` is not defined in the package object"), case.detail(json!({"alias": a})));
                    }
                }
            }
        }
        LangId::Go => {
            for n in &used {
                if let Some((pkg, _)) = n.split_once('.') {
                    rep.count("helper_uses_go_package", 1);
                    if !file.imports.iter().any(|(p, _)| p.rsplit('/').next() == Some(pkg)) {
                        rep.violate(sig(&format!("import-{pkg}")), format!("{n} is used but package {pkg} is not imported"), case.detail(json!({"name": n})));
                    }
                }
            }
            let uses_json = file.defs.iter().any(|d| d.extra.iter().any(|(k, v)| k == "func" && (v == "UnmarshalJSON" || v == "MarshalJSON")));
            if uses_json && !file.imports.iter().any(|(p, _)| p == "encoding/json") {
                rep.violate(sig("import-json"), "(Un)MarshalJSON is generated but encoding/json is not imported".to_string(), case.detail(json!(null)));
            }
        }
        LangId::Ts => {
            let rv = file.defs.iter().find(|d| d.name == "ReviverFunc");
            let rp = file.defs.iter().find(|d| d.name == "ReplacerFunc");
            if rv.is_some() != rp.is_some() {
                rep.violate(sig("reviver-replacer-pair"), "only one of ReviverFunc / ReplacerFunc is defined".to_string(), case.detail(json!(null)));
            }
            if let Some(rv) = rv {
                rep.count("helper_uses_ts_reviver", 1);
                for (k, v) in &rv.extra {
                    if k == "key-test" {
                        let exists = file.defs.iter().any(|d| d.fields.iter().any(|f| f.wire_key == *v) || d.variants.iter().any(|x| matches!(&x.payload, Payload::Struct(fs) if fs.iter().any(|f| f.wire_key == *v))));
                        if !exists {
                            rep.violate(sig("reviver-key"), format!("ReviverFunc tests key {v:?} which no generated field has"), case.detail(json!({"key": v})));
                        }
                    }
                }
            }
            // the converse for fields whose whole type is the helper's type (bare, optional or doubly optional): the
            // declaration `at?: Date | null` is only true of parsed JSON if the reviver turns that key's string into a Date.
            // typeshare registers exactly these fields; Date / Uint8Array nested in containers are not revived (counted below)
            fn whole(t: &TypeExpr) -> Option<&str> {
                match t {
                    TypeExpr::Name(n, a) if a.is_empty() && (n == "Date" || n == "Uint8Array") => Some(n.as_str()),
                    TypeExpr::Nullable(x) => whole(x),
                    TypeExpr::Union(v) => {
                        let rest: Vec<&TypeExpr> = v.iter().filter(|x| !matches!(x, TypeExpr::Name(n, a) if a.is_empty() && (n == "null" || n == "undefined"))).collect();
                        if rest.len() == 1 {
                            whole(rest[0])
                        } else {
                            None
                        }
                    }
                    _ => None,
                }
            }
            let mut direct: Vec<(&str, &str)> = vec![]; // (wire key, helper type)
            for d in &file.defs {
                for f in &d.fields {
                    if let Some(h) = whole(&f.ty) {
                        direct.push((f.wire_key.as_str(), h));
                    }
                }
                for v in &d.variants {
                    if let Payload::Struct(fs) = &v.payload {
                        for f in fs {
                            if let Some(h) = whole(&f.ty) {
                                direct.push((f.wire_key.as_str(), h));
                            }
                        }
                    }
                }
            }
            for (key, h) in direct {
                rep.count("ts_fields_of_a_helper_type_checked", 1);
                let tested = rv.map(|r| r.extra.iter().any(|(k, v)| k == "key-test" && v == key)).unwrap_or(false);
                // Uint8Array fields are revived by value shape (an array of numbers), not by key
                if h == "Date" && !tested {
                    rep.violate(sig("reviver-missing-for-field"), format!("field {key:?} is declared as Date but {}", if rv.is_some() { "ReviverFunc does not test that key" } else { "no ReviverFunc / ReplacerFunc is generated" }), case.detail(json!({"key": key})));
                } else if h == "Uint8Array" && rv.is_none() {
                    rep.violate(sig("reviver-missing-for-field"), format!("field {key:?} is declared as Uint8Array but no ReviverFunc / ReplacerFunc is generated"), case.detail(json!({"key": key})));
                }
            }
            // a type that enters the output through a configured mapping onto a helper type (`Vec<u8>` -> Uint8Array here)
            // registers the helpers wherever it occurs - field, payload, alias target, nested in containers
            if used.contains("Uint8Array") && case.cfg.type_mappings.values().any(|v| v == "Uint8Array") {
                rep.count("ts_mapped_helper_type_outputs_checked", 1);
                if rv.is_none() || rp.is_none() {
                    rep.violate(sig("helpers-missing-for-mapped-type"), "Uint8Array (mapped from Vec<u8>) is used but ReviverFunc / ReplacerFunc are not generated".to_string(), case.detail(json!(null)));
                }
            }
            // strong form (informational): a typeshare-introduced Date / Uint8Array without helpers
            if (used.contains("Date") || used.contains("Uint8Array")) && rv.is_none() {
                rep.count("ts_date_or_bytes_type_without_helpers(informational)", 1);
            }
        }
        LangId::Python => {
            if let Some(py) = case.single_facts().and_then(|f| f.py.as_ref()) {
                // C12 is about names typeshare brings in. `Shortcut[T] = List[T]` (Python's spelling of a generic alias)
                // also leaves the *user's* name Shortcut unbound; that is outside this property (DESIGN 10.2, observations)
                let user_alias_unbound = m.generic && m.position == "alias";
                for n in py.unresolved.iter().filter(|n| !(user_alias_unbound && n.as_str() == "Shortcut")) {
                    rep.violate(sig(&format!("python-name-{}", if n.chars().next().map(|c| c.is_uppercase()).unwrap_or(false) { "Type" } else { "function" })), format!("name {n} is used but neither defined nor imported"), case.detail(json!({"name": n})));
                }
                rep.count("python_names_resolved_modules", 1);
                if let Some((ok, ty, msg)) = &py.exec {
                    rep.count("python_modules_imported", 1);
                    if !ok && ty == "NameError" && py.eager_undefined.is_empty() && !(user_alias_unbound && msg.contains("'Shortcut'")) {
                        rep.violate(sig("python-import-NameError"), format!("import fails: {msg}"), case.detail(json!({"error": msg})));
                    }
                    if !ok && (ty == "ImportError" || ty == "ModuleNotFoundError" || ty == "AttributeError") {
                        rep.violate(sig(&format!("python-import-{ty}")), format!("import fails: {ty}: {msg}"), case.detail(json!({"error": msg})));
                    }
                }
            }
        }
        LangId::Kotlin => {
            // Kotlin brings in Serializable / SerialName: imported whenever a package header is written
            let uses_ann = case.outcome.single().map(|t| t.contains("@Serializable")).unwrap_or(false);
            if uses_ann && file.package.is_some() && !file.imports.iter().any(|(p, n)| p == "kotlinx.serialization" && n.iter().any(|x| x == "Serializable")) {
                rep.violate(sig("import-Serializable"), "@Serializable used under a package header without its import".to_string(), case.detail(json!(null)));
            }
        }
    }
    if case.index < 2 {
        rep.sample(json!({"language": lname, "trigger": m.trigger, "position": m.position, "depth": m.depth, "source": case.source()}));
    }
}

pub fn run(ctx: &Ctx) -> (Spec, Report) {
    // exhaustive over trigger x position x depth 0..3, then random incl. combined
    let mut grid: Vec<(usize, usize, usize)> = vec![];
    for t in 0..TRIGGERS.len() {
        for p in 0..POSITIONS.len() {
            for d in 0..4 {
                grid.push((t, p, d));
            }
        }
    }
    // the grid seven times: plain, with serde(default) on the subject field, then once per per-language type override
    let n_grid1 = grid.len();
    let n_grid = 7 * n_grid1;
    let n = n_grid + ctx.tier.pick(4000, 40_000);
    let grid_ref = &grid;
    let mut rep = run_rounds(
        ctx,
        "C12",
        n,
        true,
        |rng: &mut Rng, i| {
            let (t, p, d) = if i < n_grid { grid_ref[i % n_grid1] } else { (rng.below(TRIGGERS.len()), rng.below(POSITIONS.len()), rng.below(5)) };
            let trigger = TRIGGERS[t];
            let m = Model { trigger, position: POSITIONS[p], depth: d, combined: i >= n_grid && rng.chance(1, 3), generic: trigger == "T", default: if i < n_grid { i >= n_grid1 && i < 2 * n_grid1 } else { rng.chance(1, 4) }, lang_override: if i < n_grid { if i >= 2 * n_grid1 { Some(OVERRIDES[i / n_grid1 - 2]) } else { None } } else if rng.chance(1, 4) { Some(*rng.pick(&OVERRIDES)) } else { None } };
            let mut r2 = Rng::new(rng.next_u64());
            let src = render(&m, &mut r2);
            let langs: Vec<(LangId, LangCfg)> = ALL_LANGS
                .iter()
                .filter(|l| !(trigger == "OffsetDateTime" && !matches!(l, LangId::Ts | LangId::Go | LangId::Python)))
                // Go has no notion of a generic enum / alias (it prints the parameter as if it were a type); Python declares TypeVars for them
                .filter(|l| !(m.generic && matches!(m.position, "struct-variant-field" | "payload" | "alias") && matches!(l, LangId::Go)))
                .map(|l| {
                    let mut c = LangCfg::basic(*l);
                    // where Scala puts its helper aliases depends on the shape of the package name
                    if *l == LangId::Scala {
                        c.package = rng.pick(&["com.verif.gen", "com.verif.gen", "pkg", "two.parts"]).to_string();
                    }
                    if trigger == "Vec<u8>" {
                        let mut tm = HashMap::new();
                        match l {
                            LangId::Ts => {
                                tm.insert("Vec<u8>".to_string(), "Uint8Array".to_string());
                            }
                            LangId::Python => {
                                tm.insert("Vec<u8>".to_string(), "bytes".to_string());
                            }
                            _ => {}
                        }
                        c.type_mappings = tm;
                    }
                    (*l, c)
                })
                .collect();
            Gen { model: m, files: vec![SrcFile { path: "src/lib.rs".into(), source: src }], multi: false, langs }
        },
        judge,
    );
    // multi-file Swift through the real binary: CodableVoid lives in the shared Codable.swift
    let n_cli = ctx.tier.pick(160, 1200);
    let cli = ctx.cli.clone();
    let scratch = ctx.scratch("swift-multi");
    let seed = ctx.seed;
    let r2 = par_shards(ctx.threads, n_cli, |i| {
        let mut rep = Report::new();
        let mut rng = Rng::derive(seed, "C12-swift-multi", i as u64);
        // 2-4 crates; which of them use `()` is random (incl. only the first, only the last, none)
        let n_crates = rng.range(2, 4);
        let names = ["alpha", "beta", "gamma", "delta"];
        let mut files = vec![];
        let mut users = vec![];
        for (k, name) in names.iter().enumerate().take(n_crates) {
            let uses = rng.chance(1, 2);
            users.push(uses);
            let ty = if uses { nest("()", rng.below(3), &mut rng) } else { "u32".into() };
            files.push(SrcFile { path: format!("src_root/{name}/src/lib.rs"), source: format!("#[typeshare]\npub struct S{k}{} {{ pub a: {ty}, pub b: String }}\n", name.to_uppercase()) });
        }
        let root = scratch.join(format!("m{i}"));
        write_tree(&root, &files);
        let out = root.join("out");
        let cfg = LangCfg::basic(LangId::Swift);
        let o = run_bin(BinRun { cli: &cli, args: cli_args(LangId::Swift, &cfg, true, &out, &["src_root"]), env: vec![], cwd: &root, strace: None, wall_limit: Duration::from_secs(30) });
        rep.eval(1);
        rep.count("cli_runs", 1);
        rep.cell(format!("swift-multi|crates={n_crates}|users={:?}", users));
        if !o.ok() {
            rep.inconclusive("cli-run-failed", json!({"stderr": o.stderr.chars().take(300).collect::<String>()}));
        } else {
            let outs = read_dir_files(&out);
            let uses_void: Vec<&String> = outs.iter().filter(|(n, b)| *n != "Codable.swift" && String::from_utf8_lossy(b).contains("CodableVoid")).map(|(n, _)| n).collect();
            let defined = outs.iter().any(|(_, b)| String::from_utf8_lossy(b).contains("struct CodableVoid"));
            if !uses_void.is_empty() {
                rep.count("helper_uses_swift_CodableVoid_multi_file", 1);
                if !defined {
                    let pattern = users.iter().map(|u| if *u { 'U' } else { '-' }).collect::<String>();
                    rep.violate(
                        format!("C12|swift|CodableVoid|multi-file|users-last={}", users.last().copied().unwrap_or(false)),
                        format!("{uses_void:?} use CodableVoid but no generated file defines it (crates using (): {pattern})"),
                        json!({"files": files.iter().map(|f| json!({"path": f.path, "source": f.source})).collect::<Vec<_>>(), "outputs": outs.keys().collect::<Vec<_>>() }),
                    );
                }
            }
        }
        let _ = std::fs::remove_dir_all(&root);
        rep
    });
    rep.merge(r2);
    // multi-file Scala (crates that do not refer to each other; Scala has no cross-crate imports): the backend object is
    // reused for every crate file, and each file's package object has to define the unsigned aliases that file uses
    let n_scala = ctx.tier.pick(48, 300);
    let scratch_scala = ctx.scratch("scala-multi");
    let r_scala = par_shards(ctx.threads, n_scala, |i| {
        let mut rep = Report::new();
        let mut rng = Rng::derive(seed, "C12-scala-multi", i as u64);
        let n_crates = rng.range(2, 4);
        let names = ["alpha", "beta", "gamma", "delta"];
        let mut files = vec![];
        let mut users = vec![];
        for (k, name) in names.iter().enumerate().take(n_crates) {
            let uses = rng.chance(2, 3);
            users.push(uses);
            let leaf: &str = ["u8", "u16", "u32", "U53"][rng.below(4)];
            let depth = rng.below(3);
            let ty = if uses { nest(leaf, depth, &mut rng) } else { "i32".to_string() };
            files.push(SrcFile { path: format!("src_root/{name}/src/lib.rs"), source: format!("#[typeshare]\npub struct S{k}{} {{ pub a: {ty}, pub b: String }}\n", name.to_uppercase()) });
        }
        let root = scratch_scala.join(format!("m{i}"));
        write_tree(&root, &files);
        let out = root.join("out");
        let mut cfg = LangCfg::basic(LangId::Scala);
        cfg.package = rng.pick(&["com.verif.gen", "pkg"]).to_string();
        let o = run_bin(BinRun { cli: &cli, args: cli_args(LangId::Scala, &cfg, true, &out, &["src_root"]), env: vec![], cwd: &root, strace: None, wall_limit: Duration::from_secs(30) });
        rep.eval(1);
        rep.count("cli_runs", 1);
        rep.cell(format!("scala-multi|crates={n_crates}|users={:?}|package={}", users, cfg.package.contains('.')));
        if !o.ok() {
            rep.inconclusive("cli-run-failed", json!({"stderr": o.stderr.chars().take(300).collect::<String>()}));
        } else {
            for (fname, bytes) in read_dir_files(&out) {
                let text = String::from_utf8_lossy(&bytes).into_owned();
                for a in ["UByte", "UShort", "UInt", "ULong"] {
                    // a use is the alias name as a type, i.e. anywhere but in its own definition line
                    let used = text.lines().any(|l| !l.trim_start().starts_with(&format!("type {a} ")) && l.split(|c: char| !c.is_alphanumeric()).any(|w| w == a));
                    let defined = text.lines().any(|l| l.trim_start().starts_with(&format!("type {a} ")));
                    if used {
                        rep.count("helper_uses_scala_unsigned_alias_multi_file", 1);
                        if !defined {
                            rep.violate(
                                "C12|scala|unsigned-alias|multi-file".to_string(),
                                format!("{fname} uses {a} but does not define it (crates using unsigned integers: {users:?})"),
                                json!({"files": files.iter().map(|f| json!({"path": f.path, "source": f.source})).collect::<Vec<_>>(), "file": fname, "output": text}),
                            );
                        }
                    }
                }
            }
        }
        let _ = std::fs::remove_dir_all(&root);
        rep
    });
    rep.merge(r_scala);
    let _ = std::fs::remove_dir_all(&scratch_scala);
    // multi-file Python: the backend object is reused for every crate file, so each file has to carry the imports,
    // TypeVars and helper functions of its own triggers - whatever the files generated before or after it needed
    let n_py = ctx.tier.pick(60, 400);
    let mut py_outputs: Vec<(String, String, Vec<String>)> = vec![]; // (run/file label, text, triggers of that crate)
    {
        let results: std::sync::Mutex<Vec<(String, String, Vec<String>)>> = std::sync::Mutex::new(vec![]);
        let r3 = par_shards(ctx.threads, n_py, |i| {
            let mut rep = Report::new();
            let mut rng = Rng::derive(seed, "C12-python-multi", i as u64);
            let n_crates = rng.range(2, 4);
            let names = ["alpha", "beta", "gamma", "delta"];
            let py_triggers = ["Option<u8>", "Vec<u8>", "HashMap<String, u8>", "OffsetDateTime", "T", "()", "u32", "[u8; 2]"];
            let mut files = vec![];
            let mut trig: Vec<Vec<String>> = vec![];
            for (k, name) in names.iter().enumerate().take(n_crates) {
                let mut mine = vec![];
                let mut fields = String::new();
                let mut generic = false;
                for f in 0..rng.range(1, 2) {
                    let t = *rng.pick(&py_triggers);
                    generic |= t == "T";
                    let ty = nest(t, rng.below(3), &mut rng);
                    let dflt = if t == "OffsetDateTime" && rng.coin() { "#[serde(default)]\n    " } else { "" };
                    fields.push_str(&format!("    {dflt}pub f{f}: {ty},\n"));
                    mine.push(t.to_string());
                }
                let g = if generic { "<T>" } else { "" };
                let kind = rng.below(3);
                let body = match kind {
                    0 => format!("#[typeshare]\npub struct S{k}{g} {{\n{fields}}}\n"),
                    1 => format!("#[typeshare]\n#[serde(tag = \"t\", content = \"c\")]\npub enum E{k}{g} {{\n    Unit,\n    Rec {{\n{fields}    }},\n}}\n"),
                    _ => format!("#[typeshare]\npub struct S{k}{g} {{\n{fields}}}\n#[typeshare]\npub enum Plain{k} {{ A, B }}\n"),
                };
                files.push(SrcFile { path: format!("src_root/{name}/src/lib.rs"), source: body });
                trig.push(mine);
            }
            let root = scratch.join(format!("p{i}"));
            write_tree(&root, &files);
            let out = root.join("out");
            let mut cfg = LangCfg::basic(LangId::Python);
            cfg.type_mappings.insert("Vec<u8>".into(), "bytes".into());
            let cfgp = root.join("cfg.toml");
            std::fs::write(&cfgp, crate::sut::config_toml(LangId::Python, &cfg)).unwrap();
            let mut args = vec!["--config-file".to_string(), cfgp.to_string_lossy().into_owned()];
            args.extend(cli_args(LangId::Python, &cfg, true, &out, &["src_root"]));
            let o = run_bin(BinRun { cli: &cli, args, env: vec![("TYPESHARE_VERIF_ORDER".to_string(), format!("seed:{}", i % 7))], cwd: &root, strace: None, wall_limit: Duration::from_secs(30) });
            rep.eval(1);
            rep.count("cli_runs", 1);
            rep.count("python_multi_file_runs", 1);
            if !o.ok() {
                rep.inconclusive("cli-run-failed", json!({"stderr": o.stderr.chars().take(300).collect::<String>()}));
            } else {
                let outs = read_dir_files(&out);
                let mut r = results.lock().unwrap();
                for (k, name) in names.iter().enumerate().take(n_crates) {
                    if let Some(b) = outs.get(&format!("{name}.py")) {
                        r.push((format!("run {i} {name}.py (crate {k} of {n_crates})"), String::from_utf8_lossy(b).into_owned(), trig[k].clone()));
                    } else {
                        rep.violate("C12|python|multi-file|crate-file-missing".to_string(), format!("{name}.py not written"), json!({"files": files.iter().map(|f| f.source.clone()).collect::<Vec<_>>() }));
                    }
                }
            }
            let _ = std::fs::remove_dir_all(&root);
            rep
        });
        rep.merge(r3);
        py_outputs.extend(results.into_inner().unwrap());
    }
    {
        let items: Vec<(LangId, &str)> = py_outputs.iter().map(|(_, t, _)| (LangId::Python, t.as_str())).collect();
        let facts = crate::facts::parse_many(ctx, "C12-python-multi", &items, true);
        for ((label, text, trig), f) in py_outputs.iter().zip(facts.iter()) {
            rep.eval(1);
            rep.count("python_multi_file_outputs_resolved", 1);
            rep.cell(format!("python-multi|{}", trig.join("+")));
            if let Some(py) = &f.py {
                for n in &py.unresolved {
                    rep.violate(
                        format!("C12|python|multi-file|python-name-{}|triggers={}", if n.chars().next().map(|c| c.is_uppercase()).unwrap_or(false) { "Type" } else { "function" }, trig.join("+")),
                        format!("{label}: name {n} is used but neither defined nor imported in that file"),
                        json!({"file": label, "name": n, "output": text}),
                    );
                }
                if let Some((ok, ty, msg)) = &py.exec {
                    if !ok && (ty == "NameError" || ty == "ImportError" || ty == "ModuleNotFoundError") && py.eager_undefined.is_empty() {
                        rep.violate(format!("C12|python|multi-file|python-import-{ty}|triggers={}", trig.join("+")), format!("{label}: import fails: {msg}"), json!({"file": label, "error": msg, "output": text}));
                    }
                }
            }
        }
    }
    let _ = std::fs::remove_dir_all(&scratch);
    let spec = Spec {
        level: "exploration",
        rule: format!("one trigger type out of {{(), u8, u16, u32, U53, OffsetDateTime, mapped Vec<u8>, generic T, HashMap<String,u8>, HashMap<u16,String>, HashMap<u32,Vec<bool>> (the helper-needing type only as a map key)}} at one position out of {{field, struct-variant field, payload, alias, generic argument, skipped field (PhantomData)}} under 0-3 random wrappers, plain / with serde(default) / with a type override for one of kotlin, swift, typescript, scala, go on the subject field (all {n_grid} combinations), then random placements up to depth 4 with other triggers combined; Scala under dotted and single-segment packages; for each backend the names it introduces are collected from the parsed output and must be defined or imported in the same file (Swift CodableVoid, Scala UByte..ULong, Go package selectors / encoding/json, Kotlin serialization imports, TS reviver/replacer pair, its key tests, and conversely a key test for every field whose whole type is Date (bare, optional, doubly optional), every Python name via CPython ast + import under stub pydantic); {n_cli} multi-crate Swift runs of the real binary check Codable.swift, {n_scala} multi-crate Scala runs check every file's own aliases and {n_py} multi-crate Python runs resolve every name of every generated file separately (the backend object is shared by the files of one run); distinct = (language, trigger, position, depth class, combined?)"),
        assumptions: vec![
            "TypeScript: the decisive form is the weak one (helpers come in pairs and test existing keys); a Date/Uint8Array type without helpers is counted, not reported, because the generated code never uses the helper names itself".into(),
        ],
        exhaustive: Some(false),
    };
    (spec, rep)
}
