//! C15 — documentation text is carried only inside comments of the generated code.
//! Oracle: containment — every sentinel planted in a doc string must lie inside a comment / docstring
//! token of the output (lexers for the brace languages, CPython tokenize/ast for Python), and the file
//! must still have the definitions of its doc-free twin.
use crate::checks::broad::{run_rounds, Case, Gen};
use crate::ir::{DefKind, ParseStatus};
use crate::model::{render_docs, Doc, DocStyle};
use crate::report::{Ctx, Report, Spec};
use crate::rng::Rng;
use crate::sut::{LangCfg, LangId, LibOutcome, SrcFile, ALL_LANGS};
use serde_json::json;
use std::collections::BTreeSet;

const UNITS: [(&str, &str); 21] = [
    // more words than fit a line of any width a formatter or linter has an opinion about (240 characters): one doc line
    // stays one comment line, or every line it is broken into is a comment line
    ("so many words that the line grows far beyond what any style guide would allow and then goes on and on with further words about nothing in particular until it has passed two hundred and forty characters for certain which it has done by about here", "very-long-line"),
    ("\n", "newline"),
    ("*/", "star-slash"),
    ("/*", "slash-star"),
    ("//", "slash-slash"),
    ("\"\"\"", "triple-double-quote"),
    ("'''", "triple-single-quote"),
    ("\\", "backslash"),
    ("#", "hash"),
    ("`", "backtick"),
    ("plain words", "text"),
    // backslash + ordinary text that a string-literal docstring would read as an escape sequence
    ("\\u", "backslash-u"),
    ("\\x", "backslash-x"),
    ("\\N{", "backslash-N"),
    // terminators glued to the characters an escaping scheme has to get right
    ("\\\"\"\"", "backslash-triple-double-quote"),
    ("\"\"\"\"", "four-double-quotes"),
    ("\"", "double-quote"),
    ("**/", "star-star-slash"),
    // text that looks like something a target language's tools give meaning to
    ("//nolint:gosec", "slash-slash-directive"),
    ("http://localhost:8080/api", "url-with-port"),
    ("# type: ignore", "hash-directive"),
];
const POSITIONS: [&str; 12] = ["type", "field", "unit-variant", "tagged-variant", "struct-variant-field", "alias", "tagged-type", "newtype-struct", "unit-enum-type", "decorated-newtype-struct", "decorated-type", "decorated-field"];

#[derive(Clone, Debug)]
struct Model {
    units: Vec<usize>,
    position: usize,
    style: DocStyle,
    doc: String,
    n_sentinels: usize,
    /// block doc comment in gutter style: every line starts with ` * `, paragraphs are separated by a bare ` *` line
    gutter: bool,
    /// split into several doc attributes (several `///` lines) instead of one
    lines: usize,
    /// empty `///` lines in front of the text (a paragraph break at the top)
    blank_lead: usize,
}

fn build_doc(units: &[usize]) -> (String, usize) {
    let mut s = String::from(" lead ZQX0000");
    for (k, u) in units.iter().enumerate() {
        s.push(' ');
        s.push_str(UNITS[*u].0);
        s.push_str(&format!(" ZQX{:04}", k + 1));
    }
    (s, units.len() + 1)
}

fn render(m: &Model) -> String {
    let docs_for = |pos: usize, ind: &str| -> String {
        if pos != m.position {
            return String::new();
        }
        let mut out = String::new();
        let text = if m.gutter && m.style == DocStyle::Block {
            format!("\n * {}\n *\n * closing paragraph\n ", m.doc.trim_start().replace('\n', "\n *\n * "))
        } else {
            m.doc.clone()
        };
        let mut docs: Vec<Doc> = (0..m.blank_lead).map(|_| Doc { text: String::new(), style: DocStyle::Line }).collect();
        docs.push(Doc { text, style: m.style });
        for k in 1..m.lines {
            docs.push(Doc { text: format!(" extra line {k} ZQX9{:03}", k), style: DocStyle::Line });
        }
        render_docs(&docs, ind, &mut out);
        out
    };
    let mut s = String::new();
    s.push_str(&docs_for(0, ""));
    s.push_str("#[typeshare]\npub struct Holder {\n");
    s.push_str(&docs_for(1, "    "));
    s.push_str("    pub alpha: u32,\n    pub beta: String,\n}\n\n#[typeshare]\npub enum Plain {\n");
    s.push_str(&docs_for(2, "    "));
    s.push_str("    First,\n    Second,\n}\n\n");
    s.push_str(&docs_for(6, ""));
    s.push_str("#[typeshare]\n#[serde(tag = \"t\", content = \"c\")]\npub enum Tagged {\n");
    s.push_str(&docs_for(3, "    "));
    s.push_str("    Pay(u32),\n    Rec {\n");
    s.push_str(&docs_for(4, "        "));
    s.push_str("        inner: bool,\n    },\n    Last,\n}\n\n");
    s.push_str(&docs_for(5, ""));
    s.push_str("#[typeshare]\npub type Shortcut = Vec<String>;\n\n");
    // a one-field tuple struct is shared as an alias of its field's type; the documentation is the struct's
    s.push_str(&docs_for(7, ""));
    s.push_str("#[typeshare]\npub struct Wrapped(pub String);\n\n");
    s.push_str(&docs_for(8, ""));
    s.push_str("#[typeshare]\npub enum Level {\n    Low,\n    High,\n}\n\n");
    // items whose decorators select another form of definition in some backend (a Kotlin value class instead of a
    // typealias, a redacted class with members of its own, extra conformances): the documentation is written there too
    s.push_str(&docs_for(9, ""));
    s.push_str("#[typeshare(kotlin = \"JvmInline\", swift = \"Equatable\", redacted)]\npub struct Token(pub String);\n\n");
    s.push_str(&docs_for(10, ""));
    s.push_str("#[typeshare(redacted, swift = \"Equatable, Hashable\", kotlin = \"JvmInline\")]\npub struct Guarded {\n");
    s.push_str(&docs_for(11, "    "));
    s.push_str("    #[typeshare(typescript(readonly))]\n    pub secret: String,\n}\n");
    s
}

fn find_all(hay: &str, needle: &str) -> Vec<usize> {
    hay.match_indices(needle).map(|(i, _)| i).collect()
}

fn judge(case: &Case<Model>, rep: &mut Report, twin_defs: &[(LangId, BTreeSet<String>)]) {
    let lname = case.lang.name();
    let m = case.model;
    let LibOutcome::Ok(_) = case.outcome else {
        if let LibOutcome::Panic { loc, msg, .. } = case.outcome {
            rep.inconclusive("typeshare-panic (reported by C07)", json!({"loc": loc, "msg": msg}));
        } else {
            rep.inconclusive(&format!("typeshare-rejected-{lname}"), json!({"outcome": case.outcome.describe()}));
        }
        return;
    };
    let text = case.outcome.single().unwrap_or("");
    let Some(facts) = case.single_facts() else { return };
    rep.eval(1);
    rep.count(&format!("outputs_checked_{lname}"), 1);
    let unit_names: Vec<&str> = m.units.iter().map(|u| UNITS[*u].1).collect();
    let style = match m.style {
        DocStyle::Line => "line",
        DocStyle::Block => "block",
        DocStyle::Attr => "attr",
    };
    let pos = POSITIONS[m.position];
    rep.cell(format!("{lname}|{pos}|{style}|first={}|len={}", unit_names.first().copied().unwrap_or("none"), unit_names.len().min(4)));
    // every documentable position of the five brace backends shares one comment writer; Python has two forms
    let sigbase = |after: &str, what: &str| {
        if case.lang == LangId::Python {
            format!("C15|{lname}|{what}|after={after}|position={pos}")
        } else {
            format!("C15|{lname}|{what}|after={after}")
        }
    };
    // when the file no longer tokenises / parses, the cause is the first unit able to end this backend's comment form
    let terminators: &[&str] = match case.lang {
        LangId::Ts => &["star-slash"],
        // docstrings everywhere except the `#` comment in front of a tagged enum's union
        LangId::Python if pos == "tagged-type" => &["newline"],
        LangId::Python => &["triple-double-quote"],
        _ => &["newline"],
    };
    let hostile = match unit_names.iter().find(|u| terminators.contains(u)) {
        Some(u) => u.to_string(),
        None => format!("no-known-terminator({})", unit_names.iter().filter(|u| **u != "text").cloned().collect::<BTreeSet<_>>().into_iter().collect::<Vec<_>>().join("+")),
    };
    // comment spans
    let inside = |p: usize| -> Option<bool> {
        if let Some(py) = &facts.py {
            if matches!(facts.status, ParseStatus::IllFormed(_)) {
                return None;
            }
            return Some(py.spans.iter().any(|(a, b, k)| *a <= p && p < *b && (k == "comment" || k == "docstring")));
        }
        let l = facts.lexed.as_ref()?;
        if l.error.is_some() {
            return None;
        }
        Some(l.comments.iter().any(|c| c.start <= p && p < c.end))
    };
    // lexical breakage caused by the doc text
    let lex_broken = match (&facts.py, &facts.lexed) {
        (Some(_), _) => matches!(facts.status, ParseStatus::IllFormed(_)),
        (None, Some(l)) => l.error.is_some(),
        _ => false,
    };
    if lex_broken {
        rep.violate(
            sigbase(if hostile.is_empty() { "text" } else { &hostile }, "file-no-longer-tokenises"),
            format!("doc {:?} ({style}) on {pos} makes the {lname} output untokenisable: {:?}", m.doc, facts.status),
            case.detail(json!({"doc": m.doc, "units": unit_names})),
        );
        return;
    }
    let mut reproduced = 0;
    let mut escaped = false;
    for k in 0..m.n_sentinels {
        let s = format!("ZQX{:04}", k);
        let occ = find_all(text, &s);
        if !occ.is_empty() {
            reproduced += 1;
        }
        for p in occ {
            rep.count("sentinel_occurrences_classified", 1);
            if !escaped && inside(p) == Some(false) {
                // the unit between the last contained sentinel and this one is what let the text out
                let after = if k == 0 { "lead" } else { UNITS[m.units[k - 1]].1 };
                escaped = true;
                rep.violate(
                    sigbase(after, "doc-text-outside-comment"),
                    format!("doc {:?} ({style}) on {pos}: the text after `{after}` appears outside any comment in the {lname} output", m.doc),
                    case.detail(json!({"doc": m.doc, "units": unit_names, "sentinel": s, "byte": p})),
                );
            }
        }
    }
    for k in 1..m.lines {
        let s = format!("ZQX9{:03}", k);
        for p in find_all(text, &s) {
            rep.count("sentinel_occurrences_classified", 1);
            if inside(p) == Some(false) {
                rep.violate(
                    format!("C15|{lname}|doc-text-outside-comment|after=second-doc-line|position={pos}"),
                    format!("doc line #{k} on {pos} appears outside any comment in the {lname} output"),
                    case.detail(json!({"doc": m.doc, "lines": m.lines})),
                );
            }
        }
        if !text.contains(&s) && documented(case.lang, pos) {
            rep.violate(format!("C15|{lname}|doc-lost|position={pos}|second-doc-line"), format!("doc line #{k} on {pos} is not reproduced"), case.detail(json!({"lines": m.lines})));
        }
    }
    // reproduction: the documentation must be carried over where the backend documents that position
    if reproduced == 0 && documented(case.lang, pos) {
        rep.violate(format!("C15|{lname}|doc-lost|position={pos}"), format!("doc on {pos} is not reproduced in the {lname} output at all"), case.detail(json!({"doc": m.doc})));
    }
    // the definitions must be those of the doc-free twin
    if let Some(file) = facts.file() {
        let names: BTreeSet<String> = file.defs.iter().filter(|d| d.kind != DefKind::Helper).map(|d| d.name.clone()).collect();
        if let Some((_, twin)) = twin_defs.iter().find(|(l, _)| *l == case.lang) {
            if names != *twin && !escaped {
                rep.violate(
                    sigbase(if hostile.is_empty() { "text" } else { &hostile }, "definitions-changed"),
                    format!("doc {:?} on {pos} changes the set of definitions: {:?} vs {:?}", m.doc, names, twin),
                    case.detail(json!({"doc": m.doc, "definitions": names, "doc_free_twin": twin})),
                );
            }
        }
    } else if let (ParseStatus::IllFormed(msg), false) = (&facts.status, escaped) {
        rep.violate(
            sigbase(if hostile.is_empty() { "text" } else { &hostile }, "file-no-longer-parses"),
            format!("doc {:?} ({style}) on {pos} makes the {lname} output ill-formed: {msg}", m.doc),
            case.detail(json!({"doc": m.doc, "units": unit_names})),
        );
    }
    if case.index < 2 {
        rep.sample(json!({"language": lname, "doc": m.doc, "style": style, "position": pos, "source": case.source(), "output": text}));
    }
}

/// positions a backend reproduces documentation for (Python has no slot for alias docs in front of the alias etc.: all do)
fn documented(_lang: LangId, _pos: &str) -> bool {
    true
}

pub fn run(ctx: &Ctx) -> (Spec, Report) {
    // exhaustive: all unit sequences of length 1..3
    let mut seqs: Vec<Vec<usize>> = vec![];
    let nu = UNITS.len();
    for a in 0..nu {
        seqs.push(vec![a]);
        for b in 0..nu {
            seqs.push(vec![a, b]);
            for c in 0..nu {
                seqs.push(vec![a, b, c]);
            }
        }
    }
    let n_exh = seqs.len();
    let n = n_exh + ctx.tier.pick(4000, 40_000);
    // doc-free twin definitions per language
    let twin_src = render(&Model { units: vec![], position: 99, style: DocStyle::Line, doc: String::new(), n_sentinels: 0, lines: 1, blank_lead: 0, gutter: false });
    let mut twin_defs: Vec<(LangId, BTreeSet<String>)> = vec![];
    {
        let files = crate::sut::single_file(&twin_src);
        let outs: Vec<(LangId, String)> = ALL_LANGS.iter().filter_map(|l| crate::sut::run_lib(&files, *l, &LangCfg::basic(*l), false, &[]).single().map(|s| (*l, s.to_string()))).collect();
        let items: Vec<(LangId, &str)> = outs.iter().map(|(l, s)| (*l, s.as_str())).collect();
        let facts = crate::facts::parse_many(ctx, "C15-twin", &items, false);
        for ((l, _), f) in outs.iter().zip(facts.iter()) {
            if let Some(file) = f.file() {
                twin_defs.push((*l, file.defs.iter().filter(|d| d.kind != DefKind::Helper).map(|d| d.name.clone()).collect()));
            }
        }
    }
    let seqs_ref = &seqs;
    let twin_ref = &twin_defs;
    let mut rep = run_rounds(
        ctx,
        "C15",
        n,
        false,
        |rng: &mut Rng, i| {
            let units: Vec<usize> = if i < n_exh { seqs_ref[i].clone() } else { (0..rng.range(1, 12)).map(|_| rng.below(nu)).collect() };
            let (doc, n_sentinels) = build_doc(&units);
            let style = *rng.pick(&[DocStyle::Line, DocStyle::Block, DocStyle::Attr]);
            let m = Model { units, position: if i < n_exh { i % POSITIONS.len() } else { rng.below(POSITIONS.len()) }, style, doc, n_sentinels, lines: if rng.chance(1, 3) { rng.range(2, 3) } else { 1 }, blank_lead: if rng.chance(1, 4) { rng.range(1, 2) } else { 0 }, gutter: rng.coin() };
            let src = render(&m);
            // package shapes and Swift / Go settings vary; the type prefix stays empty because the undocumented twin the
            // definitions are compared with is generated once, without one
            let langs = ALL_LANGS
                .iter()
                .map(|l| {
                    let mut c = LangCfg::shaped(*l, rng);
                    c.prefix = String::new();
                    (*l, c)
                })
                .collect();
            Gen { model: m, files: vec![SrcFile { path: "src/lib.rs".into(), source: src }], multi: false, langs }
        },
        |case, rep| judge(case, rep, twin_ref),
    );
    rep.count("exhaustive_unit_sequences", n_exh as u64);
    let spec = Spec {
        level: "exploration",
        rule: format!("doc strings built from the units {{a line of 240 characters, newline, */, /*, //, \"\"\", ''', backslash, #, backtick, plain text, \\u, \\x, \\N{{, \\\"\"\", \"\"\"\", \", **/, //nolint:gosec, a URL with a port, # type: ignore}} with a sentinel after every unit: all {n_exh} sequences of length 1-3 (positions cycled), then random sequences up to length 12; written as ///, /** */ (plain or in gutter style with bare ` *` paragraph lines) or #[doc = \"..\"], optionally preceded by empty `///` lines and followed by further doc lines; attached to type, field, unit-enum variant, tagged-enum variant, struct-variant field, alias, newtype struct or unit-enum type; 6 languages; every sentinel occurrence in the output is classified by the language's tokeniser (CPython tokenize/ast for Python) and must lie in a comment/docstring; the output must tokenise, parse and define exactly what the doc-free twin defines; distinct = (language, position, doc spelling, unit sequence)"),
        assumptions: vec!["comment/docstring spans come from this harness's lexers and from CPython".into()],
        exhaustive: Some(true),
    };
    (spec, rep)
}
