//! Shared pipeline for the library-driven checks: generate -> run typeshare for each language ->
//! parse every output (CPython batch for Python) -> judge with the check's oracle.
use crate::facts::{parse_many, Facts};
use crate::report::{par_shards, Ctx, Report};
use crate::rng::Rng;
use crate::sut::{run_lib, LangCfg, LangId, LibOutcome, SrcFile};
use std::sync::Mutex;

pub struct Gen<M> {
    pub model: M,
    pub files: Vec<SrcFile>,
    pub multi: bool,
    pub langs: Vec<(LangId, LangCfg)>,
}

pub struct Case<'a, M> {
    pub index: usize,
    pub model: &'a M,
    pub files: &'a [SrcFile],
    pub multi: bool,
    pub lang: LangId,
    pub cfg: &'a LangCfg,
    pub outcome: &'a LibOutcome,
    /// facts per output file (same order as the Ok map)
    pub facts: Vec<(&'a str, &'a Facts)>,
}

impl<'a, M> Case<'a, M> {
    pub fn source(&self) -> String {
        self.files.iter().map(|f| format!("// ==== {}\n{}", f.path, f.source)).collect::<Vec<_>>().join("\n")
    }
    pub fn single_facts(&self) -> Option<&'a Facts> {
        self.facts.first().map(|x| x.1)
    }
    pub fn detail(&self, extra: serde_json::Value) -> serde_json::Value {
        serde_json::json!({
            "language": self.lang.name(), "config": self.cfg.to_json(), "multi_file": self.multi,
            "source": self.source(), "outcome": self.outcome.describe(),
            "output": match self.outcome { LibOutcome::Ok(m) => serde_json::json!(m), _ => serde_json::Value::Null },
            "extra": extra,
        })
    }
}

/// Run `n` generated programs in rounds; `gen(rng, i)` builds program i, `judge` sees each (program, language).
pub fn run_rounds<M, G, J>(ctx: &Ctx, id: &str, n: usize, py_exec: bool, gen: G, judge: J) -> Report
where
    M: Send + Sync,
    G: Fn(&mut Rng, usize) -> Gen<M> + Sync,
    J: Fn(&Case<M>, &mut Report) + Sync,
{
    let round_size = 6000usize;
    let mut total = Report::new();
    let mut done = 0usize;
    let mut round = 0usize;
    while done < n {
        let m = round_size.min(n - done);
        // generate + run typeshare
        let slots: Vec<Mutex<Option<(Gen<M>, Vec<LibOutcome>)>>> = (0..m).map(|_| Mutex::new(None)).collect();
        let shards = 64.min(m.max(1));
        let per = (m + shards - 1) / shards;
        let base = done;
        let seed = ctx.seed;
        let _ = par_shards(ctx.threads, shards, |s| {
            for k in (s * per)..((s + 1) * per).min(m) {
                let mut rng = Rng::derive(seed, id, (base + k) as u64);
                let g = gen(&mut rng, base + k);
                let outs: Vec<LibOutcome> = g.langs.iter().map(|(l, c)| run_lib(&g.files, *l, c, g.multi, &[])).collect();
                *slots[k].lock().unwrap() = Some((g, outs));
            }
            Report::new()
        });
        let data: Vec<(Gen<M>, Vec<LibOutcome>)> = slots.into_iter().map(|s| s.into_inner().unwrap().unwrap()).collect();
        // pipeline-equivalence monitor: a seeded slice of the programs also goes through the real binary, which must
        // produce byte-identical files (and the same success / failure); a change confined to cli/src/* cannot hide
        // from the library-level workloads this way
        {
            let every = cli_slice_every();
            let scratch = ctx.scratch(&format!("{id}-cli-r{round}"));
            let data_ref = &data;
            let cli = ctx.cli.clone();
            let picks: Vec<usize> = (0..m).filter(|k| every > 0 && (base + k) % every == 0).collect();
            let picks_ref = &picks;
            let r = par_shards(ctx.threads, picks.len(), |pi| {
                let k = picks_ref[pi];
                let (g, outs) = &data_ref[k];
                let mut rep = Report::new();
                let root = scratch.join(format!("p{k}"));
                let mut files = g.files.clone();
                for f in files.iter_mut() {
                    f.path = format!("src_root/{}", f.path);
                }
                crate::sut::write_tree(&root, &files);
                for (li, (lang, cfg)) in g.langs.iter().enumerate() {
                    if cfg.no_header {
                        continue; // the binary has no switch for it
                    }
                    let cfgp = root.join(format!("cfg-{}.toml", lang.name()));
                    std::fs::write(&cfgp, crate::sut::config_toml(*lang, cfg)).unwrap();
                    let out = if g.multi { root.join(format!("out-{}", lang.name())) } else { root.join(format!("out-{}.{}", lang.name(), lang.ext())) };
                    // every other program finds an earlier, longer generation at the output location (what it is about to
                    // write, followed by the tail of a larger file): what the run leaves behind is the new content only
                    if k % 2 == 1 {
                        if let LibOutcome::Ok(m) = &outs[li] {
                            let tail = "\n}\n) ] */ \"\"\" leftover of an earlier, longer output\n";
                            if g.multi {
                                let _ = std::fs::create_dir_all(&out);
                                for (name, text) in m {
                                    let _ = std::fs::write(out.join(name), format!("{text}{tail}"));
                                }
                            } else if let Some(text) = m.values().next() {
                                let _ = std::fs::write(&out, format!("{text}{tail}"));
                            }
                            rep.count("cli_cross_check_runs_over_a_longer_earlier_output", 1);
                        }
                    }
                    let mut args = vec!["--config-file".to_string(), cfgp.to_string_lossy().into_owned()];
                    args.extend(crate::sut::cli_args(*lang, cfg, g.multi, &out, &["src_root"]));
                    let o = crate::sut::run_bin(crate::sut::BinRun { cli: &cli, args: args.clone(), env: vec![], cwd: &root, strace: None, wall_limit: std::time::Duration::from_secs(30) });
                    rep.count("cli_cross_check_runs", 1);
                    let detail = || serde_json::json!({"language": lang.name(), "config": cfg.to_json(), "args": args, "source": g.files.iter().map(|f| f.source.clone()).collect::<Vec<_>>(), "library": outs[li].describe(), "cli_exit": format!("{:?}", o.exit), "cli_stderr": o.stderr.chars().take(400).collect::<String>()});
                    if o.panicked() || !matches!(o.exit, crate::sut::Exit::Code(_)) {
                        continue; // C07's business
                    }
                    // Kotlin without a package and Go/Scala specifics are configuration-equivalent in both drivers
                    match (&outs[li], o.ok()) {
                        (LibOutcome::Ok(m), true) => {
                            let got: std::collections::BTreeMap<String, String> = if g.multi {
                                crate::sut::read_dir_files(&out).into_iter().filter(|(n, _)| n != "Codable.swift").map(|(n, b)| (n, String::from_utf8_lossy(&b).into_owned())).collect()
                            } else {
                                let mut x = std::collections::BTreeMap::new();
                                x.insert(String::new(), std::fs::read_to_string(&out).unwrap_or_default());
                                x
                            };
                            if got != *m {
                                rep.violate(format!("{id}|pipeline|cli-output-differs-from-library|{}", lang.name()), format!("{}: the binary's output differs from the library pipeline on the same sources and configuration", lang.name()), {
                                    let mut d = detail();
                                    d["cli_output"] = serde_json::json!(got);
                                    d["library_output"] = serde_json::json!(m);
                                    d
                                });
                            }
                        }
                        (LibOutcome::Ok(_), false) | (LibOutcome::ParseErrors(_), true) | (LibOutcome::GenError(_), true) => {
                            rep.violate(format!("{id}|pipeline|cli-outcome-differs-from-library|{}", lang.name()), format!("{}: binary exit {:?} but library outcome {}", lang.name(), o.exit, outs[li].kind()), detail());
                        }
                        _ => {}
                    }
                }
                let _ = std::fs::remove_dir_all(&root);
                rep
            });
            total.merge(r);
            let _ = std::fs::remove_dir_all(&scratch);
        }
        // parse all outputs
        let mut texts: Vec<(LangId, &str)> = vec![];
        let mut where_: Vec<(usize, usize, &str)> = vec![];
        for (i, (g, outs)) in data.iter().enumerate() {
            for (k, o) in outs.iter().enumerate() {
                if let LibOutcome::Ok(m) = o {
                    for (name, text) in m {
                        texts.push((g.langs[k].0, text.as_str()));
                        where_.push((i, k, name.as_str()));
                    }
                }
            }
        }
        let facts = parse_many(ctx, &format!("{id}-r{round}"), &texts, py_exec);
        let mut by_case: std::collections::BTreeMap<(usize, usize), Vec<(&str, &Facts)>> = std::collections::BTreeMap::new();
        for (n_, (i, k, name)) in where_.iter().enumerate() {
            by_case.entry((*i, *k)).or_default().push((name, &facts[n_]));
        }
        // judge in parallel
        let data_ref = &data;
        let by_ref = &by_case;
        let jshards = 64.min(m.max(1));
        let jper = (m + jshards - 1) / jshards;
        let r = par_shards(ctx.threads, jshards, |s| {
            let mut rep = Report::new();
            for i in (s * jper)..((s + 1) * jper).min(m) {
                let (g, outs) = &data_ref[i];
                for (k, (lang, cfg)) in g.langs.iter().enumerate() {
                    let case = Case {
                        index: base + i,
                        model: &g.model,
                        files: &g.files,
                        multi: g.multi,
                        lang: *lang,
                        cfg,
                        outcome: &outs[k],
                        facts: by_ref.get(&(i, k)).cloned().unwrap_or_default(),
                    };
                    judge(&case, &mut rep);
                }
            }
            rep
        });
        total.merge(r);
        done += m;
        round += 1;
    }
    total.count("programs", n as u64);
    total
}

/// standard handling of a case whose output is missing or unparsable; returns the parsed file when usable
pub fn usable<'a, M>(case: &Case<'a, M>, id: &str, rep: &mut Report, failure_is_violation: bool) -> Option<&'a crate::ir::File> {
    let lname = case.lang.name();
    match case.outcome {
        LibOutcome::Ok(_) => {}
        LibOutcome::Panic { loc, msg, .. } => {
            rep.inconclusive("typeshare-panic (reported by C07)", serde_json::json!({"loc": loc, "msg": msg, "language": lname}));
            return None;
        }
        other => {
            if failure_is_violation {
                rep.violate(format!("{id}|{lname}|generation-failed"), format!("supported program not generated: {}", other.describe()), case.detail(serde_json::Value::Null));
            } else {
                rep.inconclusive(&format!("typeshare-rejected-{lname}"), serde_json::json!({"outcome": other.describe()}));
            }
            return None;
        }
    }
    let f = case.single_facts()?;
    match f.file() {
        Some(file) => Some(file),
        None => {
            rep.inconclusive(&format!("output-not-parsed-{lname}"), serde_json::json!({"status": format!("{:?}", f.status).chars().take(400).collect::<String>(), "source": case.source()}));
            None
        }
    }
}

/// every n-th program also goes through the real binary (0 = never); VERIF_CLI_SLICE overrides
fn cli_slice_every() -> usize {
    std::env::var("VERIF_CLI_SLICE").ok().and_then(|s| s.parse().ok()).unwrap_or(25)
}
