//! C08 — unsupported constructs are rejected with an error, never silently mis-generated; a failing
//! run writes or modifies no output file; moving the construct under skip makes the run succeed.
//! Monitors: library outcome over the full plant product; the real binary under strace (syscall
//! event history on the output location) + stat before/after for a seeded slice (thorough: larger).
use crate::report::{par_shards, Ctx, Report, Spec};
use crate::rng::Rng;
use crate::strace::{modifications_under, parse_log};
use crate::sut::{cli_args, read_dir_files, run_bin, run_lib, write_tree, BinRun, Exit, LangCfg, LangId, LibOutcome, SrcFile, ALL_LANGS};
use serde_json::json;
use std::os::unix::fs::MetadataExt;
use std::time::Duration;

#[derive(Clone, Debug)]
struct Plant {
    construct: &'static str,
    position: &'static str,
    depth: usize,
    /// 0 none, 1 serde(skip), 2 typeshare(skip), 3-6 skip next to other arguments / in a second attribute
    skip: u8,
    source: String,
    skippable: bool,
    /// `--target-os` list of the run (empty: none given)
    target_os: Vec<String>,
}

const LEAVES: [(&str, &str); 11] = [
    ("u64", "u64"),
    ("i64", "i64"),
    ("usize", "usize"),
    ("isize", "isize"),
    ("tuple-type", "(u8, String)"),
    // the spellings rustfmt produces for long tuples and the only spelling of a one-element tuple
    ("tuple-type-trailing-comma", "(u8, String,)"),
    ("tuple-type-one-element", "(u8,)"),
    ("tuple-type-nested", "((u8, bool), String)"),
    // the same primitives named through their paths: what the last segment says is what the type is
    ("u64-path-qualified", "core::primitive::u64"),
    ("usize-path-qualified", "std::primitive::usize"),
    ("i64-path-leading-colons", "::core::primitive::i64"),
];

fn chain(leaf: &str, depth: usize, rng: &mut Rng) -> String {
    let mut s = leaf.to_string();
    for _ in 0..depth {
        s = match rng.below(9) {
            0 => format!("Vec<{s}>"),
            1 => format!("Option<{s}>"),
            2 => format!("HashMap<String, {s}>"),
            3 => format!("HashMap<{s}, String>"),
            4 => format!("Box<{s}>"),
            5 => format!("[{s}; 3]"),
            6 => format!("&'static [{s}]"),
            7 => format!("&'static {s}"),
            _ => format!("Wrapper<{s}>"),
        };
    }
    s
}

const BACKGROUND: &str = "#[typeshare]\npub struct Wrapper<T> { pub inner: T }\n#[typeshare]\npub struct Fine { pub a: u32, pub b: Vec<String> }\n#[typeshare]\npub enum Color { Red, Green }\n\n";

fn skip_attr(skip: u8) -> &'static str {
    match skip {
        1 => "#[serde(skip)]\n",
        2 => "#[typeshare(skip)]\n",
        // the same two, as one argument among several of the attribute or as the second attribute of its kind
        3 => "#[serde(rename = \"renamedAway\", skip)]\n",
        4 => "#[serde(skip, alias = \"other\")]\n",
        5 => "#[typeshare(typescript(readonly), skip)]\n",
        6 => "#[serde(default)]\n#[serde(skip)]\n",
        7 => "#[serde(\n    skip,\n)]\n",
        _ => "",
    }
}

fn plants(rng: &mut Rng, per_cell: usize) -> Vec<Plant> {
    let mut v = vec![];
    // type-level leaves at every position and depth, with and without skip
    for (cname, leaf) in LEAVES {
        for position in ["struct-field", "struct-variant-field", "newtype-payload", "generic-argument", "alias-target", "serialized-as-field", "serialized-as-item", "serialized-as-tuple-struct-field", "serialized-as-variant-payload", "serialized-as-struct-variant-field"] {
            for depth in 0..=5usize {
                for skip in 0..8u8 {
                    if skip >= 3 && depth % 3 != 0 {
                        continue;
                    }
                    for _ in 0..per_cell {
                        let ty = chain(leaf, depth, rng);
                        let sk = skip_attr(skip);
                        let (src, skippable) = match position {
                            "struct-field" => (format!("#[typeshare]\npub struct Victim {{\n    pub ok: u8,\n    {sk}    pub bad: {ty},\n}}\n"), true),
                            "struct-variant-field" => (format!("#[typeshare]\n#[serde(tag = \"t\", content = \"c\")]\npub enum Victim {{\n    A,\n    B {{\n        ok: u8,\n        {sk}        bad: {ty},\n    }},\n}}\n"), true),
                            "newtype-payload" => (format!("#[typeshare]\n#[serde(tag = \"t\", content = \"c\")]\npub enum Victim {{\n    A(u8),\n    {sk}    B({ty}),\n}}\n"), true),
                            "generic-argument" => (format!("#[typeshare]\npub struct Victim {{\n    pub ok: u8,\n    {sk}    pub bad: Wrapper<{ty}>,\n}}\n"), true),
                            "alias-target" => (format!("#[typeshare]\npub type Victim = {ty};\n"), false),
                            "serialized-as-tuple-struct-field" => (format!("#[typeshare]\npub struct Victim(#[typeshare(serialized_as = \"{ty}\")] pub Color);\n"), false),
                            "serialized-as-variant-payload" => (format!("#[typeshare]\n#[serde(tag = \"t\", content = \"c\")]\npub enum Victim {{\n    A(u8),\n    {sk}    B(#[typeshare(serialized_as = \"{ty}\")] Color),\n}}\n"), true),
                            "serialized-as-struct-variant-field" => (format!("#[typeshare]\n#[serde(tag = \"t\", content = \"c\")]\npub enum Victim {{\n    A,\n    B {{\n        ok: u8,\n        {sk}        #[typeshare(serialized_as = \"{ty}\")]\n        bad: Color,\n    }},\n}}\n"), true),
                            "serialized-as-field" => (format!("#[typeshare]\npub struct Victim {{\n    pub ok: u8,\n    {sk}    #[typeshare(serialized_as = \"{ty}\")]\n    pub bad: Color,\n}}\n"), true),
                            _ => (format!("#[typeshare(serialized_as = \"{ty}\")]\npub struct Victim {{ pub ok: u8 }}\n"), false),
                        };
                        if !skippable && skip != 0 {
                            continue;
                        }
                        v.push(Plant { construct: cname, position, depth, skip, source: format!("{BACKGROUND}{src}"), skippable, target_os: vec![] });
                    }
                }
            }
        }
    }
    // structural constructs
    for skip in 0..8u8 {
        let sk = skip_attr(skip);
        let structural: Vec<(&'static str, &'static str, String, bool)> = vec![
            ("tuple-variant-2-fields", "variant", format!("#[typeshare]\n#[serde(tag = \"t\", content = \"c\")]\npub enum Victim {{\n    A(u8),\n    {sk}    B(u8, String),\n}}\n"), true),
            ("tuple-variant-3-fields", "variant", format!("#[typeshare]\n#[serde(tag = \"t\", content = \"c\")]\npub enum Victim {{\n    {sk}    B(u8, String, bool),\n    A(u8),\n}}\n"), true),
            ("serde-flatten", "struct-field", format!("#[typeshare]\npub struct Victim {{\n    pub ok: u8,\n    {sk}    #[serde(flatten)]\n    pub bad: Fine,\n}}\n"), true),
            ("serde-flatten-merged", "struct-field", format!("#[typeshare]\npub struct Victim {{\n    pub ok: u8,\n    {sk}    #[serde(default, flatten)]\n    pub bad: Fine,\n}}\n"), true),
            ("serde-flatten-second-attr", "struct-field", format!("#[typeshare]\npub struct Victim {{\n    pub ok: u8,\n    {sk}    #[serde(default)]\n    #[serde(flatten)]\n    pub bad: Fine,\n}}\n"), true),
            // flatten on a field whose type is given by serialized_as (both attribute orders): still a flattened field
            ("serde-flatten-with-serialized-as", "struct-field", format!("#[typeshare]\npub struct Victim {{\n    pub ok: u8,\n    {sk}    #[serde(flatten)]\n    #[typeshare(serialized_as = \"HashMap<String, String>\")]\n    pub bad: Fine,\n}}\n"), true),
            ("serde-flatten-after-serialized-as", "struct-field", format!("#[typeshare]\npub struct Victim {{\n    pub ok: u8,\n    {sk}    #[typeshare(serialized_as = \"Fine\")]\n    #[serde(rename = \"other\", flatten)]\n    pub bad: Color,\n}}\n"), true),
            ("serde-flatten-with-serialized-as", "struct-variant-field", format!("#[typeshare]\n#[serde(tag = \"t\", content = \"c\")]\npub enum Victim {{\n    A,\n    B {{\n        ok: u8,\n        {sk}        #[typeshare(serialized_as = \"Fine\")]\n        #[serde(flatten)]\n        bad: Color,\n    }},\n}}\n"), true),
            ("serde-flatten-trailing-comma", "struct-field", format!("#[typeshare]\npub struct Victim {{\n    pub ok: u8,\n    {sk}    #[serde(default, flatten,)]\n    pub bad: Fine,\n}}\n"), true),
            ("serde-flatten-multi-line-list", "struct-field", format!("#[typeshare]\npub struct Victim {{\n    pub ok: u8,\n    {sk}    #[serde(\n        flatten,\n    )]\n    pub bad: Fine,\n}}\n"), true),
            ("serde-flatten", "struct-variant-field", format!("#[typeshare]\n#[serde(tag = \"t\", content = \"c\")]\npub enum Victim {{\n    A,\n    B {{\n        ok: u8,\n        {sk}        #[serde(flatten)]\n        bad: Fine,\n    }},\n}}\n"), true),
        ];
        // a data-carrying variant in an enum without tag/content: unsupported; under skip the rest is a plain unit enum
        let structural: Vec<(&'static str, &'static str, String, bool)> = structural
            .into_iter()
            .chain(vec![
                ("data-variant-in-untagged-enum", "variant", format!("#[typeshare]\npub enum Victim {{\n    A,\n    {sk}    B(u8),\n    C,\n}}\n"), true),
                ("struct-variant-in-untagged-enum", "variant", format!("#[typeshare]\npub enum Victim {{\n    {sk}    B {{ x: u8 }},\n    A,\n}}\n"), true),
            ])
            .collect();
        for (c, p, s, skippable) in structural {
            v.push(Plant { construct: c, position: p, depth: 0, skip, source: format!("{BACKGROUND}{s}"), skippable, target_os: vec![] });
        }
    }
    let items: Vec<(&'static str, String)> = vec![
        ("tuple-struct-2-fields", "#[typeshare]\npub struct Victim(pub u8, pub String);\n".into()),
        ("tuple-struct-3-fields", "#[typeshare]\npub struct Victim(u8, u8, u8);\n".into()),
        ("data-enum-without-tag-and-content", "#[typeshare]\npub enum Victim { A(u8), B }\n".into()),
        ("data-enum-without-content", "#[typeshare]\n#[serde(tag = \"t\")]\npub enum Victim { A(u8), B }\n".into()),
        ("data-enum-without-tag", "#[typeshare]\n#[serde(content = \"c\")]\npub enum Victim { A { x: u8 }, B }\n".into()),
        ("struct-variant-enum-without-tag-and-content", "#[typeshare]\npub enum Victim { A { x: u8 } }\n".into()),
        ("unit-enum-with-tag", "#[typeshare]\n#[serde(tag = \"t\")]\npub enum Victim { A, B }\n".into()),
        ("unit-enum-with-content", "#[typeshare]\n#[serde(content = \"c\")]\npub enum Victim { A, B }\n".into()),
        // tag/content on an enum whose only data variants are skipped: what is shared is a unit enum
        ("unit-enum-after-skips-with-tag-and-content", "#[typeshare]\n#[serde(tag = \"t\", content = \"c\")]\npub enum Victim { A, #[serde(skip)] B(u8), #[typeshare(skip)] C { x: u8 } }\n".into()),
        // the key's value does not matter: empty and blank keys are keys
        ("unit-enum-with-empty-tag", "#[typeshare]\n#[serde(tag = \"\")]\npub enum Victim { A, B }\n".into()),
        ("unit-enum-with-blank-content", "#[typeshare]\n#[serde(content = \" \")]\npub enum Victim { A, #[serde(skip)] B(u8) }\n".into()),
        ("unit-enum-with-tag-trailing-comma", "#[typeshare]\n#[serde(tag = \"kind\",)]\npub enum Victim { A, B }\n".into()),
        ("unit-enum-with-tag-and-content", "#[typeshare]\n#[serde(tag = \"t\", content = \"c\")]\npub enum Victim { A, B }\n".into()),
        ("const-string", "#[typeshare]\npub const VICTIM: &str = \"text\";\n".into()),
        ("const-float", "#[typeshare]\npub const VICTIM: f64 = 1.5;\n".into()),
        ("const-bool", "#[typeshare]\npub const VICTIM: bool = true;\n".into()),
        ("const-sum", "#[typeshare]\npub const VICTIM: u32 = 1 + 2;\n".into()),
        ("const-negative", "#[typeshare]\npub const VICTIM: i32 = -5;\n".into()),
        ("const-path", "#[typeshare]\npub const VICTIM: u32 = u32::MAX;\n".into()),
        ("const-call", "#[typeshare]\npub const VICTIM: u32 = some_fn(3);\n".into()),
        ("const-cast", "#[typeshare]\npub const VICTIM: u32 = 3u8 as u32;\n".into()),
        ("const-vec-type", "#[typeshare]\npub const VICTIM: Vec<u8> = 3;\n".into()),
    ];
    for (c, s) in items {
        v.push(Plant { construct: c, position: "item", depth: 0, skip: 0, source: format!("{BACKGROUND}{s}"), skippable: false, target_os: vec![] });
    }
    // constructs that are unsupported only in what the target list leaves: what is shared is what is judged
    let with_targets: Vec<(&'static str, &[&str], &str)> = vec![
        ("unit-enum-after-target-os-filter-with-tag-and-content", &["android"], "#[typeshare]\n#[serde(tag = \"t\", content = \"c\")]\npub enum Victim { A, #[cfg(target_os = \"ios\")] B(u8), #[cfg(not(target_os = \"android\"))] C { x: u8 } }\n"),
        ("unit-enum-after-target-os-filter-with-tag", &["android", "linux"], "#[typeshare]\n#[serde(tag = \"t\")]\npub enum Victim { A, B, #[cfg(target_os = \"ios\")] C(u8) }\n"),
        ("unit-enum-after-target-os-filter-and-skip-with-content", &["linux"], "#[typeshare]\n#[serde(content = \"c\")]\npub enum Victim { A, #[serde(skip)] B(u8), #[cfg(any(target_os = \"ios\", target_os = \"android\"))] C { x: u8 } }\n"),
        ("data-enum-kept-by-target-os-without-tag-and-content", &["ios"], "#[typeshare]\npub enum Victim { A, #[cfg(target_os = \"ios\")] B(u8), #[cfg(target_os = \"android\")] C }\n"),
        ("u64-field-kept-by-target-os", &["ios", "android"], "#[typeshare]\npub struct Victim { pub a: u8, #[cfg(target_os = \"ios\")] pub b: u64, #[cfg(target_os = \"linux\")] pub c: u8 }\n"),
        ("tuple-type-in-variant-kept-by-target-os", &["android"], "#[typeshare]\n#[serde(tag = \"t\", content = \"c\")]\npub enum Victim { A(u8), #[cfg(not(target_os = \"ios\"))] B((u8, String)), #[cfg(target_os = \"ios\")] C(u8) }\n"),
    ];
    for (c, t, s) in with_targets {
        v.push(Plant { construct: c, position: "item", depth: 0, skip: 0, source: format!("{BACKGROUND}{s}"), skippable: false, target_os: t.iter().map(|x| x.to_string()).collect() });
    }
    // the annotation on the victim is spelled like users spell it: bare, through its crate path, with arguments
    for (i, p) in v.iter_mut().enumerate() {
        let victim = &p.source[BACKGROUND.len()..];
        if let Some(rest) = victim.strip_prefix("#[typeshare]\n") {
            let spelled = match i % 7 {
                3 => "#[typeshare::typeshare]\n",
                4 => "#[::typeshare::typeshare]\n",
                5 => "#[typeshare(swift = \"Equatable\")]\n",
                6 => "#[typeshare::typeshare(redacted)]\n",
                _ => continue,
            };
            p.source = format!("{BACKGROUND}{spelled}{rest}");
        }
    }
    v
}

fn const_lang_only(p: &Plant, lang: LangId) -> bool {
    // consts are only defined for backends with const support; elsewhere the outcome is C07's business
    !p.construct.starts_with("const-") || lang.supports_const()
}

pub fn run(ctx: &Ctx) -> (Spec, Report) {
    let seed = ctx.seed;
    let mut rng = Rng::derive(seed, "C08-plants", 0);
    let all = plants(&mut rng, ctx.tier.pick(2, 6));
    let all_ref = &all;
    // ---- library: the full product x 6 languages ------------------------------------------------
    let shards = 64;
    let per = (all.len() + shards - 1) / shards;
    let mut rep = par_shards(ctx.threads, shards, |s| {
        let mut rep = Report::new();
        for i in (s * per)..((s + 1) * per).min(all_ref.len()) {
            let p = &all_ref[i];
            for lang in ALL_LANGS {
                if !const_lang_only(p, lang) {
                    continue;
                }
                let files = vec![SrcFile { path: "victim_crate/src/lib.rs".into(), source: p.source.clone() }];
                let o = run_lib(&files, lang, &LangCfg::basic(lang), false, &p.target_os);
                rep.eval(1);
                rep.count("library_runs", 1);
                rep.cell(format!("{}|{}|depth{}|skip{}|{}", p.construct, p.position, p.depth.min(3), p.skip, o.kind()));
                let detail = || json!({"construct": p.construct, "position": p.position, "depth": p.depth, "skip": p.skip, "language": lang.name(), "target_os": p.target_os, "source": p.source, "outcome": o.describe(), "output": o.single()});
                match (&o, p.skip) {
                    (LibOutcome::Panic { loc, msg, .. }, _) => rep.inconclusive("typeshare-panic (reported by C07)", json!({"loc": loc, "msg": msg, "construct": p.construct})),
                    (LibOutcome::Ok(_), 0) => rep.violate(
                        format!("C08|accepted|{}|{}", p.construct, p.position),
                        format!("unsupported construct {} at {} (depth {}) is accepted: generation succeeds ({})", p.construct, p.position, p.depth, lang.name()),
                        detail(),
                    ),
                    (LibOutcome::ParseErrors(e), 0) => {
                        if !e.iter().any(|(f, _)| f.contains("victim_crate/src/lib.rs")) {
                            rep.violate(format!("C08|error-without-file|{}", p.construct), "the error does not name the offending file".to_string(), detail());
                        }
                    }
                    (LibOutcome::GenError(m), 0) => {
                        // rejected, but only at generation time and without a file name: still a rejection
                        rep.count("rejected_at_generation_time", 1);
                        let _ = m;
                    }
                    (LibOutcome::Ok(_), _) => {}
                    (other, _) => rep.violate(
                        format!("C08|skipped-construct-still-rejected|{}|{}|skip{}", p.construct, p.position, p.skip),
                        format!("{} under {} is still rejected: {}", p.construct, skip_attr(p.skip).trim().replace('\n', " "), other.describe()),
                        detail(),
                    ),
                }
            }
        }
        rep
    });
    rep.count("plants", all.len() as u64);

    // ---- the real binary under strace -----------------------------------------------------------
    let n_cli = ctx.tier.pick(900, 6000).min(all.len() * 6);
    let cli = ctx.cli.clone();
    let scratch = ctx.scratch("strace");
    let r2 = par_shards(ctx.threads, n_cli, |i| {
        let mut rep = Report::new();
        let mut rng = Rng::derive(seed, "C08-cli", i as u64);
        // stratify: structural / item constructs first, then random cells
        let specials: Vec<usize> = all_ref.iter().enumerate().filter(|(_, p)| p.depth == 0 && !LEAVES.iter().any(|l| l.0 == p.construct)).map(|(k, _)| k).collect();
        let pi = if i < specials.len() * 2 { specials[i % specials.len()] } else { rng.below(all_ref.len()) };
        let p = &all_ref[pi];
        let lang = ALL_LANGS[rng.below(6)];
        if !const_lang_only(p, lang) {
            return rep;
        }
        let multi = rng.chance(1, 3) && !matches!(lang, LangId::Scala | LangId::Go);
        let preexisting = rng.coin();
        let root = scratch.join(format!("c{i}"));
        // a third of the runs: the offending item is the only annotated item of its file (the supported background
        // lives in a second file of the crate), so that the file contributes errors and nothing else
        let alone = rng.chance(1, 3);
        let mut files = if alone {
            vec![
                SrcFile { path: "src_root/victim_crate/src/lib.rs".into(), source: p.source[BACKGROUND.len()..].to_string() },
                SrcFile { path: "src_root/victim_crate/src/background.rs".into(), source: BACKGROUND.to_string() },
            ]
        } else {
            vec![SrcFile { path: "src_root/victim_crate/src/lib.rs".into(), source: p.source.clone() }]
        };
        if multi {
            // clean crates sorted before and after the offending one: the error of one crate must stop all files
            files.push(SrcFile { path: "src_root/aaa_first/src/lib.rs".into(), source: "#[typeshare]\npub struct BystanderA { pub z: u8 }\n".into() });
            files.push(SrcFile { path: "src_root/zzz_last/src/lib.rs".into(), source: "#[typeshare]\npub struct BystanderZ { pub z: u8 }\n".into() });
        }
        // valid sibling files of the same crate: the victim's error must survive the merge of the crate's files in
        // whatever order the collector receives them
        let siblings = rng.chance(2, 3);
        if siblings {
            files.push(SrcFile { path: "src_root/victim_crate/src/aaa_sibling.rs".into(), source: "#[typeshare]\npub struct SiblingA { pub z: u8 }\n".into() });
            files.push(SrcFile { path: "src_root/victim_crate/src/zzz_sibling.rs".into(), source: "#[typeshare]\npub struct SiblingZ { pub z: u8 }\n".into() });
            files.push(SrcFile { path: "src_root/victim_crate/src/nested/deep.rs".into(), source: "#[typeshare]\npub enum SiblingDeep { A, B }\n".into() });
        }
        let order_env: Vec<(String, String)> = match rng.below(4) {
            0 => vec![],
            1 => vec![("TYPESHARE_VERIF_ORDER".to_string(), "rev".to_string())],
            _ => vec![("TYPESHARE_VERIF_ORDER".to_string(), format!("seed:{}", rng.below(1000)))],
        };
        // a quarter of the runs name the crates one by one on the command line, the offending one after a clean sibling
        // whose name it begins with (`victim`, `victim_crate`): every directory given is walked
        let one_by_one = rng.chance(1, 4);
        if one_by_one {
            files.push(SrcFile { path: "src_root/victim/src/lib.rs".into(), source: "#[typeshare]\npub struct BystanderV { pub z: u8 }\n".into() });
        }
        write_tree(&root, &files);
        let out = if multi { root.join("out_dir") } else { root.join(format!("out.{}", lang.ext())) };
        let mut before: Vec<(String, Vec<u8>, i64, u64)> = vec![];
        if preexisting {
            if multi {
                std::fs::create_dir_all(&out).unwrap();
                for n in [format!("victim_crate.{}", lang.ext()), format!("aaa_first.{}", lang.ext()), format!("zzz_last.{}", lang.ext()), "VictimCrate.swift".to_string(), "AaaFirst.swift".to_string(), "unrelated.txt".to_string()] {
                    std::fs::write(out.join(&n), b"// pre-existing content\n").unwrap();
                }
            } else {
                std::fs::write(&out, b"// pre-existing content\n").unwrap();
            }
            let snapshot = |p: &std::path::Path| -> Option<(Vec<u8>, i64, u64)> {
                let m = std::fs::metadata(p).ok()?;
                Some((std::fs::read(p).ok()?, m.mtime() * 1_000_000_000 + m.mtime_nsec(), m.ino()))
            };
            if multi {
                for (n, _) in read_dir_files(&out) {
                    if let Some((b, t, ino)) = snapshot(&out.join(&n)) {
                        before.push((n, b, t, ino));
                    }
                }
            } else if let Some((b, t, ino)) = snapshot(&out) {
                before.push((String::new(), b, t, ino));
            }
        }
        let cfg = LangCfg::basic(lang);
        let log = root.join("strace.log");
        let src_abs = root.join("src_root");
        let crate_dirs: Vec<String> = ["victim", "victim_crate", "aaa_first", "zzz_last"].iter().map(|c| src_abs.join(c)).filter(|d| d.is_dir()).map(|d| d.to_string_lossy().into_owned()).collect();
        let dirs: Vec<&str> = if one_by_one { crate_dirs.iter().map(|d| d.as_str()).collect() } else { vec![src_abs.to_str().unwrap()] };
        let mut args = cli_args(lang, &cfg, multi, &out, &dirs);
        if !p.target_os.is_empty() {
            args.insert(0, format!("--target-os={}", p.target_os.join(",")));
            rep.count("cli_runs_with_a_target_list", 1);
        }
        let o = run_bin(BinRun { cli: &cli, args: args.clone(), env: order_env.clone(), cwd: &root, strace: Some(log.clone()), wall_limit: Duration::from_secs(30) });
        rep.eval(1);
        rep.count("cli_runs_under_strace", 1);
        if one_by_one {
            rep.count("cli_runs_with_the_crates_named_one_by_one", 1);
        }
        let events = parse_log(&log);
        rep.count("syscall_events_logged", events.len() as u64);
        let mods = modifications_under(&events, out.to_str().unwrap());
        let lname = lang.name();
        let mode = if multi { "multi-file" } else { "single-file" };
        rep.cell(format!("cli|{}|{}|skip{}|{lname}|{mode}|pre={preexisting}|siblings={siblings}|alone={alone}", p.construct, p.position, p.skip));
        if alone {
            rep.count("cli_runs_offending_item_alone_in_its_file", 1);
        }
        rep.count(if siblings { "cli_runs_with_sibling_files" } else { "cli_runs_victim_alone_in_crate" }, 1);
        let detail = |extra: serde_json::Value| json!({"construct": p.construct, "position": p.position, "depth": p.depth, "skip": p.skip, "language": lname, "mode": mode, "preexisting_output": preexisting, "sibling_files": siblings, "offending_item_alone_in_its_file": alone, "env": order_env, "args": args, "source": p.source, "exit": format!("{:?}", o.exit), "stderr": o.stderr.chars().take(800).collect::<String>(), "extra": extra});
        if o.panicked() || matches!(o.exit, Exit::Timeout(_) | Exit::Signal(_)) {
            rep.inconclusive("cli-panic-or-hang (reported by C07)", json!({"construct": p.construct, "exit": format!("{:?}", o.exit)}));
        } else if p.skip == 0 {
            if o.ok() {
                rep.violate(format!("C08|accepted|{}|{}", p.construct, p.position), format!("the binary accepts {} at {} ({lname}, {mode})", p.construct, p.position), detail(json!(null)));
            } else {
                rep.count("failing_runs_checked_for_writes", 1);
                if !mods.is_empty() {
                    rep.violate(
                        format!("C08|failing-run-modifies-output|{mode}|{}", mods[0].class),
                        format!("the run fails (exit {:?}) but touches the output location: {}", o.exit, mods[0].line),
                        detail(json!({"events": mods.iter().take(6).map(|e| e.line.clone()).collect::<Vec<_>>() })),
                    );
                }
                // state after == state before
                if preexisting {
                    for (n, b, t, ino) in &before {
                        let pth = if multi { out.join(n) } else { out.clone() };
                        let now = std::fs::metadata(&pth).ok().map(|m| (std::fs::read(&pth).unwrap_or_default(), m.mtime() * 1_000_000_000 + m.mtime_nsec(), m.ino()));
                        if now.as_ref().map(|x| (&x.0, x.1, x.2)) != Some((b, *t, *ino)) {
                            rep.violate(format!("C08|failing-run-changes-existing-file|{mode}"), format!("pre-existing output {n:?} changed although the run failed"), detail(json!({"file": n})));
                        }
                    }
                } else if out.exists() {
                    rep.violate(format!("C08|failing-run-creates-output|{mode}"), "the output location exists after a failing run".to_string(), detail(json!(null)));
                }
                if !o.stderr.contains("victim_crate/src/lib.rs") && !o.stderr.contains("Generic type") {
                    rep.violate(format!("C08|error-without-file|{}", p.construct), "stderr does not name the offending file".to_string(), detail(json!(null)));
                }
            }
        } else if !o.ok() {
            rep.violate(format!("C08|skipped-construct-still-rejected|{}|{}|skip{}", p.construct, p.position, p.skip), format!("the binary rejects {} although it is under skip", p.construct), detail(json!(null)));
        }
        if i % 101 == 0 {
            rep.sample(json!({"construct": p.construct, "position": p.position, "depth": p.depth, "skip": p.skip, "language": lname, "mode": mode, "exit": format!("{:?}", o.exit), "write_type_events_on_output": mods.len(), "events_logged": events.len()}));
        }
        let _ = std::fs::remove_dir_all(&root);
        rep
    });
    rep.merge(r2);
    let _ = std::fs::remove_dir_all(&scratch);
    let spec = Spec {
        level: "fault_enumeration",
        rule: format!("a supported background program plus exactly one planted unsupported construct: {{u64, i64, usize, isize, tuple type in four spellings (plain, trailing comma, one element, nested)}} x 10 positions (struct field, struct-variant field, newtype payload, generic argument, alias target, serialized_as on a struct field / item / tuple-struct field / variant payload / struct-variant field) x wrapper chains of depth 0-5 (Vec, Option, HashMap key/value, Box, array, slice, reference, user generic) x {{no skip, serde(skip), typeshare(skip), and at depths 0 and 3 either one among other arguments of the attribute (before / after a name-value or list argument) or in a second serde attribute, or in a list that ends with a comma}}, plus tuple structs / variants, serde(flatten) in 3 spellings and 2 positions, alone and next to serialized_as, data enums without tag/content, tag/content on unit enums and 9 non-integer-literal consts: {} plants x 6 languages through the library (must be rejected with an error naming the file; skipped twins must succeed), and {n_cli} cells through the real binary under strace with and without a pre-existing output, single- and multi-file, alone or with valid sibling files of the same crate, the offending item next to accepted items or as the only annotated item of its file, and bystander crates, delivered to the collector in arrival, reversed or seeded order (no create/truncate/write/rename/unlink/mkdir event on the output location, bytes/mtime/inode unchanged); distinct = (construct, position, depth, skip, outcome)", all.len()),
        assumptions: vec![
            "consts are planted only for backends with const support (TypeScript, Go, Python)".into(),
            "a run that panics or hangs is C07's finding and counted as inconclusive here".into(),
        ],
        exhaustive: Some(false),
    };
    (spec, rep)
}
