//! C19 — #[typeshare] is transparent to the Rust compiler and to serde.
//! The real proc-macro runs inside rustc against /repo/lib + /repo/annotation:
//!  (a) acceptance: annotated and stripped twins compile (or fail) together — `cargo check --keep-going`;
//!  (b) expansion: `-Zunpretty=expanded` of `mod annotated` and `mod stripped` must be token-identical;
//!  (c) behaviour: serde_json output and round trip of the same values through both twins.
use crate::report::{Ctx, Report, Spec};
use crate::rng::Rng;
use serde_json::json;
use std::collections::BTreeMap;
use std::path::{Path, PathBuf};
use std::process::Command;

struct GenItem {
    name: String,
    /// source with typeshare attributes
    annotated: String,
    stripped: String,
    /// expression constructing a value (relative to the module), if the item is a serialisable type
    value: Option<String>,
    kind: &'static str,
    helpers: Vec<&'static str>,
}

const ITEM_ARGS: [&str; 7] = ["", "(swift = \"Equatable\")", "(kotlin = \"JvmInline\")", "(redacted)", "(swift = \"Equatable, Hashable\", kotlin = \"JvmInline\", redacted)", "(swiftGenericConstraints = \"T: Equatable & Hashable\")", "(serialized_as = \"String\")"];
const FIELD_HELPERS: [&str; 6] = ["#[typeshare(skip)]", "#[typeshare(serialized_as = \"String\")]", "#[typeshare(typescript(readonly))]", "#[typeshare(typescript(type = \"string | null\"), kotlin(type = \"kotlin.Any\"))]", "#[typeshare(swift(type = \"Any\"), go(type = \"interface{}\"))]", "#[typeshare(skip, something_else)]"];

fn field_ty(rng: &mut Rng, generic: bool) -> (String, String) {
    // (type, value expression)
    match rng.below(if generic { 9 } else { 8 }) {
        0 => ("u32".into(), format!("{}", rng.below(1000))),
        1 => ("String".into(), format!("\"s{}\".to_string()", rng.below(100))),
        2 => ("bool".into(), "true".into()),
        3 => ("Option<i16>".into(), if rng.coin() { "None".into() } else { "Some(-3)".into() }),
        4 => ("Vec<u8>".into(), "vec![1, 2, 3]".into()),
        5 => ("HashMap<String, u32>".into(), "HashMap::from([(\"k\".to_string(), 7u32)])".into()),
        6 => ("f64".into(), "1.5".into()),
        7 => ("(u8, String)".into(), "(1, \"t\".to_string())".into()),
        _ => ("T".into(), "42u32".into()),
    }
}

fn other_attrs(rng: &mut Rng, ind: &str) -> (String, bool) {
    // attributes that must survive: doc, cfg (true), allow; returns (text, cfg_false)
    let mut s = String::new();
    if rng.chance(1, 3) {
        s.push_str(&format!("{ind}/// documented {}\n", rng.below(100)));
    }
    if rng.chance(1, 6) {
        s.push_str(&format!("{ind}#[doc = \"attr doc\"]\n"));
    }
    if rng.chance(1, 6) {
        s.push_str(&format!("{ind}#[allow(dead_code)]\n"));
    }
    if rng.chance(1, 8) {
        s.push_str(&format!("{ind}#[cfg(all())]\n"));
    }
    (s, false)
}

fn maybe_helper(rng: &mut Rng, ind: &str, used: &mut Vec<&'static str>) -> String {
    if rng.chance(2, 5) {
        let h = *rng.pick(&FIELD_HELPERS);
        used.push(h);
        format!("{ind}{h}\n")
    } else {
        String::new()
    }
}

/// hand-written twins of rarely seen item shapes (one set per batch): const generic parameters, bare `const` / `type`
/// tokens in a where clause, helpers on members of such items. No value is constructed for them: acceptance by rustc
/// and the item-by-item comparison of the expansions decide
fn rare_shapes(b: usize) -> Vec<GenItem> {
    let mk = |name: String, kind: &'static str, body: &str, helpers: Vec<&'static str>| -> GenItem {
        let annotated = format!("#[typeshare]\n{}", body.replace("@N@", &name));
        let stripped: String = body.replace("@N@", &name).lines().filter(|l| !l.trim_start().starts_with("#[typeshare(")).map(|l| format!("{l}\n")).collect();
        GenItem { name, annotated, stripped, value: None, kind, helpers }
    };
    vec![
        mk(
            format!("RareConstGen{b}"),
            "const-generic-struct",
            "#[derive(Serialize, Deserialize, Debug, Clone, PartialEq)]\npub struct @N@<const N: usize> {\n    pub label: String,\n    #[typeshare(serialized_as = \"String\")]\n    pub count: u32,\n    #[typeshare(skip)]\n    #[serde(skip)]\n    pub scratch: Option<[u8; N]>,\n}\n",
            vec!["serialized_as", "skip"],
        ),
        mk(
            format!("RareConstGenEnum{b}"),
            "const-generic-enum",
            "#[derive(Serialize, Deserialize, Debug, Clone, PartialEq)]\n#[serde(tag = \"t\", content = \"c\")]\npub enum @N@<const N: usize> {\n    Plain,\n    #[typeshare(skip)]\n    #[serde(skip)]\n    Hidden([u8; N]),\n    Rec {\n        #[typeshare(typescript(readonly))]\n        a: u8,\n    },\n}\n",
            vec!["skip", "typescript(readonly)"],
        ),
        mk(
            format!("RarePtrBound{b}"),
            "where-clause-with-const-token",
            "pub struct @N@<T>\nwhere\n    *const T: Send,\n{\n    #[typeshare(skip)]\n    pub raw: u32,\n    pub marker: std::marker::PhantomData<T>,\n}\n",
            vec!["skip"],
        ),
        mk(
            format!("RareWide{b}"),
            "struct-with-36-fields",
            "#[derive(Serialize, Deserialize, Debug, Clone, PartialEq)]\npub struct @N@ {\n    pub f0: u8,\n    pub f1: u8,\n    pub f2: u8,\n    pub f3: u8,\n    pub f4: u8,\n    pub f5: u8,\n    pub f6: u8,\n    pub f7: u8,\n    pub f8: u8,\n    pub f9: u8,\n    pub f10: u8,\n    pub f11: u8,\n    pub f12: u8,\n    pub f13: u8,\n    pub f14: u8,\n    pub f15: u8,\n    pub f16: u8,\n    pub f17: u8,\n    pub f18: u8,\n    pub f19: u8,\n    pub f20: u8,\n    pub f21: u8,\n    pub f22: u8,\n    pub f23: u8,\n    pub f24: u8,\n    pub f25: u8,\n    pub f26: u8,\n    pub f27: u8,\n    pub f28: u8,\n    pub f29: u8,\n    pub f30: u8,\n    pub f31: u8,\n    pub f32: u8,\n    #[typeshare(serialized_as = \"String\")]\n    pub f33: u8,\n    pub f34: u8,\n    #[typeshare(serialized_as = \"String\")]\n    pub f35: u8,\n}\n",
            vec!["serialized_as"],
        ),
        mk(
            format!("RareWideVariant{b}"),
            "variant-with-36-fields",
            "#[derive(Serialize, Deserialize, Debug, Clone, PartialEq)]\npub enum @N@ {\n    Small,\n    Wide {\n        g0: u8,\n        g1: u8,\n        g2: u8,\n        g3: u8,\n        g4: u8,\n        g5: u8,\n        g6: u8,\n        g7: u8,\n        g8: u8,\n        g9: u8,\n        g10: u8,\n        g11: u8,\n        g12: u8,\n        g13: u8,\n        g14: u8,\n        g15: u8,\n        g16: u8,\n        g17: u8,\n        g18: u8,\n        g19: u8,\n        g20: u8,\n        g21: u8,\n        g22: u8,\n        g23: u8,\n        g24: u8,\n        g25: u8,\n        g26: u8,\n        g27: u8,\n        g28: u8,\n        g29: u8,\n        g30: u8,\n        g31: u8,\n        g32: u8,\n        g33: u8,\n        #[typeshare(skip)]\n        g34: u8,\n        g35: u8,\n    },\n}\n",
            vec!["skip"],
        ),
        // the same identifier in sibling modules (`desktop::Settings`, `mobile::Settings`), each with helpers of its own:
        // one expansion knows nothing of another
        {
            let body = |annot: bool| -> String {
                let a = |s: &str| if annot { s.to_string() } else { String::new() };
                format!(
                    "pub mod same_name_{b} {{\n    pub mod desktop {{\n        use super::super::*;\n        {}#[derive(Serialize, Deserialize, Debug, Clone, PartialEq)]\n        pub struct Settings {{\n            {}pub width: u32,\n            pub title: String,\n        }}\n    }}\n    pub mod mobile {{\n        use super::super::*;\n        {}#[derive(Serialize, Deserialize, Debug, Clone, PartialEq)]\n        pub struct Settings {{\n            pub dpi: u32,\n            {}{}pub scratch: Option<u8>,\n        }}\n    }}\n    pub mod watch {{\n        use super::super::*;\n        {}#[derive(Serialize, Deserialize, Debug, Clone, PartialEq)]\n        #[serde(tag = \"t\", content = \"c\")]\n        pub enum Settings {{\n            {}Plain,\n            Rec {{\n                {}a: u8,\n            }},\n        }}\n    }}\n}}\n",
                    a("#[typeshare]\n        "),
                    a("#[typeshare(serialized_as = \"String\")]\n            "),
                    a("#[typeshare(swift = \"Equatable\")]\n        #[typeshare(kotlin = \"JvmInline\")]\n        "),
                    a("#[typeshare(skip)]\n            "),
                    "#[serde(skip)]\n            ",
                    a("#[typeshare]\n        "),
                    a("#[typeshare(skip)]\n            "),
                    a("#[typeshare(typescript(readonly))]\n                "),
                )
            };
            GenItem { name: format!("same_name_{b}"), annotated: body(true), stripped: body(false), value: None, kind: "same-name-in-sibling-modules", helpers: vec!["serialized_as", "skip", "typescript(readonly)"] }
        },
        mk(
            format!("RareTupleConstGen{b}"),
            "const-generic-tuple-struct",
            "pub struct @N@<const N: usize>(\n    #[typeshare(serialized_as = \"Vec<u8>\")]\n    pub [u8; N],\n);\n",
            vec!["serialized_as"],
        ),
    ]
}

fn gen_item(rng: &mut Rng, k: usize) -> GenItem {
    let name = format!("Item{k}");
    let mut helpers: Vec<&'static str> = vec![];
    let item_arg = *rng.pick(&ITEM_ARGS);
    let ts_attr = |rng: &mut Rng| -> String {
        match rng.below(3) {
            0 => format!("#[typeshare{item_arg}]\n"),
            1 => format!("#[typeshare::typeshare{item_arg}]\n"),
            _ => format!("#[::typeshare::typeshare{item_arg}]\n"),
        }
    };
    let kind_sel = rng.below(10);
    let generic = rng.chance(1, 4) && kind_sel <= 4;
    let lifetime = rng.chance(1, 6) && kind_sel <= 1;
    let gens = match (lifetime, generic) {
        (true, true) => "<'a, T>",
        (true, false) => "<'a>",
        (false, true) => "<T>",
        _ => "",
    };
    let where_clause = if generic && rng.coin() { " where T: Clone + std::fmt::Debug" } else { "" };
    let inst = if generic { "::<u32>" } else { "" };
    let derive = "#[derive(Serialize, Deserialize, Debug, Clone, PartialEq)]\n";
    let derive_nolt = if lifetime { "#[derive(Serialize, Debug, Clone, PartialEq)]\n" } else { derive };
    let mut a = String::new(); // annotated body after the attribute block (shared part carries markers for helper lines)
    let (oattrs, _) = other_attrs(rng, "");
    let mut value = None;
    let kind;
    // helper lines are written with a marker prefix so that the stripped twin can drop exactly them
    const M: &str = "\u{1}";
    let mark = |s: String| -> String { s.lines().map(|l| format!("{M}{l}\n")).collect() };
    match kind_sel {
        0 | 1 => {
            kind = "struct";
            let nf = rng.range(1, 5);
            let mut vals = vec![];
            let serde_ra = if rng.chance(1, 3) { "#[serde(rename_all = \"camelCase\")]\n" } else { "" };
            a.push_str(&format!("{serde_ra}pub struct {name}{gens}{where_clause} {{\n"));
            for f in 0..nf {
                let (t, v) = field_ty(rng, generic);
                let (fa, _) = other_attrs(rng, "    ");
                a.push_str(&fa);
                a.push_str(&mark(maybe_helper(rng, "    ", &mut helpers)));
                // a rename, plain or conditional; the conditional ones mention the word typeshare in their predicate and must
                // survive like any other attribute (they are true: the twin crates define no such feature)
                match rng.below(12) {
                    0 | 1 => a.push_str(&format!("    #[serde(rename = \"renamed{f}\")]\n")),
                    2 => a.push_str(&format!("    #[cfg_attr(all(), serde(rename = \"cfgRenamed{f}\"))]\n")),
                    3 => a.push_str(&format!("    #[cfg_attr(not(feature = \"typeshare\"), serde(rename = \"featRenamed{f}\"))]\n")),
                    4 => a.push_str("    #[cfg_attr(any(test, not(feature = \"typeshare_off\")), allow(dead_code))]\n"),
                    _ => {}
                }
                a.push_str(&mark(maybe_helper(rng, "    ", &mut helpers)));
                a.push_str(&format!("    pub field_{f}: {t},\n"));
                vals.push(format!("field_{f}: {v}"));
            }
            if generic && !vals.iter().any(|v| v.ends_with("42u32")) {
                a.push_str("    pub carrier: T,\n");
                vals.push("carrier: 42u32".into());
            }
            if lifetime {
                a.push_str("    pub borrowed: &'a str,\n");
                vals.push("borrowed: \"b\"".into());
            }
            a.push_str("}\n");
            value = Some(format!("{name}{inst} {{ {} }}", vals.join(", ")));
        }
        2 => {
            kind = "tuple-struct";
            let n = rng.range(1, 3);
            let mut parts = vec![];
            let mut vals = vec![];
            for _ in 0..n {
                let (t, v) = field_ty(rng, generic);
                let h = maybe_helper(rng, "", &mut helpers);
                parts.push(format!("{}pub {t}", if h.is_empty() { String::new() } else { format!("{M}{}{M}", h.trim_end()) }));
                vals.push(v);
            }
            // a generic parameter must be used
            if generic && !parts.iter().any(|p| p.ends_with(" T")) {
                parts.push("pub T".into());
                vals.push("42u32".into());
            }
            a.push_str(&format!("pub struct {name}{gens}({}){where_clause};\n", parts.join(", ")));
            value = Some(format!("{name}{inst}({})", vals.join(", ")));
        }
        3 | 4 => {
            kind = "enum";
            let tagged = rng.coin();
            if tagged {
                a.push_str("#[serde(tag = \"type\", content = \"content\")]\n");
            }
            a.push_str(&format!("pub enum {name}{gens}{where_clause} {{\n"));
            let nv = rng.range(1, 4);
            let mut first_val = None;
            for v in 0..nv {
                let (va, _) = other_attrs(rng, "    ");
                a.push_str(&va);
                a.push_str(&mark(maybe_helper(rng, "    ", &mut helpers)));
                match rng.below(3) {
                    0 => {
                        a.push_str(&format!("    Unit{v},\n"));
                        first_val.get_or_insert(format!("{name}{inst}::Unit{v}"));
                    }
                    1 => {
                        let (t, val) = field_ty(rng, generic);
                        let h = maybe_helper(rng, "", &mut helpers);
                        a.push_str(&format!("    Tuple{v}({}{t}),\n", if h.is_empty() { String::new() } else { format!("{M}{}{M} ", h.trim_end()) }));
                        first_val.get_or_insert(format!("{name}{inst}::Tuple{v}({val})"));
                    }
                    _ => {
                        a.push_str(&format!("    Rec{v} {{\n"));
                        let mut vals = vec![];
                        for f in 0..rng.range(1, 3) {
                            let (t, val) = field_ty(rng, generic);
                            a.push_str(&mark(maybe_helper(rng, "        ", &mut helpers)));
                            a.push_str(&format!("        inner_{f}: {t},\n"));
                            vals.push(format!("inner_{f}: {val}"));
                        }
                        a.push_str("    },\n");
                        first_val.get_or_insert(format!("{name}{inst}::Rec{v} {{ {} }}", vals.join(", ")));
                    }
                }
            }
            if generic {
                a.push_str("    Carrier(T),\n");
            }
            a.push_str("}\n");
            value = first_val;
        }
        5 => {
            kind = "unit-struct";
            a.push_str(&format!("pub struct {name};\n"));
            value = Some(name.clone());
        }
        6 => {
            kind = "union";
            a.push_str(&format!("pub union {name} {{\n"));
            a.push_str(&mark(maybe_helper(rng, "    ", &mut helpers)));
            a.push_str("    pub as_int: u32,\n");
            a.push_str(&mark(maybe_helper(rng, "    ", &mut helpers)));
            a.push_str("    pub as_float: f32,\n}\n");
        }
        7 => {
            kind = "alias";
            a.push_str(&format!("pub type {name} = Vec<HashMap<String, Option<u32>>>;\n"));
        }
        8 => {
            kind = "const";
            a.push_str(&format!("pub const {}: u32 = {};\n", name.to_uppercase(), rng.below(1000)));
        }
        _ => {
            kind = "struct-with-cfg-false-field";
            a.push_str(&format!("pub struct {name} {{\n    pub kept: u32,\n"));
            a.push_str(&mark(maybe_helper(rng, "    ", &mut helpers)));
            a.push_str("    #[cfg(any())]\n    pub dropped: NoSuchTypeAnywhere,\n}\n");
            value = Some(format!("{name} {{ kept: 5 }}"));
        }
    }
    // visibility is part of the item, not of the attribute: restricted forms (a parenthesised group after `pub`) must come
    // through like the plain one, for every item kind
    if rng.chance(1, 3) {
        let vis = *rng.pick(&["pub(crate)", "pub(in crate)", "pub(crate)", "pub(in self)"]);
        let vis = if vis == "pub(in self)" && value.is_some() { "pub(crate)" } else { vis };
        for kw in ["struct", "enum", "union", "type", "const"] {
            let from = format!("pub {kw} {}", if kw == "const" { name.to_uppercase() } else { name.clone() });
            if let Some(pos) = a.find(&from) {
                a.replace_range(pos..pos + 3, vis);
                break;
            }
        }
    }
    let derives = match kind {
        "union" | "alias" | "const" => "",
        "struct" if lifetime => derive_nolt,
        _ => derive,
    };
    if lifetime {
        value = None; // Deserialize is not derived for the borrowed form
    }
    // attribute block order varies: typeshare before or after derive / other attrs
    let ts = ts_attr(rng);
    let annotated_head = match rng.below(3) {
        0 => format!("{oattrs}{ts}{derives}"),
        1 => format!("{ts}{oattrs}{derives}"),
        _ => format!("{oattrs}{derives}{ts}"),
    };
    let stripped_head = format!("{oattrs}{derives}");
    // remove marker machinery
    let strip_marked = |body: &str, keep: bool| -> String {
        let mut out = String::new();
        for line in body.lines() {
            if let Some(rest) = line.strip_prefix(M) {
                if keep {
                    out.push_str(rest);
                    out.push('\n');
                }
                continue;
            }
            // inline markers: M helper M
            let mut l = String::new();
            let mut parts = line.split(M);
            let mut inside = false;
            for p in parts.by_ref() {
                if inside {
                    if keep {
                        l.push_str(p);
                    }
                } else {
                    l.push_str(p);
                }
                inside = !inside;
            }
            out.push_str(&l);
            out.push('\n');
        }
        out
    };
    let annotated = format!("{annotated_head}{}", strip_marked(&a, true));
    let stripped = format!("{stripped_head}{}", strip_marked(&a, false));
    GenItem { name, annotated, stripped, value, kind, helpers }
}

fn write_if_changed(p: &Path, s: &str) {
    if std::fs::read_to_string(p).ok().as_deref() != Some(s) {
        std::fs::write(p, s).expect("write");
    }
}

fn crate_dir(ctx: &Ctx) -> PathBuf {
    ctx.build.join(format!("c19-{}", ctx.tag))
}

fn module_src(items: &[GenItem], annotated: bool) -> String {
    let mut s = String::from("    #![allow(dead_code, unused_imports, non_camel_case_types)]\n    use serde::{Deserialize, Serialize};\n    use std::collections::HashMap;\n");
    if annotated {
        s.push_str("    use typeshare::typeshare;\n");
    }
    for it in items {
        for line in (if annotated { &it.annotated } else { &it.stripped }).lines() {
            s.push_str("    ");
            s.push_str(line);
            s.push('\n');
        }
        s.push('\n');
    }
    s
}

fn normalise_tokens(items: &[syn::Item]) -> Vec<(String, String)> {
    use quote::ToTokens;
    items
        .iter()
        .filter(|i| match i {
            syn::Item::Use(u) => !u.to_token_stream().to_string().contains("typeshare"),
            _ => true,
        })
        .map(|i| {
            let name = match i {
                syn::Item::Struct(s) => s.ident.to_string(),
                syn::Item::Enum(s) => s.ident.to_string(),
                syn::Item::Union(s) => s.ident.to_string(),
                syn::Item::Type(s) => s.ident.to_string(),
                syn::Item::Const(s) => s.ident.to_string(),
                syn::Item::Impl(s) => format!("impl {}", s.self_ty.to_token_stream()),
                other => other.to_token_stream().to_string().chars().take(40).collect(),
            };
            (name, i.to_token_stream().to_string())
        })
        .collect()
}

pub fn run(ctx: &Ctx) -> (Spec, Report) {
    let mut rep = Report::new();
    let dir = crate_dir(ctx);
    let _ = std::fs::create_dir_all(dir.join("src/bin"));
    let manifest = format!(
        "[package]\nname = \"c19_twins\"\nversion = \"0.1.0\"\nedition = \"2021\"\n\n[workspace]\n\n[dependencies]\ntypeshare = {{ path = \"{}/lib\", default-features = false }}\nserde = {{ version = \"1\", features = [\"derive\"] }}\nserde_json = \"1\"\n\n[profile.dev]\ndebug = 0\nincremental = false\n",
        ctx.repo.display()
    );
    write_if_changed(&dir.join("Cargo.toml"), &manifest);
    if !dir.join("Cargo.lock").exists() {
        let _ = std::fs::copy(ctx.repo.join("Cargo.lock"), dir.join("Cargo.lock"));
    }
    // stale bins from an earlier run
    if let Ok(rd) = std::fs::read_dir(dir.join("src/bin")) {
        for e in rd.flatten() {
            let _ = std::fs::remove_file(e.path());
        }
    }
    let batches = ctx.tier.pick(1, 8);
    let per_batch = ctx.tier.pick(300, 400);
    let n_neg = ctx.tier.pick(18, 120);
    let mut rng = Rng::derive(ctx.seed, "C19", 0);
    let mut all_items: Vec<Vec<GenItem>> = vec![];
    for b in 0..batches {
        let mut items: Vec<GenItem> = (0..per_batch).map(|k| gen_item(&mut rng, b * 10_000 + k)).collect();
        items.extend(rare_shapes(b));
        // three bins per batch: stripped only, annotated only, both + comparison
        let main_cmp: String = {
            let mut m = String::from("fn main() {\n    let mut same = 0usize;\n");
            for it in &items {
                if let Some(v) = &it.value {
                    m.push_str(&format!(
                        "    {{\n        let a = {{ use annotated::*; serde_json::to_string(&{v}).unwrap() }};\n        let s = {{ use stripped::*; serde_json::to_string(&{v}).unwrap() }};\n        if a == s {{ same += 1; }} else {{ println!(\"DIFF\\t{}\\t{{}}\\t{{}}\", a, s); }}\n",
                        it.name
                    ));
                    if it.kind != "struct-with-cfg-false-field" {
                        let ty = if it.annotated.contains(&format!("{}<T>", it.name)) || it.annotated.contains(&format!("{}<'a, T>", it.name)) { format!("{}<u32>", it.name) } else { it.name.clone() };
                        m.push_str(&format!(
                            "        let ra: Result<annotated::{ty}, _> = serde_json::from_str(&a);\n        let rs: Result<stripped::{ty}, _> = serde_json::from_str(&a);\n        match (ra, rs) {{ (Ok(x), Ok(y)) => {{ if serde_json::to_string(&x).unwrap() != serde_json::to_string(&y).unwrap() {{ println!(\"RTDIFF\\t{}\"); }} }} (Err(_), Err(_)) => {{}} _ => println!(\"RTDIFF\\t{}\"), }}\n",
                        it.name, it.name
                    ));
                    }
                    m.push_str("    }\n");
                }
            }
            m.push_str("    println!(\"SAME\\t{}\", same);\n}\n");
            m
        };
        let ann = module_src(&items, true);
        let st = module_src(&items, false);
        write_if_changed(&dir.join(format!("src/bin/pos{b}_stripped.rs")), &format!("mod stripped {{\n{st}}}\nfn main() {{}}\n"));
        write_if_changed(&dir.join(format!("src/bin/pos{b}_annotated.rs")), &format!("mod annotated {{\n{ann}}}\nfn main() {{}}\n"));
        write_if_changed(&dir.join(format!("src/bin/pos{b}_both.rs")), &format!("#![allow(unused_imports)]\nuse std::collections::HashMap;\nmod annotated {{\n{ann}}}\nmod stripped {{\n{st}}}\n{main_cmp}"));
        all_items.push(items);
    }
    // negatives: both twins must be rejected
    let neg_kinds = ["undefined-field-type", "unknown-field-attribute", "typeshare-helper-on-unannotated-item", "missing-derive-trait", "duplicate-field"];
    for k in 0..n_neg {
        let kind = neg_kinds[k % neg_kinds.len()];
        let it = gen_item(&mut rng, 900_000 + k);
        let poison = match kind {
            "undefined-field-type" => "pub struct Poison { pub bad: NoSuchTypeAnywhere }\n",
            "unknown-field-attribute" => "pub struct Poison { #[bogus_attribute_xyz] pub bad: u32 }\n",
            "typeshare-helper-on-unannotated-item" => "pub struct Poison { #[typeshare(skip)] pub bad: u32 }\n",
            "missing-derive-trait" => "#[derive(NoSuchDeriveAnywhere)]\npub struct Poison { pub bad: u32 }\n",
            _ => "pub struct Poison { pub bad: u32, pub bad: u32 }\n",
        };
        // the poison sits inside the annotated item for half of the cases (a field of undefined type in an annotated struct)
        let (pa, ps) = if k % 2 == 0 && kind == "undefined-field-type" {
            ("#[typeshare]\n#[derive(Serialize)]\npub struct Poison { #[typeshare(skip)] pub bad: NoSuchTypeAnywhere }\n".to_string(), "#[derive(Serialize)]\npub struct Poison { pub bad: NoSuchTypeAnywhere }\n".to_string())
        } else {
            (poison.to_string(), poison.to_string())
        };
        let head = "#![allow(dead_code, unused_imports)]\nuse serde::{Deserialize, Serialize};\nuse std::collections::HashMap;\n";
        write_if_changed(&dir.join(format!("src/bin/neg{k}_annotated.rs")), &format!("{head}use typeshare::typeshare;\n{}\n{pa}fn main() {{}}\n", it.annotated));
        write_if_changed(&dir.join(format!("src/bin/neg{k}_stripped.rs")), &format!("{head}{}\n{ps}fn main() {{}}\n", it.stripped));
    }
    write_if_changed(&dir.join("src/main.rs"), "fn main() {}\n");

    // (a) acceptance of every target
    let target_dir = ctx.build.join(format!("c19-target-{}", ctx.tag));
    let out = Command::new("cargo")
        .args(["build", "--offline", "--keep-going", "--bins", "--message-format=json"])
        .current_dir(&dir)
        .env("CARGO_TARGET_DIR", &target_dir)
        .env("CARGO_NET_OFFLINE", "true")
        .env_remove("RUSTFLAGS")
        .output()
        .expect("cargo build");
    let mut built: BTreeMap<String, bool> = BTreeMap::new();
    let mut errors: BTreeMap<String, String> = BTreeMap::new();
    for line in String::from_utf8_lossy(&out.stdout).lines() {
        let Ok(v) = serde_json::from_str::<serde_json::Value>(line) else { continue };
        let tname = v["target"]["name"].as_str().unwrap_or("").to_string();
        match v["reason"].as_str() {
            Some("compiler-artifact") if v["target"]["kind"][0] == "bin" => {
                built.insert(tname, true);
            }
            Some("compiler-message") if v["message"]["level"] == "error" => {
                errors.entry(tname).or_insert_with(|| v["message"]["message"].as_str().unwrap_or("").to_string());
            }
            _ => {}
        }
    }
    let ok = |t: &str| built.get(t).copied().unwrap_or(false);
    if built.is_empty() && errors.is_empty() {
        eprintln!("HARNESS-ERROR: cargo produced no per-target results: {}", String::from_utf8_lossy(&out.stderr).chars().rev().take(800).collect::<String>().chars().rev().collect::<String>());
        std::process::exit(2);
    }
    for b in 0..batches {
        rep.eval(1);
        rep.count("positive_batches_compiled", 1);
        rep.count("positive_items", all_items[b].len() as u64);
        let (s, a) = (ok(&format!("pos{b}_stripped")), ok(&format!("pos{b}_annotated")));
        if !s {
            eprintln!("HARNESS-ERROR: the stripped twin of batch {b} does not compile (generator bug): {:?}", errors.get(&format!("pos{b}_stripped")));
            std::process::exit(2);
        }
        if !a {
            rep.violate(
                "C19|acceptance|annotated-program-rejected",
                format!("batch {b}: the annotated twin is rejected by rustc while the stripped twin compiles: {}", errors.get(&format!("pos{b}_annotated")).cloned().unwrap_or_default()),
                json!({"rustc_error": errors.get(&format!("pos{b}_annotated")), "crate": dir.display().to_string(), "bin": format!("pos{b}_annotated")}),
            );
        }
        for it in &all_items[b] {
            rep.cell(format!("positive|{}|helpers={}", it.kind, it.helpers.len().min(3)));
        }
    }
    for k in 0..n_neg {
        rep.eval(1);
        rep.count("negative_twins_compiled", 1);
        let kind = neg_kinds[k % neg_kinds.len()];
        rep.cell(format!("negative|{kind}"));
        let (a, s) = (ok(&format!("neg{k}_annotated")), ok(&format!("neg{k}_stripped")));
        if s {
            eprintln!("HARNESS-ERROR: negative twin neg{k}_stripped ({kind}) compiles (generator bug)");
            std::process::exit(2);
        }
        if a {
            rep.violate(format!("C19|acceptance|annotated-program-accepted|{kind}"), format!("neg{k}: the annotated twin compiles while the stripped twin is rejected ({kind})"), json!({"kind": kind, "bin": format!("neg{k}_annotated"), "crate": dir.display().to_string()}));
        }
    }
    // (c) behaviour
    for b in 0..batches {
        if !ok(&format!("pos{b}_both")) {
            if ok(&format!("pos{b}_annotated")) {
                eprintln!("HARNESS-ERROR: the comparison program pos{b}_both does not compile although both twins do: {:?}", errors.get(&format!("pos{b}_both")));
                std::process::exit(2);
            }
            continue;
        }
        let exe = target_dir.join(format!("debug/pos{b}_both"));
        let r = Command::new(&exe).output();
        let Ok(r) = r else { continue };
        let text = String::from_utf8_lossy(&r.stdout);
        for line in text.lines() {
            let f: Vec<&str> = line.split('\t').collect();
            match f.first().copied() {
                Some("SAME") => {
                    let n: u64 = f.get(1).and_then(|x| x.parse().ok()).unwrap_or(0);
                    rep.count("values_serialised_identically", n);
                    rep.eval(n);
                }
                Some("DIFF") => rep.violate("C19|behaviour|serialised-form-differs", format!("{}: annotated {} vs stripped {}", f.get(1).unwrap_or(&""), f.get(2).unwrap_or(&""), f.get(3).unwrap_or(&"")), json!({"item": f.get(1), "annotated": f.get(2), "stripped": f.get(3)})),
                Some("RTDIFF") => rep.violate("C19|behaviour|round-trip-differs", format!("{}: deserialisation differs between the twins", f.get(1).unwrap_or(&"")), json!({"item": f.get(1)})),
                _ => {}
            }
        }
        if !r.status.success() {
            rep.violate("C19|behaviour|comparison-program-crashed", format!("pos{b}_both exited with {:?}", r.status), json!({"stderr": String::from_utf8_lossy(&r.stderr).chars().take(500).collect::<String>()}));
        }
    }
    // (b) expansion: what the macro returned, observed through rustc itself
    for b in 0..batches {
        if !ok(&format!("pos{b}_annotated")) {
            continue;
        }
        let o = Command::new("cargo")
            .args(["+nightly", "rustc", "--offline", "--bin", &format!("pos{b}_both"), "--", "-Zunpretty=expanded"])
            .current_dir(&dir)
            .env("CARGO_TARGET_DIR", ctx.build.join(format!("c19-target-nightly-{}", ctx.tag)))
            .env("CARGO_NET_OFFLINE", "true")
            .env_remove("RUSTFLAGS")
            .output();
        let Ok(o) = o else {
            rep.inconclusive("nightly-expansion-unavailable", json!(null));
            continue;
        };
        if !o.status.success() {
            rep.inconclusive("nightly-expansion-failed", json!({"stderr_tail": String::from_utf8_lossy(&o.stderr).chars().rev().take(600).collect::<String>().chars().rev().collect::<String>()}));
            continue;
        }
        let expanded = String::from_utf8_lossy(&o.stdout).into_owned();
        let Ok(file) = syn::parse_file(&expanded) else {
            rep.inconclusive("expanded-output-not-parsed-by-syn", json!({"bytes": expanded.len()}));
            continue;
        };
        let mut mods: BTreeMap<String, Vec<syn::Item>> = BTreeMap::new();
        for it in file.items {
            if let syn::Item::Mod(m) = it {
                if let Some((_, items)) = m.content {
                    mods.insert(m.ident.to_string(), items);
                }
            }
        }
        let (Some(a), Some(s)) = (mods.get("annotated"), mods.get("stripped")) else {
            rep.inconclusive("expanded-modules-not-found", json!(null));
            continue;
        };
        let (na, ns) = (normalise_tokens(a), normalise_tokens(s));
        rep.count("expanded_items_compared", na.len() as u64);
        rep.eval(na.len() as u64);
        if na.len() != ns.len() {
            rep.violate("C19|expansion|item-count-differs", format!("annotated module expands to {} items, stripped to {}", na.len(), ns.len()), json!({"annotated_items": na.iter().map(|x| x.0.clone()).collect::<Vec<_>>(), "stripped_items": ns.iter().map(|x| x.0.clone()).collect::<Vec<_>>() }));
            continue;
        }
        for ((an, at), (_sn, st)) in na.iter().zip(ns.iter()) {
            if at != st {
                let what = if at.contains("typeshare") { "typeshare-attribute-left-behind" } else if st.len() > at.len() { "something-else-removed" } else { "tokens-differ" };
                let kind = all_items[b].iter().find(|i| *an == i.name || an.contains(&i.name)).map(|i| i.kind).unwrap_or("derived-impl");
                rep.violate(format!("C19|expansion|{what}|{kind}"), format!("expanded `{an}` differs between the twins"), json!({"item": an, "annotated": at.chars().take(1500).collect::<String>(), "stripped": st.chars().take(1500).collect::<String>()}));
            }
        }
    }
    if let Some(items) = all_items.first() {
        for it in items.iter().take(3) {
            rep.sample(json!({"kind": it.kind, "annotated": it.annotated, "stripped": it.stripped, "value": it.value}));
        }
    }
    let spec = Spec {
        level: "translation_validation",
        rule: format!("{batches} batch(es) of {per_batch} generated items (structs with named / tuple / unit bodies, enums with unit / tuple / struct variants, unions, aliases, consts; generics, lifetimes, where-clauses; plus six hand-written rare shapes per batch - const generic struct / enum / tuple struct, a `*const T` bound, a struct and a variant with 36 fields - with helpers on their (late) members; derive, serde, cfg, doc, allow attributes in any order; #[typeshare], #[typeshare::typeshare], #[::typeshare::typeshare] with every item-level argument; skip / serialized_as / per-language helper lists on fields, variants, struct-variant fields and tuple fields), each rendered as an annotated and a stripped twin: (a) both twins compiled by cargo/rustc against /repo/lib, plus {n_neg} negative twin pairs that must both be rejected; (b) -Zunpretty=expanded of the two modules compared item by item as syn token streams; (c) serde_json output and round trip of a value of every constructible type compared between the twins"),
        assumptions: vec![
            "doc comments are compared after syn's normalisation (/// x == #[doc = \" x\"])".into(),
            "the stripped twin is rendered by the generator, which knows where it put typeshare attributes".into(),
        ],
        exhaustive: None,
    };
    rep.count("programs", (batches * per_batch + n_neg) as u64);
    (spec, rep)
}
