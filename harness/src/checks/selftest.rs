//! Parser self-test: every expectation file of the snapshot corpus must go through the parsers.
use crate::ir::ParseStatus;
use crate::lang::{parse_text, python};
use crate::report::{Ctx, Report, Spec};
use crate::sut::LangId;
use serde_json::json;

pub fn run(ctx: &Ctx) -> (Spec, Report) {
    let mut rep = Report::new();
    let dir = ctx.repo.join("core/data/tests");
    let mut pys: Vec<(String, String)> = vec![];
    let mut entries: Vec<_> = std::fs::read_dir(&dir).expect("corpus").flatten().collect();
    entries.sort_by_key(|e| e.file_name());
    let verbose = std::env::var("VERIF_VERBOSE").is_ok();
    for e in entries {
        for (ext, lang) in [("ts", LangId::Ts), ("kt", LangId::Kotlin), ("swift", LangId::Swift), ("scala", LangId::Scala), ("go", LangId::Go), ("py", LangId::Python)] {
            let p = e.path().join(format!("output.{ext}"));
            let Ok(text) = std::fs::read_to_string(&p) else { continue };
            if lang == LangId::Python {
                pys.push((p.display().to_string(), text));
                continue;
            }
            rep.eval(1);
            let (st, _) = parse_text(lang, &text);
            match st {
                ParseStatus::Parsed(f) => {
                    rep.count(&format!("parsed_{ext}"), 1);
                    rep.count("defs", f.defs.len() as u64);
                    rep.cell(format!("{ext}:{}", e.file_name().to_string_lossy()));
                    if verbose {
                        for d in &f.defs {
                            println!("{} {}", p.display(), d.to_json());
                        }
                    }
                }
                ParseStatus::IllFormed(m) => {
                    println!("ILL-FORMED {}: {m}", p.display());
                    rep.count(&format!("illformed_{ext}"), 1);
                }
                ParseStatus::OutsideSubset(m) => {
                    println!("OUTSIDE {}: {m}", p.display());
                    rep.count(&format!("outside_{ext}"), 1);
                }
            }
        }
    }
    let scratch = ctx.scratch("selftest");
    let srcs: Vec<(&str, bool)> = pys.iter().map(|(_, t)| (t.as_str(), true)).collect();
    let res = python::check_batch(&ctx.verif, &scratch, &srcs, ctx.threads);
    for ((p, _), r) in pys.iter().zip(res.iter()) {
        rep.eval(1);
        match &r.status {
            ParseStatus::Parsed(f) => {
                rep.count("parsed_py", 1);
                rep.cell(format!("py:{p}"));
                if verbose {
                    for d in &f.defs {
                        println!("{p} {}", d.to_json());
                    }
                }
                if let Some((ok, t, m)) = &r.exec {
                    if !ok {
                        println!("PY-EXEC {p}: {t}: {m}");
                        rep.count("py_exec_fail", 1);
                    }
                }
                if !r.unresolved.is_empty() {
                    println!("PY-UNRESOLVED {p}: {:?}", r.unresolved);
                }
            }
            ParseStatus::IllFormed(m) => println!("ILL-FORMED {p}: {m}"),
            ParseStatus::OutsideSubset(m) => println!("OUTSIDE {p}: {m}"),
        }
    }
    rep.sample(json!({"corpus": dir.display().to_string()}));
    let _ = std::fs::remove_dir_all(&scratch);
    (Spec { level: "exploration", rule: "parser self-test over the snapshot corpus".into(), assumptions: vec![], exhaustive: None }, rep)
}
