//! Parser self-test: every expectation file of the snapshot corpus must go through the parsers.
use crate::ir::ParseStatus;
use crate::lang::{parse_text, python};
use crate::report::{Ctx, Report, Spec};
use crate::sut::LangId;
use serde_json::json;

pub fn run(ctx: &Ctx) -> (Spec, Report) {
    let mut rep = Report::new();
    let dir = ctx.repo.join("core/data/tests");
    let mut pys: Vec<(String, String)> = vec![];
    let mut entries: Vec<_> = std::fs::read_dir(&dir).expect("corpus").flatten().collect();
    entries.sort_by_key(|e| e.file_name());
    let verbose = std::env::var("VERIF_VERBOSE").is_ok();
    for e in entries {
        for (ext, lang) in [("ts", LangId::Ts), ("kt", LangId::Kotlin), ("swift", LangId::Swift), ("scala", LangId::Scala), ("go", LangId::Go), ("py", LangId::Python)] {
            let p = e.path().join(format!("output.{ext}"));
            let Ok(text) = std::fs::read_to_string(&p) else { continue };
            if lang == LangId::Python {
                pys.push((p.display().to_string(), text));
                continue;
            }
            rep.eval(1);
            let (st, _) = parse_text(lang, &text);
            match st {
                ParseStatus::Parsed(f) => {
                    rep.count(&format!("parsed_{ext}"), 1);
                    rep.count("defs", f.defs.len() as u64);
                    rep.cell(format!("{ext}:{}", e.file_name().to_string_lossy()));
                    if verbose {
                        for d in &f.defs {
                            println!("{} {}", p.display(), d.to_json());
                        }
                    }
                }
                ParseStatus::IllFormed(m) => {
                    println!("ILL-FORMED {}: {m}", p.display());
                    rep.count(&format!("illformed_{ext}"), 1);
                }
                ParseStatus::OutsideSubset(m) => {
                    println!("OUTSIDE {}: {m}", p.display());
                    rep.count(&format!("outside_{ext}"), 1);
                }
            }
        }
    }
    // sensitivity of the five hand-written readers: delete one token from a well-formed expectation file and see whether
    // the reader still accepts the text. Deleting a token does not always make a file ill-formed (an optional `;`, a
    // modifier, one of two annotations), so the accepted cases are listed for review rather than counted as failures.
    if ctx.tier == crate::report::Tier::Thorough || std::env::var("VERIF_SENSITIVITY").is_ok() {
        let mut rng = crate::rng::Rng::derive(ctx.seed, "selftest-token-deletion", 0);
        let mut entries: Vec<_> = std::fs::read_dir(&dir).expect("corpus").flatten().collect();
        entries.sort_by_key(|e| e.file_name());
        let mut tally: std::collections::BTreeMap<String, (u64, u64, u64)> = Default::default();
        let mut shown: std::collections::BTreeMap<String, u32> = Default::default();
        for e in entries {
            for (ext, lang) in [("ts", LangId::Ts), ("kt", LangId::Kotlin), ("swift", LangId::Swift), ("scala", LangId::Scala), ("go", LangId::Go)] {
                let p = e.path().join(format!("output.{ext}"));
                let Ok(text) = std::fs::read_to_string(&p) else { continue };
                let lexed = crate::lex::lex(lang, &text);
                if lexed.toks.is_empty() {
                    continue;
                }
                for _ in 0..12 {
                    let t = &lexed.toks[rng.below(lexed.toks.len())];
                    let class = match t.kind {
                        crate::lex::TokKind::Punct => format!("`{}`", t.text),
                        crate::lex::TokKind::Ident if t.text.chars().all(|c| c.is_ascii_lowercase()) && t.text.len() <= 9 => format!("word:{}", t.text),
                        crate::lex::TokKind::Ident => "identifier".to_string(),
                        _ => "literal".to_string(),
                    };
                    let mutated = format!("{}{}", &text[..t.start], &text[t.end..]);
                    let (st, _) = parse_text(lang, &mutated);
                    let key = format!("{ext}|{class}");
                    let ent = tally.entry(key.clone()).or_insert((0, 0, 0));
                    rep.eval(1);
                    match st {
                        ParseStatus::IllFormed(_) => ent.0 += 1,
                        ParseStatus::OutsideSubset(_) => ent.1 += 1,
                        ParseStatus::Parsed(f) => {
                            if f.syntax_issues.is_empty() {
                                ent.2 += 1;
                                let n = shown.entry(key.clone()).or_insert(0);
                                if *n < 2 && verbose {
                                    *n += 1;
                                    let lo = t.start.saturating_sub(40);
                                    let hi = (t.end + 40).min(text.len());
                                    println!("ACCEPTED-AFTER-DELETION {key} {}: ...{}[[{}]]{}...", p.display(), text[lo..t.start].replace('\n', "\\n"), t.text, text[t.end..hi].replace('\n', "\\n"));
                                }
                            } else {
                                ent.0 += 1;
                            }
                        }
                    }
                }
            }
        }
        let (mut rej, mut out, mut acc) = (0u64, 0u64, 0u64);
        for (k, (r, o, a)) in &tally {
            rej += r;
            out += o;
            acc += a;
            if *a > 0 || *o > 0 {
                println!("SENSITIVITY {k}: rejected={r} outside-subset={o} accepted={a}");
            }
        }
        println!("SENSITIVITY total single-token deletions: rejected={rej} outside-subset={out} still-accepted={acc}");
        rep.count("token_deletions_rejected", rej);
        rep.count("token_deletions_outside_subset", out);
        rep.count("token_deletions_still_accepted", acc);
    }
    let scratch = ctx.scratch("selftest");
    let srcs: Vec<(&str, bool)> = pys.iter().map(|(_, t)| (t.as_str(), true)).collect();
    let res = python::check_batch(&ctx.verif, &scratch, &srcs, ctx.threads);
    for ((p, _), r) in pys.iter().zip(res.iter()) {
        rep.eval(1);
        match &r.status {
            ParseStatus::Parsed(f) => {
                rep.count("parsed_py", 1);
                rep.cell(format!("py:{p}"));
                if verbose {
                    for d in &f.defs {
                        println!("{p} {}", d.to_json());
                    }
                }
                if let Some((ok, t, m)) = &r.exec {
                    if !ok {
                        println!("PY-EXEC {p}: {t}: {m}");
                        rep.count("py_exec_fail", 1);
                    }
                }
                if !r.unresolved.is_empty() {
                    println!("PY-UNRESOLVED {p}: {:?}", r.unresolved);
                }
            }
            ParseStatus::IllFormed(m) => println!("ILL-FORMED {p}: {m}"),
            ParseStatus::OutsideSubset(m) => println!("OUTSIDE {p}: {m}"),
        }
    }
    rep.sample(json!({"corpus": dir.display().to_string()}));
    let _ = std::fs::remove_dir_all(&scratch);
    (Spec { level: "exploration", rule: "parser self-test over the snapshot corpus".into(), assumptions: vec![], exhaustive: None }, rep)
}
