//! C18 — I54/U53 hold exactly the JavaScript-safe integers.
//! Oracle: bounds from first principles ((1<<53)-1), IEEE-754 exactness, plain integer comparison.
use crate::report::{par_shards, Ctx, Report, Spec};
use crate::rng::Rng;
use serde_json::json;
use std::convert::TryFrom;
use typeshare::{usize_from_u53_saturated, I54, U53};

const SAFE: u64 = (1u64 << 53) - 1;

fn bits_u(v: u64) -> u32 {
    64 - v.leading_zeros()
}

fn viol(rep: &mut Report, ty: &str, op: &str, what: &str, v: String) {
    rep.violate(
        format!("C18|{ty}|{op}|{what}"),
        format!("{ty} {op}: {what} for value {v}"),
        json!({"type": ty, "operation": op, "value": v, "what": what}),
    );
}

/// every probe runs under catch_unwind: the integer types promise an error value, never a panic
fn check_u(v: u64, prev: Option<u64>, rep: &mut Report) {
    if let Err((loc, msg)) = crate::report::catch(|| check_u_inner(v, prev, rep)) {
        viol(rep, "U53", "any-operation", "panics", format!("{v} (at {}: {msg})", crate::report::short_loc(&loc)));
    }
}

fn check_i(v: i64, prev: Option<i64>, rep: &mut Report) {
    if let Err((loc, msg)) = crate::report::catch(|| check_i_inner(v, prev, rep)) {
        viol(rep, "I54", "any-operation", "panics", format!("{v} (at {}: {msg})", crate::report::short_loc(&loc)));
    }
}

fn check_u_inner(v: u64, prev: Option<u64>, rep: &mut Report) {
    let expect_ok = v <= SAFE;
    let r = U53::try_from(v);
    rep.eval(1);
    // comparisons of a truncated value with a raw integer - in range or not - agree with the integers
    for a in [0u64, 1, 255, 1 << 32, SAFE - 1, SAFE] {
        let ax = U53::try_from(a).expect("anchor in range");
        rep.count("mixed_comparisons", 1);
        if ax.partial_cmp(&v) != Some(a.cmp(&v)) || (ax == v) != (a == v) || (ax < v) != (a < v) || (ax > v) != (a > v) || (ax <= v) != (a <= v) || (ax >= v) != (a >= v) {
            viol(rep, "U53", "mixed-ord", "disagrees-with-integers", format!("U53({a}) vs {v}"));
        }
    }
    rep.cell(format!("U53|try_from|bits{}|{}", bits_u(v), expect_ok));
    match (&r, expect_ok) {
        (Ok(_), false) => viol(rep, "U53", "try_from", "accepts-out-of-range", v.to_string()),
        (Err(_), true) => viol(rep, "U53", "try_from", "rejects-in-range", v.to_string()),
        _ => {}
    }
    // serde_json deserialisation of the decimal literal
    let lit = v.to_string();
    let d: Result<U53, _> = serde_json::from_str(&lit);
    rep.count("json_literals_parsed", 1);
    match (&d, expect_ok) {
        (Ok(_), false) => viol(rep, "U53", "json-deserialize", "accepts-out-of-range", lit.clone()),
        (Err(_), true) => viol(rep, "U53", "json-deserialize", "rejects-in-range", lit.clone()),
        _ => {}
    }
    // the same literal read as the other type: a non-negative literal above i64::MAX reaches I54 through serde's
    // unsigned path, and within the struct a field sees it the same way
    let di: Result<I54, _> = serde_json::from_str(&lit);
    let dw: Result<std::collections::BTreeMap<String, Vec<I54>>, _> = serde_json::from_str(&format!("{{\"i\":[0,{lit}]}}"));
    rep.count("json_literals_parsed_as_the_other_type", 2);
    for (what, got) in [("json-deserialize-unsigned-literal", di.map(i64::from)), ("json-deserialize-field-unsigned-literal", dw.map(|w| i64::from(w["i"][1])))] {
        match (got, expect_ok) {
            (Ok(g), true) if g as i128 != v as i128 => viol(rep, "I54", what, "value-changed", format!("{lit} -> {g}")),
            (Ok(g), false) => viol(rep, "I54", what, "accepts-out-of-range", format!("{lit} -> {g}")),
            (Err(_), true) => viol(rep, "I54", what, "rejects-in-range", lit.clone()),
            _ => {}
        }
    }
    if let Ok(x) = r {
        if u64::from(x) != v {
            viol(rep, "U53", "into-u64", "value-changed", lit.clone());
        }
        if !(x == v) || x.partial_cmp(&v) != Some(std::cmp::Ordering::Equal) {
            viol(rep, "U53", "eq-wide", "disagrees", lit.clone());
        }
        if let Ok(y) = &d {
            if *y != x {
                viol(rep, "U53", "json-deserialize", "value-changed", lit.clone());
            }
        }
        match serde_json::to_string(&x) {
            Ok(s) if s == lit => {
                rep.count("json_roundtrips", 1);
            }
            Ok(s) => viol(rep, "U53", "json-serialize", "value-changed", format!("{lit} -> {s}")),
            Err(_) => viol(rep, "U53", "json-serialize", "fails", lit.clone()),
        }
        if ((v as f64) as u64) != v {
            viol(rep, "U53", "f64-roundtrip", "accepted-value-not-exact-in-f64", lit.clone());
        }
        if format!("{x}") != lit || format!("{x:?}") != lit {
            viol(rep, "U53", "display", "differs", lit.clone());
        }
        if usize_from_u53_saturated(x) != usize::try_from(v).unwrap_or(usize::MAX) {
            viol(rep, "U53", "usize_from_u53_saturated", "wrong", lit.clone());
        }
        if u32::try_from(x).ok() != u32::try_from(v).ok() {
            viol(rep, "U53", "narrow-u32", "disagrees", lit.clone());
        }
        if u16::try_from(x).ok() != u16::try_from(v).ok() {
            viol(rep, "U53", "narrow-u16", "disagrees", lit.clone());
        }
        if u8::try_from(x).ok() != u8::try_from(v).ok() {
            viol(rep, "U53", "narrow-u8", "disagrees", lit.clone());
        }
        rep.cell(format!("U53|narrow|bits{}", bits_u(v)));
        if let Some(p) = prev {
            if let Ok(px) = U53::try_from(p) {
                if px.cmp(&x) != p.cmp(&v) || px.partial_cmp(&v) != Some(p.cmp(&v)) || (px == x) != (p == v) {
                    viol(rep, "U53", "ord", "disagrees-with-integers", format!("{p} vs {v}"));
                }
                // what is derived from the order, as users write it (method-call syntax: an inherent method of that name
                // would be the one called): min, max, clamp, sorting
                if u64::from(px.min(x)) != p.min(v) || u64::from(px.max(x)) != p.max(v) || u64::from(x.min(px)) != v.min(p) || u64::from(x.max(px)) != v.max(p) {
                    viol(rep, "U53", "ord-min-max", "disagrees-with-integers", format!("{p} vs {v}"));
                }
                let (lo, hi) = (Ord::min(px, x), Ord::max(px, x));
                if u64::from(U53::MAX.clamp(lo, hi)) != u64::from(U53::MAX).clamp(p.min(v), p.max(v)) || u64::from(U53::MIN.clamp(lo, hi)) != u64::from(U53::MIN).clamp(p.min(v), p.max(v)) {
                    viol(rep, "U53", "ord-clamp", "disagrees-with-integers", format!("{p} vs {v}"));
                }
                let mut pair = [px, x, px];
                pair.sort();
                if u64::from(pair[0]) != p.min(v) || u64::from(pair[2]) != p.max(v) {
                    viol(rep, "U53", "ord-sort", "disagrees-with-integers", format!("{p} vs {v}"));
                }
                rep.count("order_pairs", 1);
            }
        }
    } else if usize_from_u53_saturated(U53::MAX) != SAFE as usize {
        viol(rep, "U53", "MAX", "wrong-constant", lit);
    }
}

fn check_i_inner(v: i64, prev: Option<i64>, rep: &mut Report) {
    let expect_ok = v >= -(SAFE as i64) && v <= SAFE as i64;
    let r = I54::try_from(v);
    rep.eval(1);
    for a in [-(SAFE as i64), -(SAFE as i64) + 1, -(1i64 << 32), -1, 0, 1, 1 << 32, SAFE as i64 - 1, SAFE as i64] {
        let ax = I54::try_from(a).expect("anchor in range");
        rep.count("mixed_comparisons", 1);
        if ax.partial_cmp(&v) != Some(a.cmp(&v)) || (ax == v) != (a == v) || (ax < v) != (a < v) || (ax > v) != (a > v) || (ax <= v) != (a <= v) || (ax >= v) != (a >= v) {
            viol(rep, "I54", "mixed-ord", "disagrees-with-integers", format!("I54({a}) vs {v}"));
        }
    }
    let b = bits_u(v.unsigned_abs());
    rep.cell(format!("I54|try_from|{}bits{}|{}", if v < 0 { "-" } else { "+" }, b, expect_ok));
    match (&r, expect_ok) {
        (Ok(_), false) => viol(rep, "I54", "try_from", "accepts-out-of-range", v.to_string()),
        (Err(_), true) => viol(rep, "I54", "try_from", "rejects-in-range", v.to_string()),
        _ => {}
    }
    let lit = v.to_string();
    let d: Result<I54, _> = serde_json::from_str(&lit);
    rep.count("json_literals_parsed", 1);
    match (&d, expect_ok) {
        (Ok(_), false) => viol(rep, "I54", "json-deserialize", "accepts-out-of-range", lit.clone()),
        (Err(_), true) => viol(rep, "I54", "json-deserialize", "rejects-in-range", lit.clone()),
        _ => {}
    }
    let du: Result<U53, _> = serde_json::from_str(&lit);
    let dw: Result<std::collections::BTreeMap<String, Vec<U53>>, _> = serde_json::from_str(&format!("{{\"u\":[0,{lit}]}}"));
    rep.count("json_literals_parsed_as_the_other_type", 2);
    let expect_u = v >= 0 && v <= SAFE as i64;
    for (what, got) in [("json-deserialize-signed-literal", du.map(u64::from)), ("json-deserialize-field-signed-literal", dw.map(|w| u64::from(w["u"][1])))] {
        match (got, expect_u) {
            (Ok(g), true) if g as i128 != v as i128 => viol(rep, "U53", what, "value-changed", format!("{lit} -> {g}")),
            (Ok(g), false) => viol(rep, "U53", what, "accepts-out-of-range", format!("{lit} -> {g}")),
            (Err(_), true) => viol(rep, "U53", what, "rejects-in-range", lit.clone()),
            _ => {}
        }
    }
    if let Ok(x) = r {
        if i64::from(x) != v {
            viol(rep, "I54", "into-i64", "value-changed", lit.clone());
        }
        if !(x == v) || x.partial_cmp(&v) != Some(std::cmp::Ordering::Equal) {
            viol(rep, "I54", "eq-wide", "disagrees", lit.clone());
        }
        if let Ok(y) = &d {
            if *y != x {
                viol(rep, "I54", "json-deserialize", "value-changed", lit.clone());
            }
        }
        match serde_json::to_string(&x) {
            Ok(s) if s == lit => {
                rep.count("json_roundtrips", 1);
            }
            Ok(s) => viol(rep, "I54", "json-serialize", "value-changed", format!("{lit} -> {s}")),
            Err(_) => viol(rep, "I54", "json-serialize", "fails", lit.clone()),
        }
        if ((v as f64) as i64) != v {
            viol(rep, "I54", "f64-roundtrip", "accepted-value-not-exact-in-f64", lit.clone());
        }
        if format!("{x}") != lit || format!("{x:?}") != lit {
            viol(rep, "I54", "display", "differs", lit.clone());
        }
        if i32::try_from(x).ok() != i32::try_from(v).ok() {
            viol(rep, "I54", "narrow-i32", "disagrees", lit.clone());
        }
        if i16::try_from(x).ok() != i16::try_from(v).ok() {
            viol(rep, "I54", "narrow-i16", "disagrees", lit.clone());
        }
        if i8::try_from(x).ok() != i8::try_from(v).ok() {
            viol(rep, "I54", "narrow-i8", "disagrees", lit.clone());
        }
        rep.cell(format!("I54|narrow|{}bits{}", if v < 0 { "-" } else { "+" }, b));
        if let Some(p) = prev {
            if let Ok(px) = I54::try_from(p) {
                if px.cmp(&x) != p.cmp(&v) || px.partial_cmp(&v) != Some(p.cmp(&v)) || (px == x) != (p == v) {
                    viol(rep, "I54", "ord", "disagrees-with-integers", format!("{p} vs {v}"));
                }
                // what is derived from the order, as users write it (method-call syntax: an inherent method of that name
                // would be the one called): min, max, clamp, sorting
                if i64::from(px.min(x)) != p.min(v) || i64::from(px.max(x)) != p.max(v) || i64::from(x.min(px)) != v.min(p) || i64::from(x.max(px)) != v.max(p) {
                    viol(rep, "I54", "ord-min-max", "disagrees-with-integers", format!("{p} vs {v}"));
                }
                let (lo, hi) = (Ord::min(px, x), Ord::max(px, x));
                if i64::from(I54::MAX.clamp(lo, hi)) != i64::from(I54::MAX).clamp(p.min(v), p.max(v)) || i64::from(I54::MIN.clamp(lo, hi)) != i64::from(I54::MIN).clamp(p.min(v), p.max(v)) {
                    viol(rep, "I54", "ord-clamp", "disagrees-with-integers", format!("{p} vs {v}"));
                }
                let mut pair = [px, x, px];
                pair.sort();
                if i64::from(pair[0]) != p.min(v) || i64::from(pair[2]) != p.max(v) {
                    viol(rep, "I54", "ord-sort", "disagrees-with-integers", format!("{p} vs {v}"));
                }
                rep.count("order_pairs", 1);
            }
        }
    }
}

fn constants_and_widening(rep: &mut Report) {
    rep.eval(1);
    rep.cell("constants");
    if u64::from(U53::MAX) != SAFE || u64::from(U53::MIN) != 0 {
        viol(rep, "U53", "MIN/MAX", "wrong-constant", format!("{:?}/{:?}", U53::MIN, U53::MAX));
    }
    if i64::from(I54::MAX) != SAFE as i64 || i64::from(I54::MIN) != -(SAFE as i64) {
        viol(rep, "I54", "MIN/MAX", "wrong-constant", format!("{:?}/{:?}", I54::MIN, I54::MAX));
    }
    if u64::from(U53::default()) != 0 || i64::from(I54::default()) != 0 {
        viol(rep, "U53/I54", "default", "non-zero", String::new());
    }
    // widening From impls, exhaustive for 8/16-bit, boundaries + sample for 32-bit
    for n in 0..=u8::MAX {
        if u64::from(U53::from(n)) != n as u64 {
            viol(rep, "U53", "from-u8", "value-changed", n.to_string());
        }
    }
    for n in i8::MIN..=i8::MAX {
        if i64::from(I54::from(n)) != n as i64 {
            viol(rep, "I54", "from-i8", "value-changed", n.to_string());
        }
    }
    for n in 0..=u16::MAX {
        if u64::from(U53::from(n)) != n as u64 {
            viol(rep, "U53", "from-u16", "value-changed", n.to_string());
        }
    }
    for n in i16::MIN..=i16::MAX {
        if i64::from(I54::from(n)) != n as i64 {
            viol(rep, "I54", "from-i16", "value-changed", n.to_string());
        }
    }
    let mut k = 0u64;
    while k <= u32::MAX as u64 {
        let n = k as u32;
        if u64::from(U53::from(n)) != n as u64 {
            viol(rep, "U53", "from-u32", "value-changed", n.to_string());
        }
        let m = n as i32;
        if i64::from(I54::from(m)) != m as i64 {
            viol(rep, "I54", "from-i32", "value-changed", m.to_string());
        }
        k += if !(4096..=u32::MAX as u64 - 4096).contains(&k) && !((1u64 << 31) - 4096..=(1u64 << 31) + 4096).contains(&k) { 1 } else { 65_521 };
    }
    rep.count("widening_conversions", 256 * 2 + 65536 * 2);
    rep.cell("widening|8/16-bit exhaustive, 32-bit boundaries+stride");
    // literals that are not 64-bit integers at all
    for (lit, what) in [
        ("18446744073709551616", "2^64"),
        ("-9223372036854775809", "-2^63-1"),
        ("99999999999999999999999999", "huge"),
        ("-1", "negative"),
        ("-9007199254740992", "-2^53"),
        ("9007199254740992", "2^53"),
        ("1.5", "fraction"),
        ("1e3", "exponent"),
        ("\"5\"", "string"),
        ("null", "null"),
        ("true", "bool"),
        ("[1]", "array"),
    ] {
        rep.eval(1);
        rep.cell(format!("json-literal|{what}"));
        let u: Result<U53, _> = serde_json::from_str(lit);
        if u.is_ok() {
            viol(rep, "U53", "json-deserialize", &format!("accepts-{what}"), lit.to_string());
        }
        let i: Result<I54, _> = serde_json::from_str(lit);
        if i.is_ok() && lit != "-1" {
            viol(rep, "I54", "json-deserialize", &format!("accepts-{what}"), lit.to_string());
        }
        if lit == "-1" && i.is_err() {
            viol(rep, "I54", "json-deserialize", "rejects-in-range", lit.to_string());
        }
    }
}

// positions in which serde buffers a value before it knows the type it is for (flattened structs, tagged and untagged
// enums): the integer types are read back from that buffer, not from the JSON text
#[derive(serde::Serialize, serde::Deserialize, Debug, PartialEq)]
struct BufInner {
    u: U53,
    i: I54,
}
#[derive(serde::Serialize, serde::Deserialize, Debug, PartialEq)]
struct BufFlat {
    name: String,
    #[serde(flatten)]
    inner: BufInner,
}
#[derive(serde::Serialize, serde::Deserialize, Debug, PartialEq)]
#[serde(tag = "t", content = "c")]
enum BufAdjacent {
    U(U53),
    I(I54),
}
#[derive(serde::Serialize, serde::Deserialize, Debug, PartialEq)]
#[serde(tag = "t")]
enum BufInternal {
    S { u: U53, i: I54 },
}
#[derive(serde::Serialize, serde::Deserialize, Debug, PartialEq)]
#[serde(untagged)]
enum BufUntagged {
    U(U53),
    I(I54),
    S(String),
}

fn buffered_positions(rep: &mut Report) {
    let safe = SAFE as i128;
    let mut values: Vec<i128> = vec![0, 1, -1, 2, 255, 256, -256, 65_535, 65_536, (1 << 31) - 1, 1 << 31, -(1 << 31), (1i128 << 32) - 1, 1 << 32, -(1i128 << 32), 1 << 52, safe - 1, safe, safe + 1, safe + 2, -safe + 1, -safe, -safe - 1, -safe - 2, i64::MAX as i128, i64::MIN as i128, u64::MAX as i128];
    for k in [8, 16, 24, 40, 48, 53, 54, 62] {
        values.push(1i128 << k);
        values.push(-(1i128 << k));
        values.push((1i128 << k) - 1);
    }
    for v in values {
        let u_ok = v >= 0 && v <= safe;
        let i_ok = v >= -safe && v <= safe;
        rep.eval(1);
        rep.count("buffered_position_probes", 5);
        rep.cell(format!("buffered|u_ok={u_ok}|i_ok={i_ok}"));
        let mut probe = |what: &str, json: String, accepted: Result<bool, String>, want: bool| {
            match accepted {
                Ok(true) if !want => viol(rep, "U53/I54", what, "accepts-out-of-range", json),
                Ok(false) => viol(rep, "U53/I54", what, "value-changed", json),
                Err(e) if want => viol(rep, "U53/I54", what, "rejects-in-range", format!("{json} ({e})")),
                _ => {}
            }
        };
        // U53 / I54 in each buffered position: accepted iff in range, and the value read is the value written
        let j = format!("{{\"name\":\"n\",\"u\":{},\"i\":{}}}", if u_ok { v } else { 0 }, v);
        probe("deserialize-flattened-i54", j.clone(), serde_json::from_str::<BufFlat>(&j).map(|x| i64::from(x.inner.i) as i128 == v).map_err(|e| e.to_string()), i_ok);
        let j = format!("{{\"name\":\"n\",\"u\":{},\"i\":{}}}", v, if i_ok { v } else { 0 });
        probe("deserialize-flattened-u53", j.clone(), serde_json::from_str::<BufFlat>(&j).map(|x| u64::from(x.inner.u) as i128 == v).map_err(|e| e.to_string()), u_ok);
        let j = format!("{{\"t\":\"I\",\"c\":{v}}}");
        probe("deserialize-adjacent-payload-i54", j.clone(), serde_json::from_str::<BufAdjacent>(&j).map(|x| matches!(x, BufAdjacent::I(y) if i64::from(y) as i128 == v)).map_err(|e| e.to_string()), i_ok);
        let j = format!("{{\"c\":{v},\"t\":\"U\"}}");
        probe("deserialize-adjacent-payload-u53-content-first", j.clone(), serde_json::from_str::<BufAdjacent>(&j).map(|x| matches!(x, BufAdjacent::U(y) if u64::from(y) as i128 == v)).map_err(|e| e.to_string()), u_ok);
        let j = format!("{{\"t\":\"S\",\"u\":{},\"i\":{}}}", if u_ok { v } else { 0 }, v);
        probe("deserialize-internally-tagged-i54", j.clone(), serde_json::from_str::<BufInternal>(&j).map(|x| matches!(x, BufInternal::S { i, .. } if i64::from(i) as i128 == v)).map_err(|e| e.to_string()), i_ok);
        // untagged: the first variant that accepts wins; an in-range non-negative value is a U53, an in-range negative one an I54
        let j = format!("{v}");
        let got = serde_json::from_str::<BufUntagged>(&j);
        match (&got, u_ok, i_ok) {
            (Ok(BufUntagged::U(y)), true, _) if u64::from(*y) as i128 == v => {}
            (Ok(BufUntagged::I(y)), false, true) if i64::from(*y) as i128 == v => {}
            (Err(_), false, false) => {}
            _ => viol(rep, "U53/I54", "deserialize-untagged", "wrong-variant-or-value", format!("{j} -> {got:?}")),
        }
        // round trip of a value written by serde itself
        if i_ok && u_ok {
            let x = BufFlat { name: "n".into(), inner: BufInner { u: U53::try_from(v as u64).unwrap(), i: I54::try_from(v as i64).unwrap() } };
            let text = serde_json::to_string(&x).unwrap_or_default();
            if serde_json::from_str::<BufFlat>(&text).ok().as_ref() != Some(&x) {
                viol(rep, "U53/I54", "flattened-round-trip", "value-changed", text);
            }
        }
    }
}

pub fn run(ctx: &Ctx) -> (Spec, Report) {
    let radius: i128 = 1 << 12;
    // exhaustive neighbourhoods: centres ±2^k, the limits, zero
    let mut centres: Vec<i128> = vec![0, SAFE as i128, -(SAFE as i128), u64::MAX as i128, i64::MAX as i128, i64::MIN as i128];
    for k in 0..=63u32 {
        centres.push(1i128 << k);
        centres.push(-(1i128 << k));
    }
    centres.sort();
    centres.dedup();
    let n_shards = centres.len();
    let centres_ref = &centres;
    let mut rep = par_shards(ctx.threads, n_shards, |s| {
        let c = centres_ref[s];
        let mut rep = Report::new();
        let mut prev_u = None;
        let mut prev_i = None;
        for d in -radius..=radius {
            let v = c + d;
            if v >= 0 && v <= u64::MAX as i128 {
                // skip values already covered by an adjacent smaller centre (neighbourhoods overlap for small k)
                check_u(v as u64, prev_u, &mut rep);
                prev_u = Some(v as u64);
            }
            if v >= i64::MIN as i128 && v <= i64::MAX as i128 {
                check_i(v as i64, prev_i, &mut rep);
                prev_i = Some(v as i64);
            }
        }
        if s == 0 {
            rep.sample(json!({"kind": "exhaustive neighbourhood", "centre": c.to_string(), "radius": radius as i64}));
        }
        rep
    });
    rep.count("neighbourhood_centres", n_shards as u64);
    if let Err((loc, msg)) = crate::report::catch(|| buffered_positions(&mut rep)) {
        viol(&mut rep, "U53/I54", "buffered-positions", "panics", format!("at {}: {msg}", crate::report::short_loc(&loc)));
    }
    if let Err((loc, msg)) = crate::report::catch(|| constants_and_widening(&mut rep)) {
        viol(&mut rep, "U53/I54", "constants-and-widening", "panics", format!("at {}: {msg}", crate::report::short_loc(&loc)));
    }

    // random draws stratified by bit length
    let draws: u64 = ctx.tier.pick(1_000_000, 10_000_000);
    let shards = 64usize;
    let seed = ctx.seed;
    let r2 = par_shards(ctx.threads, shards, |s| {
        let mut rng = Rng::derive(seed, "C18-random", s as u64);
        let mut rep = Report::new();
        let mut prev_u = None;
        let mut prev_i = None;
        for i in 0..(draws / shards as u64) {
            let bits = rng.range(1, 64) as u32;
            let raw = rng.next_u64();
            let v = if bits == 64 { raw } else { (raw & ((1u64 << bits) - 1)) | (1u64 << (bits - 1)) };
            check_u(v, prev_u, &mut rep);
            prev_u = Some(v);
            let iv = if rng.coin() { (v >> 1) as i64 } else { ((v >> 1) as i64).wrapping_neg() };
            check_i(iv, prev_i, &mut rep);
            prev_i = Some(iv);
            if s == 0 && i < 2 {
                rep.sample(json!({"kind": "random draw", "u64": v.to_string(), "i64": iv.to_string(),
                    "U53_accepts": U53::try_from(v).is_ok(), "I54_accepts": I54::try_from(iv).is_ok()}));
            }
        }
        rep
    });
    rep.merge(r2);
    rep.count("random_draws", draws);
    let spec = Spec {
        level: "exploration",
        rule: format!(
            "every u64/i64 within 2^12 of 0, ±2^k (k=0..63), ±(2^53-1), the 64-bit extremes — exhaustive — plus {draws} seeded draws stratified by bit length; each value goes through TryFrom, serde_json literal parsing (as its own type, as the other type - so that unsigned literals above i64::MAX reach I54 - and nested in a map of lists; 51 boundary values also in the positions where serde buffers before typing - flattened struct, adjacently / internally tagged payload, untagged variant), conversion back, JSON and f64 round trips, narrowing, ordering against the previous value (cmp, partial_cmp, ==, and min / max / clamp / sort in method-call syntax), and mixed comparisons (==, <, >, <=, >=, partial_cmp) of nine in-range anchors with the raw value whether it is in range or not; a cell is distinct by (type, operation, sign, bit length, expected accept/reject)"
        ),
        assumptions: vec![
            "the typeshare crate is linked from VERIF_REPO/lib with release semantics (no overflow checks)".into(),
            "serde_json 1.x from /repo/Cargo.lock parses decimal literals".into(),
            "usize is 64 bits on this target".into(),
        ],
        exhaustive: Some(false),
    };
    (spec, rep)
}
