//! C05 — type expressions translate structurally, losslessly and honour type mappings.
//! Oracle: an independent reference translator (Rust model tree -> abstract tree) plus per-language
//! tables giving each foreign primitive its JSON category and integer range.
use crate::checks::broad::{run_rounds, usable, Case, Gen};
use crate::gen::{gen_ty, TyCtx, KEY_PRIMS, PLAIN_WRAPPERS, SUPPORTED_PRIMS};
use crate::ir::{DefKind, Payload, TypeExpr};
use crate::model::Ty;
use crate::report::{Ctx, Report, Spec};
use crate::rng::Rng;
use crate::sut::{LangCfg, LangId, SrcFile, ALL_LANGS};
use serde_json::json;
use std::collections::{BTreeMap, HashMap};

#[derive(Clone, Copy, PartialEq, Debug)]
enum Cat {
    Int(i128, i128),
    Float(u8),
    Bool,
    Str,
    Unit,
}

fn rust_prim(p: &str) -> Cat {
    match p {
        "bool" => Cat::Bool,
        "char" | "String" | "&str" => Cat::Str,
        "i8" => Cat::Int(-128, 127),
        "i16" => Cat::Int(-32768, 32767),
        "i32" => Cat::Int(-(1 << 31), (1 << 31) - 1),
        "u8" => Cat::Int(0, 255),
        "u16" => Cat::Int(0, 65535),
        "u32" => Cat::Int(0, (1 << 32) - 1),
        "I54" => Cat::Int(-((1 << 53) - 1), (1 << 53) - 1),
        "U53" => Cat::Int(0, (1 << 53) - 1),
        "f32" => Cat::Float(32),
        "f64" => Cat::Float(64),
        _ => Cat::Unit,
    }
}

/// what a foreign primitive can hold: list of categories
fn foreign_prim(lang: LangId, name: &str, scala_aliases: &BTreeMap<String, String>) -> Option<Vec<Cat>> {
    let int = |lo: i128, hi: i128| Some(vec![Cat::Int(lo, hi)]);
    let s53: i128 = (1 << 53) - 1;
    match lang {
        LangId::Ts => match name {
            "number" => Some(vec![Cat::Int(-s53, s53), Cat::Float(64)]),
            "boolean" => Some(vec![Cat::Bool]),
            "string" => Some(vec![Cat::Str]),
            "undefined" => Some(vec![Cat::Unit]),
            _ => None,
        },
        LangId::Kotlin | LangId::Scala => {
            let name = if lang == LangId::Scala { scala_aliases.get(name).map(|s| s.as_str()).unwrap_or(name) } else { name };
            match name {
                "Byte" => int(-128, 127),
                "Short" => int(-32768, 32767),
                "Int" => int(-(1 << 31), (1 << 31) - 1),
                "Long" => int(-(1 << 63), (1 << 63) - 1),
                "UByte" if lang == LangId::Kotlin => int(0, 255),
                "UShort" if lang == LangId::Kotlin => int(0, 65535),
                "UInt" if lang == LangId::Kotlin => int(0, (1 << 32) - 1),
                "ULong" if lang == LangId::Kotlin => int(0, (1i128 << 64) - 1),
                "Float" => Some(vec![Cat::Float(32)]),
                "Double" => Some(vec![Cat::Float(64)]),
                "Boolean" => Some(vec![Cat::Bool]),
                "String" => Some(vec![Cat::Str]),
                "Unit" => Some(vec![Cat::Unit]),
                _ => None,
            }
        }
        LangId::Swift => match name {
            "Int8" => int(-128, 127),
            "Int16" => int(-32768, 32767),
            "Int32" => int(-(1 << 31), (1 << 31) - 1),
            "Int64" | "Int" => int(-(1 << 63), (1 << 63) - 1),
            "UInt8" => int(0, 255),
            "UInt16" => int(0, 65535),
            "UInt32" => int(0, (1 << 32) - 1),
            "UInt64" | "UInt" => int(0, (1i128 << 64) - 1),
            "Float" => Some(vec![Cat::Float(32)]),
            "Double" => Some(vec![Cat::Float(64)]),
            "Bool" => Some(vec![Cat::Bool]),
            "String" | "Unicode.Scalar" | "Character" => Some(vec![Cat::Str]),
            "CodableVoid" => Some(vec![Cat::Unit]),
            _ => None,
        },
        LangId::Go => match name {
            "int" | "int32" | "rune" => int(-(1 << 31), (1 << 31) - 1),
            "int8" => int(-128, 127),
            "int16" => int(-32768, 32767),
            "int64" => int(-(1 << 63), (1 << 63) - 1),
            "uint8" | "byte" => int(0, 255),
            "uint16" => int(0, 65535),
            "uint32" | "uint" => int(0, (1 << 32) - 1),
            "uint64" => int(0, (1i128 << 64) - 1),
            "float32" => Some(vec![Cat::Float(32)]),
            "float64" => Some(vec![Cat::Float(64)]),
            "bool" => Some(vec![Cat::Bool]),
            "string" => Some(vec![Cat::Str]),
            "struct{}" => Some(vec![Cat::Unit]),
            _ => None,
        },
        LangId::Python => match name {
            "int" => int(i128::MIN, i128::MAX),
            "float" => Some(vec![Cat::Float(64)]),
            "bool" => Some(vec![Cat::Bool]),
            "str" => Some(vec![Cat::Str]),
            "None" => Some(vec![Cat::Unit]),
            _ => None,
        },
    }
}

fn holds(foreign: &[Cat], want: Cat) -> Result<(), &'static str> {
    let mut same_cat = false;
    for f in foreign {
        match (f, want) {
            (Cat::Int(lo, hi), Cat::Int(wlo, whi)) => {
                same_cat = true;
                if *lo <= wlo && *hi >= whi {
                    return Ok(());
                }
            }
            (Cat::Float(fb), Cat::Float(wb)) => {
                same_cat = true;
                if *fb >= wb {
                    return Ok(());
                }
            }
            (Cat::Bool, Cat::Bool) | (Cat::Str, Cat::Str) | (Cat::Unit, Cat::Unit) => return Ok(()),
            _ => {}
        }
    }
    if same_cat {
        Err("too-narrow")
    } else {
        Err("category")
    }
}

struct Env<'a> {
    lang: LangId,
    cfg: &'a LangCfg,
    generics: &'a [String],
    scala_aliases: &'a BTreeMap<String, String>,
}

/// typeshare's Display of a special type, the key under which container instances can be mapped
fn special_key(t: &Ty) -> Option<String> {
    fn id(t: &Ty) -> String {
        match t.peel() {
            Ty::Prim("&str") => "String".into(),
            Ty::Prim(p) => p.to_string(),
            Ty::Unit => "()".into(),
            Ty::Vec(_) => "Vec".into(),
            Ty::Array(..) | Ty::Slice(_) => "[]".into(),
            Ty::Opt(_) => "Option".into(),
            Ty::Map(..) => "HashMap".into(),
            Ty::User(n, _) => n.clone(),
            Ty::Param(p) => p.clone(),
            _ => "?".into(),
        }
    }
    fn show(t: &Ty) -> String {
        match t.peel() {
            Ty::Vec(x) => format!("Vec<{}>", show(x)),
            Ty::Array(x, _) => format!("[{}]", show(x)),
            Ty::Slice(x) => format!("&[{}]", show(x)),
            Ty::Map(k, v) => format!("HashMap<{},{}>", show(k), show(v)),
            Ty::Opt(x) => format!("Option<{}>", id(x)),
            Ty::User(n, a) if !a.is_empty() => format!("{n}<{}>", a.iter().map(show).collect::<Vec<_>>().join(", ")),
            other => id(other),
        }
    }
    match t.peel() {
        Ty::Vec(_) | Ty::Array(..) | Ty::Slice(_) | Ty::Map(..) | Ty::Opt(_) => Some(show(t)),
        _ => None,
    }
}

/// compare the expected translation of `t` with the observed expression; Err(class) on mismatch
fn matches(env: &Env, t: &Ty, x: &TypeExpr) -> Result<(), String> {
    let t = t.peel();
    // container instance mappings (TypeScript, Go, Python only)
    if matches!(env.lang, LangId::Ts | LangId::Go | LangId::Python) {
        if let Some(k) = special_key(t) {
            if let Some(m) = env.cfg.type_mappings.get(&k) {
                return if *x == TypeExpr::name(m) { Ok(()) } else { Err(format!("container-mapping-not-applied")) };
            }
        }
    }
    match t {
        Ty::Vec(e) | Ty::Slice(e) => match x {
            TypeExpr::Seq(xe) => matches(env, e, xe),
            _ => Err("sequence-shape".into()),
        },
        Ty::Array(e, n) => match (env.lang, x) {
            (LangId::Ts, TypeExpr::FixedSeq(xe, xn)) | (LangId::Go, TypeExpr::FixedSeq(xe, xn)) => {
                if xn != n {
                    return Err("array-length".into());
                }
                matches(env, e, xe)
            }
            // TypeScript writes a fixed-length array as a tuple of that many members: none for length 0
            (LangId::Ts, TypeExpr::Tuple(v)) if v.is_empty() => {
                if *n == 0 {
                    Ok(())
                } else {
                    Err("array-length".into())
                }
            }
            (LangId::Ts, _) | (LangId::Go, _) => Err("array-shape".into()),
            (_, TypeExpr::Seq(xe)) => matches(env, e, xe),
            _ => Err("array-shape".into()),
        },
        Ty::Map(k, v) => match x {
            TypeExpr::Map(xk, xv) => {
                matches(env, k, xk).map_err(|e| format!("map-key:{e}"))?;
                matches(env, v, xv)
            }
            _ => Err("map-shape".into()),
        },
        Ty::Opt(e) => match x {
            TypeExpr::Nullable(xe) => matches(env, e, xe),
            // TypeScript has no nullable form at type level: the option is dropped inside containers
            other if env.lang == LangId::Ts => matches(env, e, other),
            // Go without pointer for optional slices is a documented configuration, not used here
            _ => Err("option-shape".into()),
        },
        Ty::Unit => match x {
            TypeExpr::Name(n, a) if a.is_empty() => match foreign_prim(env.lang, n, env.scala_aliases) {
                Some(c) => holds(&c, Cat::Unit).map_err(|e| format!("unit:{e}")),
                None => Err("unit-shape".into()),
            },
            _ => Err("unit-shape".into()),
        },
        Ty::Prim(p) => match x {
            TypeExpr::Name(n, a) if a.is_empty() => match foreign_prim(env.lang, n, env.scala_aliases) {
                Some(c) => holds(&c, rust_prim(p)).map_err(|e| format!("primitive-{p}:{e}")),
                None => Err(format!("primitive-{p}:unknown-foreign-type")),
            },
            _ => Err(format!("primitive-{p}:shape")),
        },
        Ty::Param(p) => {
            if *x == TypeExpr::name(p) {
                Ok(())
            } else {
                Err("generic-parameter-changed".into())
            }
        }
        Ty::User(n, args) => {
            if let Some(m) = env.cfg.type_mappings.get(n) {
                return if *x == TypeExpr::name(m) { Ok(()) } else { Err("type-mapping-not-applied".into()) };
            }
            let want = format!("{}{}", env.cfg.prefix, n);
            match x {
                TypeExpr::Name(xn, xa) => {
                    if *xn != want {
                        return Err(if xn.ends_with(n.as_str()) || want.ends_with(xn.as_str()) { "user-type-prefix".into() } else { "user-type-name".into() });
                    }
                    if xa.len() != args.len() {
                        return Err("generic-argument-count".into());
                    }
                    for (a, b) in args.iter().zip(xa.iter()) {
                        matches(env, a, b).map_err(|e| format!("generic-argument:{e}"))?;
                    }
                    Ok(())
                }
                _ => Err("user-type-shape".into()),
            }
        }
        Ty::DateTime => Ok(()),
        _ => Err("unsupported-in-model".into()),
    }
}

#[derive(Clone)]
struct Model {
    generics: Vec<String>,
    fields: Vec<Ty>,
    payloads: Vec<Ty>,
    aliases: Vec<Ty>,
    consts: Vec<&'static str>,
    /// generic aliases / newtype structs / tagged-enum payloads whose target mentions the item's own parameters
    galiases: Vec<Ty>,
    gnewtypes: Vec<Ty>,
    gpayloads: Vec<Ty>,
    gparams: Vec<String>,
}

fn render(m: &Model, rng: &mut Rng) -> String {
    let mut s = String::from("#[typeshare]\npub struct UserA { pub v: u8 }\n#[typeshare]\npub struct UserB { pub w: String }\n#[typeshare]\npub struct Gen1<X> { pub g: X }\n#[typeshare]\npub struct Gen2<X, Y> { pub g: X, pub h: Y }\n\n");
    // a third of the programs declare defaults for the trailing or for all type parameters (`<T, U = String>`): a parameter
    // with a default is a parameter like any other (chosen by the shape of the model, not by the random stream)
    let sel = (m.generics.len() + m.galiases.len() + m.gnewtypes.len() + m.consts.len()) % 6;
    let decl = |ps: &[String]| -> String {
        let n = ps.len();
        ps.iter()
            .enumerate()
            .map(|(i, p)| match sel {
                0 if i == n - 1 => format!("{p} = String"),
                1 => format!("{p} = u32"),
                _ => p.clone(),
            })
            .collect::<Vec<_>>()
            .join(", ")
    };
    let g = if m.generics.is_empty() { String::new() } else { format!("<{}>", decl(&m.generics)) };
    // a constraints decorator that names a parameter other than the first: the declaration keeps the parameters in order
    let deco = match m.generics.len() {
        2 if rng.coin() => format!("(swiftGenericConstraints = \"{}: Equatable & Hashable\")", m.generics[1]),
        1 if rng.chance(1, 3) => format!("(swiftGenericConstraints = \"{}: Equatable\")", m.generics[0]),
        _ => String::new(),
    };
    s.push_str(&format!("#[typeshare{deco}]\npub struct Holder{g} {{\n"));
    for (i, t) in m.fields.iter().enumerate() {
        // a sixth of the fields / payloads state their shared type through `serialized_as` on a field of an opaque Rust type:
        // the same translation is expected
        if rng.chance(1, 6) {
            s.push_str(&format!("    #[typeshare(serialized_as = \"{}\")]\n    pub f{i}: OpaqueForeign,\n", t.render(rng, true)));
        } else {
            s.push_str(&format!("    pub f{i}: {},\n", t.render(rng, true)));
        }
    }
    s.push_str("}\n\n");
    if !m.payloads.is_empty() {
        // lifetime parameters are not type parameters: they vanish from the declaration, the reference from the payload
        s.push_str("#[typeshare]\n#[serde(tag = \"t\", content = \"c\")]\npub enum Choice<'a, 'b: 'a> {\n");
        for (i, t) in m.payloads.iter().enumerate() {
            if rng.chance(1, 6) {
                s.push_str(&format!("    Pay{i}(#[typeshare(serialized_as = \"{}\")] OpaqueForeign),\n", t.render(rng, true)));
            } else {
                s.push_str(&format!("    Pay{i}({}),\n", t.render(rng, true)));
            }
        }
        s.push_str("    LtPay(&'a str),\n    LtRec { lt: &'b [u8] },\n");
        s.push_str("}\n\n");
    }
    for (i, t) in m.aliases.iter().enumerate() {
        s.push_str(&format!("#[typeshare]\npub type Alias{i} = {};\n", t.render(rng, true)));
    }
    for (i, p) in m.consts.iter().enumerate() {
        s.push_str(&format!("#[typeshare]\npub const CONST_{i}: {p} = {};\n", i + 1));
    }
    let gp = format!("<{}>", decl(&m.gparams));
    for (i, t) in m.galiases.iter().enumerate() {
        s.push_str(&format!("#[typeshare]\npub type Palias{i}{gp} = {};\n", t.render(rng, true)));
    }
    for (i, t) in m.gnewtypes.iter().enumerate() {
        s.push_str(&format!("#[typeshare]\npub struct Pnew{i}{gp}({});\n", t.render(rng, true)));
    }
    if !m.gpayloads.is_empty() {
        let deco = if m.gparams.len() == 2 && rng.coin() { format!("(swiftGenericConstraints = \"{}: Hashable\")", m.gparams[1]) } else { String::new() };
        s.push_str(&format!("#[typeshare{deco}]\n#[serde(tag = \"t\", content = \"c\")]\npub enum Pchoice{gp} {{\n"));
        for (i, t) in m.gpayloads.iter().enumerate() {
            s.push_str(&format!("    Gpay{i}({}),\n", t.render(rng, true)));
        }
        // a struct variant whose fields mention the parameters in the reverse of their declaration order: the helper type a
        // backend derives for it and the place that uses the helper have to agree on the parameter order
        let rev: Vec<&String> = m.gparams.iter().rev().collect();
        s.push_str("    Grec {\n");
        for (i, p) in rev.iter().enumerate() {
            s.push_str(&format!("        g{i}: {},\n", if i % 2 == 0 { format!("Vec<{p}>") } else { p.to_string() }));
        }
        s.push_str("    },\n");
        // struct variants that mention a parameter only below the first level of a container, or only as a map key: the
        // helper type still has to declare it (and a declared parameter is never given the type prefix)
        for (vname, fields) in extra_struct_variants(m) {
            s.push_str(&format!("    {vname} {{\n"));
            for (fname, t) in fields {
                s.push_str(&format!("        {fname}: {},\n", t.render(rng, true)));
            }
            s.push_str("    },\n");
        }
        s.push_str("}\n\n");
    }
    s
}

/// (variant, [(field, type)]) of the additional struct variants of `Pchoice`; the map-key variant only for two parameters
/// (TypeScript refuses generic map keys: those programs do not go to it)
fn extra_struct_variants(m: &Model) -> Vec<(&'static str, Vec<(&'static str, Ty)>)> {
    let first = Ty::Param(m.gparams[0].clone());
    let last = Ty::Param(m.gparams[m.gparams.len() - 1].clone());
    let mut v = vec![(
        "Gdeep",
        vec![
            ("d0", Ty::Vec(Box::new(Ty::Vec(Box::new(first.clone()))))),
            ("d1", Ty::Opt(Box::new(Ty::Map(Box::new(Ty::Prim("String")), Box::new(Ty::Vec(Box::new(last.clone()))))))),
        ],
    )];
    if m.gparams.len() == 2 {
        v.push(("Gkey", vec![("k0", Ty::Map(Box::new(last), Box::new(Ty::Prim("u8")))), ("k1", Ty::Prim("bool"))]));
    }
    v
}

fn enumerate_depth2() -> Vec<Ty> {
    let mut leaves: Vec<Ty> = SUPPORTED_PRIMS.iter().map(|p| Ty::Prim(p)).collect();
    leaves.push(Ty::Unit);
    leaves.push(Ty::user("UserA"));
    leaves.push(Ty::Param("T".into()));
    leaves.push(Ty::User("Gen1".into(), vec![Ty::Prim("u8")]));
    let wrap = |t: &Ty| -> Vec<Ty> {
        let mut v = vec![Ty::Vec(Box::new(t.clone())), Ty::Array(Box::new(t.clone()), 3), Ty::Array(Box::new(t.clone()), 0), Ty::Slice(Box::new(t.clone())), Ty::Opt(Box::new(t.clone())), Ty::Ref(Box::new(t.clone())), Ty::User("Gen1".into(), vec![t.clone()])];
        for w in PLAIN_WRAPPERS {
            v.push(Ty::Wrap(w, Box::new(t.clone())));
        }
        for k in KEY_PRIMS {
            v.push(Ty::Map(Box::new(Ty::Prim(k)), Box::new(t.clone())));
        }
        v.push(Ty::Map(Box::new(Ty::user("UserB")), Box::new(t.clone())));
        v
    };
    let mut d1 = vec![];
    for l in &leaves {
        d1.extend(wrap(l));
    }
    let mut d2 = vec![];
    for t in &d1 {
        d2.extend(wrap(t));
    }
    let mut all = leaves;
    all.extend(d1);
    all.extend(d2);
    all
}

fn judge(case: &Case<Model>, rep: &mut Report) {
    let lname = case.lang.name();
    let Some(file) = usable(case, "C05", rep, true) else { return };
    let m = case.model;
    // Scala resolves UByte.. through the aliases the same file defines
    let mut scala_aliases = BTreeMap::new();
    if case.lang == LangId::Scala {
        for d in &file.defs {
            if d.kind == DefKind::Helper {
                if let Some(TypeExpr::Name(n, _)) = &d.alias_target {
                    scala_aliases.insert(d.name.clone(), n.clone());
                }
            }
        }
    }
    let mut check = |pos: &str, t: &Ty, x: &TypeExpr, generics: &[String], top_field: bool, rep: &mut Report| {
        let env = Env { lang: case.lang, cfg: case.cfg, generics, scala_aliases: &scala_aliases };
        let _ = env.generics;
        // the parsers move one optional layer of a field / payload / alias into markers
        let mut t_eff = t.peel().clone();
        let mut x_eff = x.clone();
        if let Ty::Opt(inner) = &t_eff {
            let mapped = matches!(case.lang, LangId::Ts | LangId::Go | LangId::Python) && special_key(&t_eff).map(|k| case.cfg.type_mappings.contains_key(&k)).unwrap_or(false);
            if !mapped {
                if top_field {
                    t_eff = inner.peel().clone();
                } else if let TypeExpr::Nullable(xi) = &x_eff {
                    t_eff = inner.peel().clone();
                    x_eff = (**xi).clone();
                } else if case.lang == LangId::Ts {
                    t_eff = inner.peel().clone();
                }
            }
        } else if case.lang == LangId::Go && pos == "payload" {
            // struct-typed payloads travel as pointers in the Go accessors
            if let TypeExpr::Nullable(xi) = &x_eff {
                x_eff = (**xi).clone();
            }
        }
        rep.eval(1);
        rep.count(&format!("type_expressions_compared_{lname}"), 1);
        rep.count(&format!("position_{pos}"), 1);
        rep.cell(format!("{lname}|{pos}|depth{}|{}", t.depth().min(5), shape_class(t)));
        if let Err(cls) = matches(&env, &t_eff, &x_eff) {
            let cls_short: String = cls.split(':').last().unwrap_or(&cls).to_string();
            let prim = cls.split(':').find(|p| p.starts_with("primitive-")).unwrap_or("").to_string();
            let inside = if cls.contains("map-key") { "in-map-key" } else { "" };
            rep.violate(
                format!("C05|{lname}|{cls_short}|{prim}|{inside}"),
                format!("{pos} of Rust type `{}` generated as {} ({cls})", t.show(), x.show()),
                case.detail(json!({"position": pos, "rust_type": t.show(), "generated": x.show(), "mismatch": cls})),
            );
        }
    };
    let prefix = &case.cfg.prefix;
    let holder = file.defs.iter().find(|d| d.name == format!("{prefix}Holder") && d.kind == DefKind::Struct);
    match holder {
        Some(h) => {
            if h.fields.len() != m.fields.len() {
                rep.violate(format!("C05|{lname}|field-count"), format!("Holder has {} fields for {}", h.fields.len(), m.fields.len()), case.detail(json!(null)));
            } else {
                for (t, f) in m.fields.iter().zip(h.fields.iter()) {
                    check("field", t, &f.ty, &m.generics, true, rep);
                }
                // generic parameters preserved in order
                if h.generics != m.generics {
                    rep.violate(format!("C05|{lname}|generic-parameters-changed"), format!("Holder generics {:?} for {:?}", h.generics, m.generics), case.detail(json!(null)));
                }
            }
        }
        None => rep.violate(format!("C05|{lname}|holder-missing"), "struct Holder not found under its (prefixed) name".to_string(), case.detail(json!(null))),
    }
    if !m.payloads.is_empty() {
        if let Some(c) = file.defs.iter().find(|d| d.name == format!("{prefix}Choice") && d.kind == DefKind::TaggedEnum) {
            if !c.generics.is_empty() {
                rep.violate(format!("C05|{lname}|lifetime-parameter-kept"), format!("Choice<'a, 'b> is declared with parameters {:?}", c.generics), case.detail(json!(null)));
            }
            if let Some(v) = c.variants.iter().find(|v| v.ident.to_lowercase().contains("ltpay")) {
                if let Payload::Newtype(x) = &v.payload {
                    check("payload", &Ty::Prim("&str"), x, &[], false, rep);
                }
            }
            for (t, v) in m.payloads.iter().zip(c.variants.iter()) {
                if let Payload::Newtype(x) = &v.payload {
                    // an optional layer moved into markers (TS `content?:`, Python Optional[..]) vs kept in the type (Kotlin `T?`, ...)
                    let top = matches!(case.lang, LangId::Ts | LangId::Python) && (v.markers.contains("?") || v.markers.contains("Optional"));
                    check("payload", t, x, &[], top, rep);
                }
            }
        }
    }
    for (i, t) in m.aliases.iter().enumerate() {
        let name = format!("Alias{i}");
        if let Some(d) = file.defs.iter().find(|d| d.kind == DefKind::Alias && d.name.ends_with(&name)) {
            if let Some(x) = &d.alias_target {
                check("alias", t, x, &[], d.alias_markers.contains("|undefined"), rep);
            }
        }
    }
    for (what, list) in [("Palias", &m.galiases), ("Pnew", &m.gnewtypes)] {
        for (i, t) in list.iter().enumerate() {
            let name = format!("{prefix}{what}{i}");
            match file.defs.iter().find(|d| d.kind == DefKind::Alias && d.name == name) {
                Some(d) => {
                    if d.generics != m.gparams {
                        rep.violate(format!("C05|{lname}|generic-parameters-changed|generic-alias"), format!("{name} generics {:?} for {:?}", d.generics, m.gparams), case.detail(json!({"definition": name})));
                    }
                    if let Some(x) = &d.alias_target {
                        check(if what == "Palias" { "generic-alias" } else { "generic-newtype" }, t, x, &m.gparams, d.alias_markers.contains("|undefined"), rep);
                    }
                }
                None => rep.violate(format!("C05|{lname}|generic-alias-missing"), format!("{name} not found as an alias under its (prefixed) name"), case.detail(json!({"definition": name}))),
            }
        }
    }
    if !m.gpayloads.is_empty() {
        match file.defs.iter().find(|d| d.name == format!("{prefix}Pchoice") && d.kind == DefKind::TaggedEnum) {
            Some(c) => {
                if c.generics != m.gparams {
                    rep.violate(format!("C05|{lname}|generic-parameters-changed|generic-enum"), format!("Pchoice generics {:?} for {:?}", c.generics, m.gparams), case.detail(json!(null)));
                }
                for (t, v) in m.gpayloads.iter().zip(c.variants.iter()) {
                    if let Payload::Newtype(x) = &v.payload {
                        let top = matches!(case.lang, LangId::Ts | LangId::Python) && (v.markers.contains("?") || v.markers.contains("Optional"));
                        check("generic-payload", t, x, &m.gparams, top, rep);
                    }
                }
                // the struct variant: where a backend derives a generic helper type, the arguments at the use site must be
                // the helper's own parameters, in the helper's order (the fields inside the helper are typed with them)
                // (Go and Python have no generic form of a tagged enum at all - the recorded finding above - so there is no use
                // site carrying arguments to compare)
                if let Some(v) = c.variants.iter().find(|v| v.ident.to_lowercase().contains("grec")).filter(|_| !matches!(case.lang, LangId::Go | LangId::Python)) {
                    if let Payload::Newtype(TypeExpr::Name(hname, args)) = &v.payload {
                        if let Some(h) = file.defs.iter().find(|d| d.name == *hname && d.kind == DefKind::Struct) {
                            let used: Vec<String> = args.iter().filter_map(|a| if let TypeExpr::Name(n, aa) = a { if aa.is_empty() { Some(n.clone()) } else { None } } else { None }).collect();
                            rep.eval(1);
                            rep.count("struct_variant_helper_parameter_lists_compared", 1);
                            if used.len() == args.len() && used != h.generics {
                                rep.violate(format!("C05|{lname}|generic-arguments-permuted|struct-variant-helper"), format!("{hname} declares <{}> but the variant passes <{}>", h.generics.join(", "), used.join(", ")), case.detail(json!({"helper": hname, "declared": h.generics, "passed": used})));
                            }
                            // and the helper's fields follow the source: field i mentions reversed parameter i
                            let rev: Vec<&String> = m.gparams.iter().rev().collect();
                            for (i, f) in h.fields.iter().enumerate() {
                                if let Some(want) = rev.get(i) {
                                    let mut names = vec![];
                                    f.ty.names(&mut names);
                                    if !names.iter().any(|n| n == want) {
                                        rep.violate(format!("C05|{lname}|generic-parameter-changed|struct-variant-helper-field"), format!("{hname}.{}: {} does not mention parameter {want}", f.ident, f.ty.show()), case.detail(json!({"helper": hname, "field": f.ident})));
                                    }
                                }
                            }
                        }
                    }
                }
            }
            None => rep.violate(format!("C05|{lname}|generic-enum-missing"), "enum Pchoice not found under its (prefixed) name".to_string(), case.detail(json!(null))),
        }
        if let Some(c) = file.defs.iter().find(|d| d.name == format!("{prefix}Pchoice") && d.kind == DefKind::TaggedEnum).filter(|_| !matches!(case.lang, LangId::Go | LangId::Python)) {
            for (vname, fields) in extra_struct_variants(m) {
                let Some(v) = c.variants.iter().find(|v| v.ident.to_lowercase().contains(&vname.to_lowercase())) else { continue };
                // inline object (TypeScript) or a helper type referred to with arguments
                let (got, helper): (Vec<crate::ir::Field>, Option<&crate::ir::Def>) = match &v.payload {
                    Payload::Struct(fs) => (fs.clone(), None),
                    Payload::Newtype(TypeExpr::Name(hname, _)) => match file.defs.iter().find(|d| d.name == *hname && d.kind == DefKind::Struct) {
                        Some(h) => (h.fields.clone(), Some(h)),
                        None => continue,
                    },
                    _ => continue,
                };
                rep.count("deep_or_key_only_struct_variants_checked", 1);
                if let Some(h) = helper {
                    for p in &m.gparams {
                        let mentioned = fields.iter().any(|(_, t)| format!("{:?}", t).contains(&format!("Param(\"{p}\")")));
                        if mentioned && !h.generics.contains(p) {
                            rep.violate(format!("C05|{lname}|generic-parameter-not-declared|struct-variant-helper"), format!("{} uses parameter {p} of the enum (variant {vname}) but declares <{}>", h.name, h.generics.join(", ")), case.detail(json!({"helper": h.name, "declared": h.generics, "parameter": p})));
                        }
                    }
                }
                for ((fname, t), f) in fields.iter().zip(got.iter()) {
                    let _ = fname;
                    // the outermost Option of a field may live in a marker (`?`, `= _`, Optional[..]) instead of the type
                    check("struct-variant-field", t, &f.ty, &m.gparams, true, rep);
                }
            }
        }
    }
    for (i, p) in m.consts.iter().enumerate() {
        let want: Vec<String> = vec![format!("CONST_{i}"), format!("Const{i}"), format!("CONST{i}")];
        if let Some(d) = file.defs.iter().find(|d| d.kind == DefKind::Const && want.contains(&d.name)) {
            if let Some(x) = &d.const_type {
                check("const", &Ty::Prim(p), x, &[], false, rep);
            }
        }
    }
    if case.index < 2 {
        rep.sample(json!({"language": lname, "config": case.cfg.to_json(), "source": case.source(), "holder": holder.map(|h| h.to_json())}));
    }
}

fn leaf_of(cls: &str) -> String {
    // "primitive-u8:too-narrow" -> primitive name is part of the signature; others only the class
    let last = cls.split(':').rev().nth(1).unwrap_or("");
    if last.starts_with("primitive-") {
        last.to_string()
    } else {
        String::new()
    }
}

fn shape_class(t: &Ty) -> &'static str {
    match t {
        Ty::Vec(_) => "vec",
        Ty::Array(..) => "array",
        Ty::Slice(_) => "slice",
        Ty::Opt(_) => "option",
        Ty::Map(..) => "map",
        Ty::Wrap(..) => "smart-pointer",
        Ty::Ref(_) => "reference",
        Ty::User(_, a) if a.is_empty() => "user",
        Ty::User(..) => "generic-user",
        Ty::Param(_) => "parameter",
        Ty::Unit => "unit",
        _ => "primitive",
    }
}

/// User types whose names are keywords of a target language: the declaration and every reference must spell the same
/// name. Judged on the text: every maximal run of identifier characters and backticks that contains the type's name is
/// either the declared spelling or that spelling without its escaping backticks.
fn keyword_named_types() -> Report {
    let mut rep = Report::new();
    let names = ["Type", "Protocol", "Any"];
    let src = "#[typeshare]\npub struct Type { pub a: u8 }\n#[typeshare]\npub struct Protocol<T> { pub t: T, pub list: Vec<T> }\n#[typeshare]\npub enum Any { First, Second }\n#[typeshare]\npub struct Holder { pub a: Type, pub b: Vec<Type>, pub c: Option<Protocol<Type>>, pub d: HashMap<String, Any>, pub e: [Type; 2], pub f: Protocol<Vec<Any>> }\n#[typeshare]\npub type Shorthand = Protocol<String>;\n#[typeshare]\npub struct Wrapped(pub Type);\n#[typeshare]\n#[serde(tag = \"t\", content = \"c\")]\npub enum Choice { Plain(Type), Nested(Option<Protocol<Any>>), Fields { x: Type, y: Vec<Any> } }\n";
    let files = vec![SrcFile { path: "src/lib.rs".into(), source: src.into() }];
    for lang in [LangId::Swift, LangId::Kotlin] {
        for prefix in ["", "OP", "Core"] {
            let mut cfg = LangCfg::basic(lang);
            cfg.prefix = prefix.into();
            let o = crate::sut::run_lib(&files, lang, &cfg, false, &[]);
            rep.eval(1);
            rep.cell(format!("keyword-named-types|{}|prefix={}", lang.name(), !prefix.is_empty()));
            let text = match o.single() {
                Some(t) => t,
                None => {
                    rep.inconclusive("keyword-named-types-not-generated", serde_json::json!({"language": lang.name(), "outcome": o.describe()}));
                    continue;
                }
            };
            // comments out
            let code: String = text.lines().filter(|l| !l.trim_start().starts_with("//") && !l.trim_start().starts_with("*") && !l.trim_start().starts_with("/*")).collect::<Vec<_>>().join("\n");
            let mut runs: std::collections::BTreeSet<String> = Default::default();
            let mut cur = String::new();
            for ch in code.chars().chain(std::iter::once(' ')) {
                if ch.is_alphanumeric() || ch == '_' || ch == '`' {
                    cur.push(ch);
                } else if !cur.is_empty() {
                    runs.insert(std::mem::take(&mut cur));
                }
            }
            for name in names {
                // the declared spelling: the run that follows a declaration keyword
                let declared: Vec<String> = ["struct ", "class ", "enum ", "typealias ", "object "]
                    .iter()
                    .flat_map(|kw| code.match_indices(kw).map(|(i, _)| code[i + kw.len()..].chars().take_while(|c| c.is_alphanumeric() || *c == '_' || *c == '`').collect::<String>()).collect::<Vec<_>>())
                    .filter(|d| d.replace('`', "") == format!("{prefix}{name}"))
                    .collect();
                rep.count("keyword_named_type_declarations_seen", declared.len() as u64);
                let Some(decl) = declared.first() else {
                    rep.violate(format!("C05|{}|keyword-named-type|declaration-missing", lang.name()), format!("{}: no declaration of `{prefix}{name}` found for the user type `{name}`", lang.name()), serde_json::json!({"language": lang.name(), "prefix": prefix, "source": src, "output": text}));
                    continue;
                };
                let bare = decl.replace('`', "");
                for r in runs.iter().filter(|r| r.contains(name)) {
                    // longer identifiers that merely contain the name (coding keys, helper types of the enum) are other names
                    let stripped = r.replace('`', "");
                    if stripped != format!("{prefix}{name}") && stripped != name {
                        continue;
                    }
                    rep.count("keyword_named_type_spellings_checked", 1);
                    if r != decl && *r != bare {
                        rep.violate(
                            format!("C05|{}|keyword-named-type|reference-spelled-differently|prefix={}", lang.name(), !prefix.is_empty()),
                            format!("{}: user type `{name}` is declared as `{decl}` but also written as `{r}`", lang.name()),
                            serde_json::json!({"language": lang.name(), "prefix": prefix, "declared": decl, "spelling": r, "source": src, "output": text}),
                        );
                    }
                }
            }
        }
    }
    rep
}

pub fn run(ctx: &Ctx) -> (Spec, Report) {
    crate::model::EXOTIC_PATHS.store(true, std::sync::atomic::Ordering::Relaxed);
    let exh = enumerate_depth2();
    let per = 40usize;
    let n_exh = (exh.len() + per - 1) / per;
    let n = 2 * n_exh + ctx.tier.pick(2500, 30_000);
    let exh_ref = &exh;
    let rep = run_rounds(
        ctx,
        "C05",
        n,
        false,
        |rng: &mut Rng, i| {
            let mut model;
            let mut generic_items = false;
            if i >= n_exh && i < 2 * n_exh {
                // the same exhaustive expressions, those that mention T, as generic alias / newtype / payload targets
                let j = i - n_exh;
                let chunk = &exh_ref[j * per..((j + 1) * per).min(exh_ref.len())];
                let withp: Vec<Ty> = chunk.iter().filter(|t| format!("{:?}", t).contains("Param")).cloned().collect();
                model = Model { generics: vec![], fields: vec![Ty::Prim("u8")], payloads: vec![], aliases: vec![], consts: vec![], galiases: withp.clone(), gnewtypes: withp.clone(), gpayloads: withp, gparams: vec!["T".into()] };
                generic_items = !model.galiases.is_empty();
            } else if i < n_exh {
                let chunk = &exh_ref[i * per..((i + 1) * per).min(exh_ref.len())];
                model = Model { generics: vec!["T".into()], fields: chunk.to_vec(), payloads: vec![], aliases: vec![], consts: vec![], galiases: vec![], gnewtypes: vec![], gpayloads: vec![], gparams: vec![] };
                // payloads / aliases must not use the struct's type parameter
                let nonparam: Vec<Ty> = chunk.iter().filter(|t| !t.show().contains('T') || t.show().contains("String")).filter(|t| !format!("{:?}", t).contains("Param")).cloned().collect();
                model.payloads = nonparam.iter().take(12).cloned().collect();
                model.aliases = nonparam.iter().skip(12).take(12).cloned().collect();
            } else {
                let generics: Vec<String> = if rng.chance(1, 3) { vec!["T".into(), "U".into()] } else { vec![] };
                let cx = TyCtx { users: vec![("UserA".into(), 0), ("UserB".into(), 0), ("Gen1".into(), 1), ("Gen2".into(), 2)], params: generics.clone(), zero_len_arrays: true, ..Default::default() };
                let mut cx2 = cx.clone();
                cx2.params.clear();
                let depth = rng.range(1, 5);
                model = Model {
                    fields: (0..rng.range(2, 10)).map(|_| gen_ty(rng, &cx, depth)).collect(),
                    payloads: (0..rng.range(0, 4)).map(|_| gen_ty(rng, &cx2, depth)).collect(),
                    aliases: (0..rng.range(0, 4)).map(|_| gen_ty(rng, &cx2, depth)).collect(),
                    consts: vec![],
                    generics,
                    galiases: vec![],
                    gnewtypes: vec![],
                    gpayloads: vec![],
                    gparams: vec![],
                };
                if rng.chance(1, 3) {
                    // every generated target mentions at least one of the item's parameters
                    let gparams: Vec<String> = if rng.coin() { vec!["T".into()] } else { vec!["K".into(), "V".into()] };
                    let cxg = TyCtx { params: gparams.clone(), ..cx2.clone() };
                    let with_param = |rng: &mut Rng| -> Ty {
                        for _ in 0..20 {
                            let t = gen_ty(rng, &cxg, depth);
                            let s = format!("{:?}", t);
                            if gparams.iter().all(|p| s.contains(&format!("Param(\"{p}\")"))) {
                                return t;
                            }
                        }
                        let mut t = Ty::Param(gparams[0].clone());
                        if gparams.len() > 1 {
                            t = Ty::Map(Box::new(Ty::Prim("String")), Box::new(Ty::User("Gen2".into(), vec![Ty::Param(gparams[0].clone()), Ty::Vec(Box::new(Ty::Param(gparams[1].clone())))])));
                        }
                        t
                    };
                    model.galiases = (0..rng.range(1, 4)).map(|_| with_param(rng)).collect();
                    model.gnewtypes = (0..rng.range(0, 3)).map(|_| with_param(rng)).collect();
                    model.gpayloads = (0..rng.range(0, 3)).map(|_| with_param(rng)).collect();
                    model.gparams = gparams;
                    generic_items = true;
                }
                // container instances two levels deep, in several positions (they are keys of the mapping tables above)
                if rng.chance(1, 3) {
                    let vv = Ty::Vec(Box::new(Ty::Vec(Box::new(Ty::Prim("u8")))));
                    let mv = Ty::Map(Box::new(Ty::Prim("String")), Box::new(Ty::Vec(Box::new(Ty::Prim("u8")))));
                    let vm = Ty::Vec(Box::new(Ty::Map(Box::new(Ty::Prim("String")), Box::new(Ty::Prim("u32")))));
                    model.fields.push(vv.clone());
                    model.fields.push(Ty::Opt(Box::new(mv.clone())));
                    model.fields.push(Ty::Vec(Box::new(vm.clone())));
                    model.aliases.push(mv);
                    model.payloads.push(vm);
                    model.aliases.push(Ty::Opt(Box::new(vv)));
                }
                // user types as map keys (typeshare accepts them)
                if rng.chance(1, 3) {
                    model.fields.push(Ty::Map(Box::new(Ty::user("UserB")), Box::new(gen_ty(rng, &cx, 2))));
                    model.aliases.push(Ty::Vec(Box::new(Ty::Map(Box::new(Ty::user("UserA")), Box::new(Ty::Prim("u8"))))));
                }
            }
            let src_rng_seed = rng.next_u64();
            let mut langs = vec![];
            for l in ALL_LANGS {
                let mut c = LangCfg::basic(l);
                if matches!(l, LangId::Swift | LangId::Kotlin) && rng.coin() {
                    c.prefix = "OP".into();
                }
                // random type_mappings table
                if rng.chance(1, 2) {
                    let mut tm = HashMap::new();
                    for (k, v) in [("UserA", "MappedA"), ("UserB", "MappedB"), ("Gen1", "MappedGen"), ("Gen2", "MappedGen2")] {
                        if rng.chance(1, 3) {
                            tm.insert(k.to_string(), v.to_string());
                        }
                    }
                    if matches!(l, LangId::Ts | LangId::Go | LangId::Python) {
                        for (k, v) in [("Vec<u8>", "MappedBytes"), ("HashMap<String,u32>", "MappedCounts"), ("[u8]", "MappedArr"), ("&[u8]", "MappedSlice"), ("Option<u8>", "MappedOpt")] {
                            if rng.chance(1, 3) {
                                tm.insert(k.to_string(), v.to_string());
                            }
                        }
                        // instances whose element is itself a container (the key is the Rust spelling of the whole type)
                        for (k, v) in [("Vec<Vec<u8>>", "MappedMatrix"), ("HashMap<String,Vec<u8>>", "MappedBlobMap"), ("Vec<HashMap<String,u32>>", "MappedCountList")] {
                            if rng.chance(1, 2) {
                                tm.insert(k.to_string(), v.to_string());
                            }
                        }
                    }
                    c.type_mappings = tm;
                }
                langs.push((l, c));
            }
            let mut m2 = model.clone();
            // consts only for backends that have them: rendered once, so add them only when every selected language supports them
            let const_langs = rng.chance(1, 4);
            if const_langs {
                m2.consts = vec!["u8", "u32", "i16", "I54"];
                langs.retain(|(l, _)| l.supports_const());
            }
            // Go/Python do not support generic enums/aliases: programs with generic items go to the other four
            let _ = generic_items;
            // the map-key-only variant exists for two parameters; the TypeScript and Python backends refuse generic map keys outright
            if !m2.gpayloads.is_empty() && m2.gparams.len() == 2 {
                langs.retain(|(l, _)| !matches!(l, LangId::Ts | LangId::Python));
            }
            let mut r2 = Rng::new(src_rng_seed);
            let src = render(&m2, &mut r2);
            Gen { model: m2, files: vec![SrcFile { path: "src/lib.rs".into(), source: src }], multi: false, langs }
        },
        judge,
    );
    let mut rep = rep;
    rep.merge(keyword_named_types());
    let spec = Spec {
        level: "exploration",
        rule: format!("all {} type expressions of depth <= 2 over {{14 primitives, (), user type, generic parameter, generic instance}} closed under Vec, [T;3], [T;0], &[T], Option, &T, 8 smart pointers, generic user type and HashMap with 7 key types (exhaustive, {} programs), plus random trees of depth <= 5; positions field / newtype payload / alias target / const type (a sixth of the fields and payloads given through `serialized_as` on an opaque Rust type) / generic alias, generic newtype struct and generic tagged-enum payload whose target mentions the item's own parameters, struct variants that mention a parameter only at depth 2-3 or only as a map key (TS, Kotlin, Swift, Scala); random prefix and type_mappings tables (user types and generic bases for all backends, container instances one and two levels deep for TS/Go/Python), path qualification varied (bare, std::, ::std::, alloc::, module-relative such as `collections::HashMap`); each use site is parsed back into a tree and compared with an independent reference translation under per-language JSON-category and integer-range tables; plus user types whose own names are Swift keywords (Type, Protocol, Any) referred to from 11 positions under 3 prefixes in Swift and Kotlin, where every spelling of the name in the output must be the declared one; distinct = (language, position, depth, outer constructor)", exh.len(), n_exh),
        assumptions: vec![
            "TypeScript has no nullable form at type level: an Option nested inside a container may translate to the bare element type".into(),
            "Go `int` and `uint` are taken at their guaranteed 32 bits; Python int is unbounded".into(),
        ],
        exhaustive: Some(false),
    };
    (spec, rep)
}
