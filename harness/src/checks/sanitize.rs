//! Sanitizer slices (thorough tier): ThreadSanitizer build of the hooked CLI, Miri runs of the CLI.
//! A clean run is reported as "no report on N executions", never as memory safety.
use crate::report::{Ctx, Report};
use crate::rng::Rng;
use crate::sut::{write_tree, SrcFile};
use serde_json::json;
use std::collections::BTreeMap;
use std::path::PathBuf;
use std::process::Command;

fn small_tree(rng: &mut Rng, n_files: usize) -> Vec<SrcFile> {
    let crates = ["aa", "bb", "cc"];
    (0..n_files)
        .map(|i| {
            let c = crates[i % 3];
            let id = rng.below(100000);
            SrcFile {
                path: format!("src_root/{c}/src/f{i}.rs"),
                source: format!(
                    "#[typeshare]\npub struct S{id}x{i} {{ pub a: u32, pub b: Vec<String> }}\n#[typeshare]\n#[serde(tag = \"t\", content = \"c\")]\npub enum E{id}x{i} {{ A, B(u32), C {{ x: bool }} }}\n#[typeshare]\npub type T{id}x{i} = Vec<u8>;\n#[typeshare]\npub const C{id}X{i}: u32 = {i};\n"
                ),
            }
        })
        .collect()
}

/// Build the CLI with -Zsanitizer=thread (nightly, -Zbuild-std). None = build not possible here (inconclusive).
pub fn build_tsan_cli(ctx: &Ctx) -> Result<PathBuf, String> {
    let target = ctx.build.join(format!("cli-tsan-{}", ctx.tag));
    let out = Command::new("cargo")
        .args(["+nightly", "build", "--offline", "-Zbuild-std", "--target", "x86_64-unknown-linux-gnu", "-p", "typeshare-cli", "--features", "go,python", "--manifest-path"])
        .arg(ctx.repo.join("Cargo.toml"))
        .arg("--target-dir")
        .arg(&target)
        .env("RUSTFLAGS", "-Zsanitizer=thread --cfg typeshare_verif")
        .env("CARGO_NET_OFFLINE", "true")
        .output()
        .map_err(|e| e.to_string())?;
    if !out.status.success() {
        return Err(String::from_utf8_lossy(&out.stderr).chars().rev().take(1500).collect::<String>().chars().rev().collect());
    }
    Ok(target.join("x86_64-unknown-linux-gnu/debug/typeshare"))
}

/// Run the TSan binary over trees x thread counts x delays (incl. error paths); count report blocks.
pub fn tsan_slice(ctx: &Ctx, rep: &mut Report) {
    let bin = match build_tsan_cli(ctx) {
        Ok(b) => b,
        Err(e) => {
            rep.inconclusive("tsan-build-failed", json!({"stderr_tail": e}));
            return;
        }
    };
    let scratch = ctx.scratch("tsan");
    let mut rng = Rng::derive(ctx.seed, "tsan", 0);
    let mut runs = 0u64;
    let mut blocks: BTreeMap<String, u64> = BTreeMap::new();
    let n_trees = 12;
    for t in 0..n_trees {
        let root = scratch.join(format!("t{t}"));
        let mut files = small_tree(&mut rng, 9);
        if t % 4 == 3 {
            // error path: one file fails to parse -> WalkState::Quit, send after error
            files.push(SrcFile { path: "src_root/bb/src/broken.rs".into(), source: "#[typeshare]\npub struct Broken { pub a: u64 }\n".into() });
        }
        if t % 6 == 5 {
            files.push(SrcFile { path: "src_root/cc/src/unparsable.rs".into(), source: "#[typeshare]\npub struct {{{{\n".into() });
        }
        write_tree(&root, &files);
        let jobs: Vec<(usize, u64)> = (1..=16usize).flat_map(|th| (0..12u64).map(move |d| (th, d))).collect();
        let root_ref = &root;
        let bin_ref = &bin;
        let results: Vec<(i32, String)> = std::thread::scope(|s| {
            let hs: Vec<_> = jobs
                .chunks((jobs.len() + 15) / 16)
                .map(|ch| {
                    let ch = ch.to_vec();
                    s.spawn(move || {
                        let mut out = vec![];
                        for (th, d) in ch {
                            let lang = ["typescript", "swift", "kotlin", "go", "python"][(th + d as usize) % 5];
                            let multi = d % 2 == 0;
                            let outp = root_ref.join(format!("o-{th}-{d}"));
                            let log = root_ref.join(format!("tsan-{th}-{d}"));
                            let mut c = Command::new(bin_ref);
                            c.args(["--lang", lang, "--java-package", "a.b", "--go-package", "g"]);
                            if multi {
                                c.arg("--output-folder").arg(&outp);
                            } else {
                                c.arg("--output-file").arg(&outp);
                            }
                            c.arg("src_root").current_dir(root_ref);
                            c.env("TYPESHARE_VERIF_THREADS", th.to_string())
                                .env("TYPESHARE_VERIF_DELAYS", format!("{d}:800"))
                                .env("TSAN_OPTIONS", format!("halt_on_error=0 exitcode=66 log_path={}", log.display()))
                                .env_remove("TYPESHARE_VERIF_ORDER")
                                .env_remove("RUST_LOG");
                            let o = crate::sut::run_cmd_timeout(c, std::time::Duration::from_secs(60));
                            let mut text = String::new();
                            if let Ok(rd) = std::fs::read_dir(root_ref) {
                                for e in rd.flatten() {
                                    let n = e.file_name().to_string_lossy().to_string();
                                    if n.starts_with(&format!("tsan-{th}-{d}.")) {
                                        text.push_str(&std::fs::read_to_string(e.path()).unwrap_or_default());
                                        let _ = std::fs::remove_file(e.path());
                                    }
                                }
                            }
                            let _ = std::fs::remove_dir_all(&outp);
                            let _ = std::fs::remove_file(&outp);
                            out.push((o, text));
                        }
                        out
                    })
                })
                .collect();
            hs.into_iter().flat_map(|h| h.join().unwrap()).collect()
        });
        for (code, text) in results {
            runs += 1;
            if code == -2 {
                rep.inconclusive("tsan-run-timeout", json!({"tree": t}));
            }
            for block in text.split("WARNING: ThreadSanitizer").skip(1) {
                let kind = block.lines().next().unwrap_or("").trim().trim_start_matches(':').trim().to_string();
                let frame = block
                    .lines()
                    .find(|l| l.contains("typeshare") && (l.contains("cli/src") || l.contains("core/src")))
                    .or_else(|| block.lines().find(|l| l.trim_start().starts_with("#0")))
                    .unwrap_or("")
                    .split_whitespace()
                    .skip(1)
                    .take(2)
                    .collect::<Vec<_>>()
                    .join(" ");
                *blocks.entry(format!("{kind}|{frame}")).or_insert(0) += 1;
            }
        }
        let _ = std::fs::remove_dir_all(&root);
    }
    rep.count("tsan_runs", runs);
    rep.count("tsan_report_blocks", blocks.values().sum());
    rep.cell("tsan-slice");
    rep.eval(runs);
    for (k, n) in blocks {
        let in_typeshare = k.contains("cli/src") || k.contains("core/src");
        if in_typeshare {
            rep.violate(format!("C06|tsan|{}", k.chars().take(120).collect::<String>()), format!("ThreadSanitizer report x{n}: {k}"), json!({"report": k, "count": n}));
        } else {
            rep.inconclusive("tsan-report-outside-typeshare-frames", json!({"report": k, "count": n}));
        }
    }
    let _ = std::fs::remove_dir_all(&scratch);
}

/// The CLI under Miri with different scheduler seeds on a 3-file tree; outputs must be byte-identical
/// and Miri must report no undefined behaviour in typeshare frames.
pub fn miri_cli_slice(ctx: &Ctx, rep: &mut Report) {
    let scratch = ctx.scratch("miri");
    let mut rng = Rng::derive(ctx.seed, "miri", 0);
    let files = small_tree(&mut rng, 3);
    write_tree(&scratch, &files);
    let target = ctx.build.join(format!("miri-cli-{}", ctx.tag));
    let seeds: Vec<u64> = (0..8).collect();
    let run_one = |seed: u64| -> (bool, String, Vec<u8>) {
        let outp = scratch.join(format!("out-{seed}.ts"));
        let o = Command::new("cargo")
            .args(["+nightly", "miri", "run", "--offline", "-q", "-p", "typeshare-cli", "--features", "go,python", "--manifest-path"])
            .arg(ctx.repo.join("Cargo.toml"))
            .arg("--target-dir")
            .arg(&target)
            .arg("--")
            .args(["--lang", "typescript", "--output-file"])
            .arg(&outp)
            .arg(scratch.join("src_root"))
            .env("MIRIFLAGS", format!("-Zmiri-disable-isolation -Zmiri-permissive-provenance -Zmiri-tree-borrows -Zmiri-ignore-leaks -Zmiri-seed={seed}"))
            .env("RUSTFLAGS", "--cfg typeshare_verif")
            .env("CARGO_NET_OFFLINE", "true")
            .env_remove("RUST_LOG")
            .current_dir(&scratch)
            .output();
        match o {
            Ok(o) => (o.status.success(), String::from_utf8_lossy(&o.stderr).into_owned(), std::fs::read(&outp).unwrap_or_default()),
            Err(e) => (false, e.to_string(), vec![]),
        }
    };
    // first run builds; the rest in parallel
    let first = run_one(seeds[0]);
    if !first.0 && first.2.is_empty() && !first.1.contains("Undefined Behavior") {
        rep.inconclusive("miri-run-failed", json!({"stderr_tail": first.1.chars().rev().take(800).collect::<String>().chars().rev().collect::<String>()}));
        let _ = std::fs::remove_dir_all(&scratch);
        return;
    }
    let mut all = vec![(seeds[0], first)];
    let rest: Vec<(u64, (bool, String, Vec<u8>))> = std::thread::scope(|s| {
        let hs: Vec<_> = seeds[1..].iter().map(|&sd| { let r = &run_one; s.spawn(move || (sd, r(sd))) }).collect();
        hs.into_iter().map(|h| h.join().unwrap()).collect()
    });
    all.extend(rest);
    let reference = all[0].1 .2.clone();
    for (sd, (ok, stderr, bytes)) in &all {
        rep.eval(1);
        rep.count("miri_cli_runs", 1);
        if stderr.contains("Undefined Behavior") || stderr.contains("data race") {
            let frame = stderr.lines().find(|l| l.contains("cli/src") || l.contains("core/src")).unwrap_or("").trim().to_string();
            if frame.is_empty() {
                rep.inconclusive("miri-report-in-third-party-code", json!({"seed": sd, "stderr_tail": stderr.chars().rev().take(600).collect::<String>().chars().rev().collect::<String>()}));
            } else {
                rep.violate(format!("C06|miri|{}", frame.chars().take(100).collect::<String>()), format!("Miri reports undefined behaviour / data race at {frame}"), json!({"seed": sd, "stderr": stderr.chars().take(3000).collect::<String>()}));
            }
            continue;
        }
        if !ok {
            rep.inconclusive("miri-run-failed", json!({"seed": sd, "stderr_tail": stderr.chars().rev().take(400).collect::<String>().chars().rev().collect::<String>()}));
            continue;
        }
        if *bytes != reference {
            rep.violate("C06|miri|output-differs-between-seeds", format!("Miri seed {sd}: output differs from seed {}", all[0].0), json!({"seed": sd, "a": String::from_utf8_lossy(&reference), "b": String::from_utf8_lossy(bytes)}));
        }
    }
    rep.cell("miri-cli-slice");
    let _ = std::fs::remove_dir_all(&scratch);
}
