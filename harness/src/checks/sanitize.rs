//! Sanitizer slices (thorough tier): ThreadSanitizer build of the hooked CLI, Miri runs of the CLI.
//! A clean run is reported as "no report on N executions", never as memory safety.
use crate::report::{Ctx, Report};
use crate::rng::Rng;
use crate::sut::{write_tree, SrcFile};
use serde_json::json;
use std::collections::BTreeMap;
use std::path::PathBuf;
use std::process::Command;

fn small_tree(rng: &mut Rng, n_files: usize) -> Vec<SrcFile> {
    let crates = ["aa", "bb", "cc"];
    (0..n_files)
        .map(|i| {
            let c = crates[i % 3];
            let id = rng.below(100000);
            SrcFile {
                path: format!("src_root/{c}/src/f{i}.rs"),
                source: format!(
                    "#[typeshare]\npub struct S{id}x{i} {{ pub a: u32, pub b: Vec<String> }}\n#[typeshare]\n#[serde(tag = \"t\", content = \"c\")]\npub enum E{id}x{i} {{ A, B(u32), C {{ x: bool }} }}\n#[typeshare]\npub type T{id}x{i} = Vec<u8>;\n#[typeshare]\npub const C{id}X{i}: u32 = {i};\n"
                ),
            }
        })
        .collect()
}

/// Build the CLI with -Zsanitizer=thread (nightly, -Zbuild-std). None = build not possible here (inconclusive).
pub fn build_tsan_cli(ctx: &Ctx) -> Result<PathBuf, String> {
    let target = ctx.build.join(format!("cli-tsan-{}", ctx.tag));
    let out = Command::new("cargo")
        // release: the debug + TSan binary needs ~10 CPU seconds per run (regex / globset set-up), the optimised one 0.5 s
        .args(["+nightly", "build", "--offline", "--release", "-Zbuild-std", "--target", "x86_64-unknown-linux-gnu", "-p", "typeshare-cli", "--features", "go,python", "--manifest-path"])
        .arg(ctx.repo.join("Cargo.toml"))
        .arg("--target-dir")
        .arg(&target)
        .env("RUSTFLAGS", "-Zsanitizer=thread --cfg typeshare_verif")
        .env("CARGO_NET_OFFLINE", "true")
        .output()
        .map_err(|e| e.to_string())?;
    if !out.status.success() {
        return Err(String::from_utf8_lossy(&out.stderr).chars().rev().take(1500).collect::<String>().chars().rev().collect());
    }
    Ok(target.join("x86_64-unknown-linux-gnu/release/typeshare"))
}

/// Run the TSan binary over trees x thread counts x delays (incl. error paths); count report blocks.
pub fn tsan_slice(ctx: &Ctx, rep: &mut Report) {
    let bin = match build_tsan_cli(ctx) {
        Ok(b) => b,
        Err(e) => {
            rep.inconclusive("tsan-build-failed", json!({"stderr_tail": e}));
            return;
        }
    };
    let scratch = ctx.scratch("tsan");
    let mut rng = Rng::derive(ctx.seed, "tsan", 0);
    let mut runs = 0u64;
    let mut blocks: BTreeMap<(bool, String), u64> = BTreeMap::new();
    let repo_s = ctx.repo.canonicalize().unwrap_or(ctx.repo.clone()).to_string_lossy().trim_end_matches('/').to_string();
    let n_trees = 12;
    for t in 0..n_trees {
        let root = scratch.join(format!("t{t}"));
        let mut files = small_tree(&mut rng, 9);
        if t % 4 == 3 {
            // error path: one file fails to parse -> WalkState::Quit, send after error
            files.push(SrcFile { path: "src_root/bb/src/broken.rs".into(), source: "#[typeshare]\npub struct Broken { pub a: u64 }\n".into() });
        }
        if t % 6 == 5 {
            files.push(SrcFile { path: "src_root/cc/src/unparsable.rs".into(), source: "#[typeshare]\npub struct {{{{\n".into() });
        }
        write_tree(&root, &files);
        let jobs: Vec<(usize, u64)> = (1..=16usize).flat_map(|th| (0..12u64).map(move |d| (th, d))).collect();
        let root_ref = &root;
        let bin_ref = &bin;
        let results: Vec<(i32, String)> = std::thread::scope(|s| {
            let hs: Vec<_> = jobs
                .chunks((jobs.len() + 15) / 16)
                .map(|ch| {
                    let ch = ch.to_vec();
                    s.spawn(move || {
                        let mut out = vec![];
                        for (th, d) in ch {
                            let lang = ["typescript", "swift", "kotlin", "go", "python"][(th + d as usize) % 5];
                            let multi = d % 2 == 0;
                            let outp = root_ref.join(format!("o-{th}-{d}"));
                            let log = root_ref.join(format!("tsan-{th}-{d}"));
                            let mut c = Command::new(bin_ref);
                            c.args(["--lang", lang, "--java-package", "a.b", "--go-package", "g"]);
                            if multi {
                                c.arg("--output-folder").arg(&outp);
                            } else {
                                c.arg("--output-file").arg(&outp);
                            }
                            c.arg("src_root").current_dir(root_ref);
                            c.env("TYPESHARE_VERIF_THREADS", th.to_string())
                                .env("TYPESHARE_VERIF_DELAYS", format!("{d}:800"))
                                .env("TSAN_OPTIONS", format!("halt_on_error=0 exitcode=66 log_path={}", log.display()))
                                .env_remove("TYPESHARE_VERIF_ORDER")
                                .env_remove("RUST_LOG");
                            let o = crate::sut::run_cmd_timeout(c, std::time::Duration::from_secs(60));
                            let mut text = String::new();
                            if let Ok(rd) = std::fs::read_dir(root_ref) {
                                for e in rd.flatten() {
                                    let n = e.file_name().to_string_lossy().to_string();
                                    if n.starts_with(&format!("tsan-{th}-{d}.")) {
                                        text.push_str(&std::fs::read_to_string(e.path()).unwrap_or_default());
                                        let _ = std::fs::remove_file(e.path());
                                    }
                                }
                            }
                            let _ = std::fs::remove_dir_all(&outp);
                            let _ = std::fs::remove_file(&outp);
                            out.push((o, text));
                        }
                        out
                    })
                })
                .collect();
            hs.into_iter().flat_map(|h| h.join().unwrap()).collect()
        });
        for (code, text) in results {
            runs += 1;
            if code == -2 {
                rep.inconclusive("tsan-run-timeout", json!({"tree": t}));
            }
            for block in text.split("WARNING: ThreadSanitizer").skip(1) {
                // "data race (pid=123)" -> "data race"
                let kind = block.lines().next().unwrap_or("").trim().trim_start_matches(':').trim().split(" (pid").next().unwrap_or("").to_string();
                // a typeshare frame is a source path under the tree being checked (not libcore's `library/core/src/..`)
                let own = |l: &str| l.contains(&format!("{}/cli/src/", repo_s)) || l.contains(&format!("{}/core/src/", repo_s)) || l.contains(&format!("{}/lib/src/", repo_s));
                let frame_of = |l: &str| -> String {
                    // "#0 symbol path:line:col (module+0x..)" -> "symbol file" without line numbers
                    let mut it = l.split_whitespace().skip(1);
                    let sym = it.next().unwrap_or("").to_string();
                    let path = it.next().unwrap_or("");
                    let file = path.split(':').next().unwrap_or("").trim_start_matches(&repo_s).trim_start_matches('/').to_string();
                    format!("{sym} {file}")
                };
                // only the two access stacks say who touched the memory; the "Location is heap block allocated by" and
                // "Thread T5 (..) created by main thread at" sections always end in typeshare's parallel_parse / main
                let cut = ["\n  Location is", "\n  Thread T", "\n  Mutex M"].iter().filter_map(|m| block.find(m)).min().unwrap_or(block.len());
                let accesses = &block[..cut];
                match accesses.lines().find(|l| own(l)) {
                    Some(l) => *blocks.entry((true, format!("{kind}|{}", frame_of(l)))).or_insert(0) += 1,
                    None => {
                        let top = block.lines().find(|l| l.trim_start().starts_with("#0")).map(frame_of).unwrap_or_default();
                        // keep the crate, drop the registry hash and versions
                        let krate = ["crossbeam_epoch", "crossbeam_deque", "crossbeam_channel", "ignore", "std", "core", "alloc"].iter().find(|c| accesses.contains(&format!("{c}::"))).copied().unwrap_or("other");
                        let _ = top;
                        *blocks.entry((false, format!("{kind}|first-crate-in-stacks={krate}"))).or_insert(0) += 1
                    }
                }
            }
        }
        let _ = std::fs::remove_dir_all(&root);
    }
    rep.count("tsan_runs", runs);
    rep.count("tsan_report_blocks", blocks.values().sum());
    rep.cell("tsan-slice");
    rep.eval(runs);
    for ((in_typeshare, k), n) in blocks {
        if in_typeshare {
            rep.violate(format!("C06|tsan|{}", k.chars().take(120).collect::<String>()), format!("ThreadSanitizer report x{n} with a typeshare frame: {k}"), json!({"report": k, "count": n}));
        } else {
            // no typeshare source line in either stack: a report about a dependency's own synchronisation (crossbeam-epoch
            // synchronises with fences, which ThreadSanitizer does not model) - not a verdict about typeshare
            rep.count("tsan_report_blocks_without_typeshare_frame", n);
            rep.inconclusive("tsan-report-without-typeshare-frame", json!({"report": k, "count": n}));
        }
    }
    let _ = std::fs::remove_dir_all(&scratch);
}

/// The CLI under Miri with different scheduler seeds on a 3-file tree; outputs must be byte-identical
/// and Miri must report no undefined behaviour in typeshare frames.
pub fn miri_cli_slice(ctx: &Ctx, rep: &mut Report) {
    let scratch = ctx.scratch("miri");
    let mut rng = Rng::derive(ctx.seed, "miri", 0);
    let files = small_tree(&mut rng, 3);
    write_tree(&scratch, &files);
    let target = ctx.build.join(format!("miri-cli-{}", ctx.tag));
    let seeds: Vec<u64> = (0..8).collect();
    let run_one = |seed: u64| -> (bool, String, Vec<u8>) {
        let outp = scratch.join(format!("out-{seed}.ts"));
        let o = Command::new("cargo")
            .args(["+nightly", "miri", "run", "--offline", "-q", "-p", "typeshare-cli", "--features", "go,python", "--manifest-path"])
            .arg(ctx.repo.join("Cargo.toml"))
            .arg("--target-dir")
            .arg(&target)
            .arg("--")
            .args(["--lang", "typescript", "--output-file"])
            .arg(&outp)
            .arg(scratch.join("src_root"))
            .env("MIRIFLAGS", format!("-Zmiri-disable-isolation -Zmiri-permissive-provenance -Zmiri-tree-borrows -Zmiri-ignore-leaks -Zmiri-seed={seed}"))
            .env("RUSTFLAGS", "--cfg typeshare_verif")
            .env("CARGO_NET_OFFLINE", "true")
            .env_remove("RUST_LOG")
            .current_dir(&scratch)
            .output();
        match o {
            Ok(o) => (o.status.success(), String::from_utf8_lossy(&o.stderr).into_owned(), std::fs::read(&outp).unwrap_or_default()),
            Err(e) => (false, e.to_string(), vec![]),
        }
    };
    // first run builds; the rest in parallel
    let first = run_one(seeds[0]);
    if !first.0 && first.2.is_empty() && !first.1.contains("Undefined Behavior") {
        rep.inconclusive("miri-run-failed", json!({"stderr_tail": first.1.chars().rev().take(800).collect::<String>().chars().rev().collect::<String>()}));
        let _ = std::fs::remove_dir_all(&scratch);
        return;
    }
    let mut all = vec![(seeds[0], first)];
    let rest: Vec<(u64, (bool, String, Vec<u8>))> = std::thread::scope(|s| {
        let hs: Vec<_> = seeds[1..].iter().map(|&sd| { let r = &run_one; s.spawn(move || (sd, r(sd))) }).collect();
        hs.into_iter().map(|h| h.join().unwrap()).collect()
    });
    all.extend(rest);
    let reference = all[0].1 .2.clone();
    for (sd, (ok, stderr, bytes)) in &all {
        rep.eval(1);
        rep.count("miri_cli_runs", 1);
        if stderr.contains("Undefined Behavior") || stderr.contains("data race") {
            let repo_s = ctx.repo.canonicalize().unwrap_or(ctx.repo.clone()).to_string_lossy().trim_end_matches('/').to_string();
            let frame = stderr.lines().find(|l| l.contains(&format!("{repo_s}/cli/src/")) || l.contains(&format!("{repo_s}/core/src/"))).unwrap_or("").trim().to_string();
            let frame = strip_positions(&frame);
            if frame.is_empty() {
                rep.inconclusive("miri-report-in-third-party-code", json!({"seed": sd, "stderr_tail": stderr.chars().rev().take(600).collect::<String>().chars().rev().collect::<String>()}));
            } else {
                rep.violate(format!("C06|miri|{}", frame.chars().take(100).collect::<String>()), format!("Miri reports undefined behaviour / data race at {frame}"), json!({"seed": sd, "stderr": stderr.chars().take(3000).collect::<String>()}));
            }
            continue;
        }
        if !ok {
            rep.inconclusive("miri-run-failed", json!({"seed": sd, "stderr_tail": stderr.chars().rev().take(400).collect::<String>().chars().rev().collect::<String>()}));
            continue;
        }
        if *bytes != reference {
            rep.violate("C06|miri|output-differs-between-seeds", format!("Miri seed {sd}: output differs from seed {}", all[0].0), json!({"seed": sd, "a": String::from_utf8_lossy(&reference), "b": String::from_utf8_lossy(bytes)}));
        }
    }
    rep.cell("miri-cli-slice");
    let _ = std::fs::remove_dir_all(&scratch);
}

/// The edge corpus through the library pipeline under Miri (sharded over processes). Any undefined
/// behaviour report with a typeshare frame is a witness; a clean pass is "no report on N operations".
pub fn miri_lib_slice(ctx: &Ctx, rep: &mut Report) {
    let cases = crate::checks::c07::corpus_sources();
    let dir = ctx.build.join(format!("miri-lib-{}", ctx.tag));
    let _ = std::fs::create_dir_all(dir.join("src"));
    let manifest = format!(
        "[package]\nname = \"miri_lib\"\nversion = \"0.1.0\"\nedition = \"2021\"\n\n[workspace]\n\n[dependencies]\ntypeshare-core = {{ path = \"{}/core\" }}\n",
        ctx.repo.display()
    );
    std::fs::write(dir.join("Cargo.toml"), manifest).unwrap();
    if !dir.join("Cargo.lock").exists() {
        let _ = std::fs::copy(ctx.repo.join("Cargo.lock"), dir.join("Cargo.lock"));
    }
    let mut main = String::from(
        "use std::collections::{BTreeMap, HashMap};\nuse typeshare_core::{context::*, language::*, parser::*, reconcile::reconcile_aliases};\n\nfn one(src: &str, which: usize) -> &'static str {\n    let pc = ParseContext::default();\n    let r = std::panic::catch_unwind(|| {\n        let pfc = ParseFileContext { source_code: src.to_string(), crate_name: SINGLE_FILE_CRATE_NAME, file_name: \"o\".into(), file_path: \"src/lib.rs\".into() };\n        let Ok(Some(pd)) = parse(&pc, pfc) else { return };\n        let mut m = BTreeMap::new();\n        m.insert(SINGLE_FILE_CRATE_NAME, pd);\n        reconcile_aliases(&mut m);\n        let pd = m.remove(&SINGLE_FILE_CRATE_NAME).unwrap();\n        if !pd.errors.is_empty() { return; }\n        let mut out = Vec::new();\n        let mut lang: Box<dyn Language> = match which % 6 {\n            0 => Box::new(TypeScript::default()),\n            1 => Box::new(Swift::default()),\n            2 => Box::new(Kotlin { package: \"a.b\".into(), ..Default::default() }),\n            3 => Box::new(Scala { package: \"a.b\".into(), ..Default::default() }),\n            4 => Box::new(Go { package: \"g\".into(), ..Default::default() }),\n            _ => Box::new(Python::default()),\n        };\n        let _ = lang.generate_types(&mut out, &HashMap::new(), pd);\n    });\n    if r.is_ok() { \"ok\" } else { \"panic\" }\n}\n\nfn main() {\n    std::panic::set_hook(Box::new(|_| {}));\n    let args: Vec<String> = std::env::args().collect();\n    let shard: usize = args[1].parse().unwrap();\n    let shards: usize = args[2].parse().unwrap();\n    let mut n = 0;\n    for (i, (name, src)) in CASES.iter().enumerate() {\n        if i % shards != shard { continue; }\n        for lang in 0..6 {\n            let r = one(src, lang);\n            println!(\"CASE {name} {lang} {r}\");\n            n += 1;\n        }\n    }\n    println!(\"DONE {n}\");\n}\n\nconst CASES: &[(&str, &str)] = &[\n",
    );
    for (name, src) in &cases {
        main.push_str(&format!("    ({:?}, {:?}),\n", name, src));
    }
    main.push_str("];\n");
    std::fs::write(dir.join("src/main.rs"), main).unwrap();
    let shards = 16usize;
    let run_one = |shard: usize| -> (bool, String, String) {
        let o = Command::new("cargo")
            .args(["+nightly", "miri", "run", "--offline", "-q", "--"])
            .arg(shard.to_string())
            .arg(shards.to_string())
            .current_dir(&dir)
            .env("MIRIFLAGS", "-Zmiri-permissive-provenance")
            .env("CARGO_NET_OFFLINE", "true")
            .env("CARGO_TARGET_DIR", dir.join("target"))
            .env_remove("RUSTFLAGS")
            .output();
        match o {
            Ok(o) => (o.status.success(), String::from_utf8_lossy(&o.stdout).into_owned(), String::from_utf8_lossy(&o.stderr).into_owned()),
            Err(e) => (false, String::new(), e.to_string()),
        }
    };
    let first = run_one(0);
    let mut all = vec![first];
    let rest: Vec<(bool, String, String)> = std::thread::scope(|s| {
        let hs: Vec<_> = (1..shards).map(|k| { let r = &run_one; s.spawn(move || r(k)) }).collect();
        hs.into_iter().map(|h| h.join().unwrap()).collect()
    });
    all.extend(rest);
    for (k, (ok, stdout, stderr)) in all.iter().enumerate() {
        let done = stdout.lines().filter(|l| l.starts_with("CASE ")).count() as u64;
        rep.eval(done);
        rep.count("miri_library_operations", done);
        if stderr.contains("Undefined Behavior") {
            let repo_s = ctx.repo.canonicalize().unwrap_or(ctx.repo.clone()).to_string_lossy().trim_end_matches('/').to_string();
            let frame = stderr.lines().find(|l| l.contains(&format!("{repo_s}/core/src/"))).unwrap_or("").trim().to_string();
            let frame = strip_positions(&frame);
            if frame.is_empty() {
                rep.inconclusive("miri-report-in-third-party-code", json!({"shard": k, "stderr_tail": stderr.chars().rev().take(600).collect::<String>().chars().rev().collect::<String>()}));
            } else {
                rep.violate(format!("C07|miri|{}", frame.chars().take(100).collect::<String>()), format!("Miri: undefined behaviour at {frame}"), json!({"shard": k, "stderr": stderr.chars().take(3000).collect::<String>(), "last_case": stdout.lines().last()}));
            }
        } else if !ok {
            rep.inconclusive("miri-lib-run-failed", json!({"shard": k, "stderr_tail": stderr.chars().rev().take(500).collect::<String>().chars().rev().collect::<String>()}));
        }
    }
    rep.cell("miri-library-slice");
}

/// `.. at /repo/core/src/parser.rs:12:5: 12:9` -> without line / column numbers (signatures never contain them)
fn strip_positions(frame: &str) -> String {
    let mut out = String::new();
    let mut chars = frame.chars().peekable();
    while let Some(c) = chars.next() {
        if c == ':' && chars.peek().map(|d| d.is_ascii_digit()).unwrap_or(false) {
            while chars.peek().map(|d| d.is_ascii_digit()).unwrap_or(false) {
                chars.next();
            }
            continue;
        }
        out.push(c);
    }
    out
}
