//! C01 (field wire keys) and C02 (enum wire encoding): foreign facts vs the real serde.
use crate::facts::{parse_many, principal_def, variant_helper};
use crate::gen::{cap, first_stem, rename_value, snake_name, stems_in, Stems, RULES};
use crate::ir::{DefKind, Payload};
use crate::model::*;
use crate::oracle::serde_case::RenameRule;
use crate::oracle::serde_real::{self, OracleProgram};
use crate::report::{par_shards, Ctx, Report, Spec};
use crate::rng::Rng;
use crate::sut::{run_lib, single_file, LangCfg, LangId, LibOutcome, ALL_LANGS};
use serde_json::{json, Value};
use std::collections::BTreeMap;

/// keyword-ish field names: (ident, needs r#)
const KW_FIELDS: [(&str, bool); 30] = [
    ("type", true), ("in", true), ("for", true), ("fn", true), ("match", true), ("async", true), ("await", true), ("try", true), ("yield", true), ("struct", true),
    ("default", false), ("class", false), ("val", false), ("object", false), ("package", false), ("func", false), ("import", false), ("is", false), ("from", false), ("global", false),
    ("lambda", false), ("pass", false), ("with", false), ("del", false), ("def", false), ("not", false), ("var", false), ("interface", false), ("init", false), ("internal", false),
];

#[derive(Clone)]
struct WField {
    f: Field,
    /// sentinel kind: 0 u32, 1 String, 2 Option<u32>, 3 Vec<u32>, 4 generic T
    sent: u8,
}

fn sentinel_ty(k: u8) -> Ty {
    match k {
        0 => Ty::Prim("u32"),
        1 => Ty::Prim("String"),
        2 => Ty::Opt(Box::new(Ty::Prim("u32"))),
        3 => Ty::Vec(Box::new(Ty::Prim("u32"))),
        _ => Ty::Param("T".into()),
    }
}

fn sentinel_val(k: u8, i: usize) -> String {
    match k {
        0 | 4 => format!("{i}"),
        1 => format!("\"f{i}\".to_string()"),
        2 => format!("Some({i})"),
        _ => format!("vec![{i}]"),
    }
}

fn sentinel_of(v: &Value) -> Option<usize> {
    match v {
        Value::Number(n) => n.as_u64().map(|x| x as usize),
        Value::String(s) => s.strip_prefix('f').and_then(|r| r.parse().ok()),
        Value::Array(a) => a.first().and_then(sentinel_of),
        _ => None,
    }
}

fn gen_wfields(rng: &mut Rng, stems: &mut Stems, n: usize, generic: bool, which: u8) -> Vec<WField> {
    let mut used_kw: Vec<&str> = vec![];
    let mut out = vec![];
    for _ in 0..n {
        let st = stems.fresh(rng);
        let mut f;
        let r = rng.below(10);
        if r == 0 && used_kw.len() < 6 {
            let (kw, raw) = loop {
                let c = *rng.pick(&KW_FIELDS);
                if !used_kw.contains(&c.0) {
                    break c;
                }
            };
            used_kw.push(kw);
            f = Field::new(kw, Ty::Unit);
            f.raw = raw;
        } else if r == 1 {
            let single = ["x", "y", "z", "a", "b", "n", "k", "v"];
            let id = *rng.pick(&single);
            if out.iter().any(|w: &WField| w.f.ident == id) {
                f = Field::new(&snake_name(&st, rng), Ty::Unit);
            } else {
                f = Field::new(id, Ty::Unit);
            }
        } else {
            f = Field::new(&snake_name(&st, rng), Ty::Unit);
            if rng.chance(1, 12) {
                f.raw = true;
            }
        }
        let mut sent = rng.below(4) as u8;
        if generic && rng.chance(1, 3) {
            sent = 4;
        }
        f.ty = sentinel_ty(sent);
        // C01 varies renames heavily; C02 lightly
        if rng.chance(if which == 1 { 2 } else { 1 }, 5) {
            f.rename = Some(rename_value(&st, rng, true));
        }
        // a defaulted field keeps its key (optionality is C04's subject; the binding of the key is this one's)
        if which == 1 && rng.chance(1, 6) {
            f.default = true;
        }
        out.push(WField { f, sent });
    }
    out
}

/// variant identifiers that are reserved words of a target once lower-cased (Swift case names, Kotlin / Scala / Python members)
const KW_VARIANTS: [&str; 24] = ["Init", "Default", "Case", "Class", "Func", "Let", "Var", "Import", "Protocol", "Return", "Switch", "Where", "While", "In", "Is", "As", "Internal", "Public", "Private", "Static", "Struct", "Enum", "Try", "Catch"];

struct WVariant {
    v: Variant,
    stem: String,
    fields: Vec<WField>,
    /// Rust expression building the payload for a newtype variant
    newtype_val: Option<String>,
}

enum WKind {
    Struct(Vec<WField>),
    UnitEnum(Vec<WVariant>),
    Tagged(Vec<WVariant>, String, String),
}

struct WItem {
    item: Item,
    stem: String,
    kind: WKind,
}

const TAGS: [(&str, &str); 15] = [
    // hard keywords of Kotlin (and of no other target): the key is a property name there, and the property name is the key
    ("kind", "when"),
    ("fun", "payload"),
    // keys containing what a Go `uppercase_acronyms` table upper-cases in identifiers: wire keys stay as written
    ("eventId", "payloadUrl"),
    ("Id", "Url"),
    ("apiUrl", "userId"),
    ("type", "content"),
    ("t", "c"),
    ("kind", "data"),
    ("tagKey", "contentKey"),
    ("tag_key", "payload"),
    ("Variant", "Value"),
    ("content", "type"),
    ("discriminator", "body"),
    ("k", "v"),
    ("whichOne", "with_what"),
];

fn gen_items(rng: &mut Rng, which: u8) -> Vec<WItem> {
    let mut stems = Stems::default();
    let mut out = vec![];
    let n = rng.range(3, 5);
    for _ in 0..n {
        let st = stems.fresh(rng);
        let ident = match rng.below(3) {
            0 => cap(&st),
            1 => format!("{}Thing", cap(&st)),
            _ => format!("My{}", cap(&st)),
        };
        let kind_sel = if which == 1 { *rng.pick(&[0, 0, 0, 2]) } else { *rng.pick(&[1, 1, 2, 2, 2]) };
        let generic = rng.chance(1, 5) && kind_sel != 1;
        let rename_all = if rng.chance(3, 5) { Some(rng.pick(&RULES).to_string()) } else { None };
        match kind_sel {
            0 => {
                let nf = rng.range(1, 8);
                let mut fs = gen_wfields(rng, &mut stems, nf, generic, which);
                if generic && !fs.iter().any(|f| f.sent == 4) {
                    fs[0].sent = 4;
                    fs[0].f.ty = sentinel_ty(4);
                }
                let mut it = Item::new(&ident, Kind::Struct(fs.iter().map(|w| w.f.clone()).collect()));
                it.rename_all = rename_all;
                if generic {
                    it.generics = vec!["T".into()];
                }
                out.push(WItem { item: it, stem: st, kind: WKind::Struct(fs) });
            }
            1 => {
                let nv = rng.range(1, 8);
                let mut vs = vec![];
                let mut kw_used = false;
                for _ in 0..nv {
                    let vst = stems.fresh(rng);
                    // one enum in ten has a variant whose name, lower-cased, is a word the targets reserve (`Init`,
                    // `Default`, `Case`): however a backend gets around the word, the wire name stays serde's
                    if which == 2 && !kw_used && rng.chance(1, 30) {
                        kw_used = true;
                        let kw = *rng.pick(&KW_VARIANTS);
                        vs.push(WVariant { v: Variant::new(kw, VKind::Unit), stem: format!("kw:{}", kw.to_lowercase()), fields: vec![], newtype_val: None });
                        continue;
                    }
                    let mut v = Variant::new(&crate::gen::camel_name(&vst, rng), VKind::Unit);
                    if rng.chance(1, 4) {
                        v.rename = Some(rename_value(&vst, rng, true));
                    }
                    if rng.chance(1, 8) {
                        v.extra_serde.push("skip_deserializing".into());
                    }
                    vs.push(WVariant { v, stem: vst, fields: vec![], newtype_val: None });
                }
                let mut it = Item::new(&ident, Kind::Enum { variants: vs.iter().map(|w| w.v.clone()).collect(), tag: None, content: None });
                it.rename_all = rename_all;
                out.push(WItem { item: it, stem: st, kind: WKind::UnitEnum(vs) });
            }
            _ => {
                let nv = rng.range(1, 8);
                let mut vs: Vec<WVariant> = vec![];
                let mut has_data = false;
                let mut has_unit: Option<String> = None;
                for i in 0..nv {
                    let vst = stems.fresh(rng);
                    let vident = crate::gen::camel_name(&vst, rng);
                    let force = i == nv - 1 && !has_data;
                    // two variants whose names differ only in the case of their last letters (`QxxxxxId`, `QxxxxxID`): whatever a
                    // backend derives from a variant's name (member keys, constants), each keeps its own wire name
                    if which == 2 && !force && !vs.iter().any(|x| x.stem.starts_with("kw:")) && rng.chance(1, 14) {
                        // (not the acronyms a Go `uppercase_acronyms` table of this workload re-cases: that setting merges such
                        // spellings on purpose)
                        let (a, b) = *rng.pick(&[("Db", "DB"), ("Io", "IO"), ("Ok", "OK")]);
                        let base = crate::gen::cap(&vst);
                        let low = format!("{base}{a}").to_lowercase();
                        vs.push(WVariant { v: Variant::new(&format!("{base}{a}"), VKind::Unit), stem: format!("kw:{low}"), fields: vec![], newtype_val: None });
                        vs.push(WVariant { v: Variant::new(&format!("{base}{b}"), VKind::Unit), stem: format!("kw:{}", &low[..low.len() - 1]), fields: vec![], newtype_val: None });
                        continue;
                    }
                    let sel = if which == 1 { 2 } else if force { rng.range(1, 2) } else { rng.below(3) };
                    let mut fields = vec![];
                    let mut newtype_val = None;
                    let kind = match sel {
                        0 => {
                            if has_unit.is_none() {
                                has_unit = Some(vident.clone());
                            }
                            VKind::Unit
                        }
                        1 => {
                            has_data = true;
                            // payload types incl. generics and recursion
                            let opts: u8 = rng.below(7) as u8;
                            let (ty, val) = match opts {
                                0 => (Ty::Prim("u32"), "7".to_string()),
                                1 => (Ty::Prim("String"), "\"p\".to_string()".to_string()),
                                2 => (Ty::Vec(Box::new(Ty::Prim("u32"))), "vec![7]".to_string()),
                                3 => (Ty::Opt(Box::new(Ty::Prim("String"))), "Some(\"p\".to_string())".to_string()),
                                4 if generic => (Ty::Param("T".into()), "7".to_string()),
                                5 => (Ty::Vec(Box::new(Ty::User(ident.clone(), if generic { vec![Ty::Param("T".into())] } else { vec![] }))), "vec![]".to_string()),
                                6 => (Ty::Opt(Box::new(Ty::Wrap("Box", Box::new(Ty::User(ident.clone(), if generic { vec![Ty::Param("T".into())] } else { vec![] }))))), "None".to_string()),
                                _ => (Ty::Prim("bool"), "true".to_string()),
                            };
                            newtype_val = Some(val);
                            VKind::Newtype(ty)
                        }
                        _ => {
                            has_data = true;
                            let nf = rng.range(1, if which == 1 { 6 } else { 3 });
                            fields = gen_wfields(rng, &mut stems, nf, generic, which);
                            VKind::Struct(fields.iter().map(|w| w.f.clone()).collect())
                        }
                    };
                    if which == 2 && matches!(kind, VKind::Unit) && !vs.iter().any(|x| x.stem.starts_with("kw:")) && rng.chance(1, 12) {
                        let kw = *rng.pick(&KW_VARIANTS);
                        vs.push(WVariant { v: Variant::new(kw, VKind::Unit), stem: format!("kw:{}", kw.to_lowercase()), fields: vec![], newtype_val: None });
                        continue;
                    }
                    let mut v = Variant::new(&vident, kind);
                    if rng.chance(1, 4) {
                        v.rename = Some(rename_value(&vst, rng, true));
                    }
                    if matches!(v.kind, VKind::Struct(_)) && rng.chance(if which == 1 { 3 } else { 1 }, 5) {
                        v.rename_all = Some(rng.pick(&RULES).to_string());
                    }
                    // a variant serde only writes (never reads) is still a variant on the wire
                    if which != 1 && rng.chance(1, 8) {
                        v.extra_serde.push("skip_deserializing".into());
                    }
                    vs.push(WVariant { v, stem: vst, fields, newtype_val });
                }
                let (tag, content) = *rng.pick(&TAGS);
                let uses_t = vs.iter().any(|v| match &v.v.kind {
                    VKind::Newtype(t) => *t == Ty::Param("T".into()),
                    VKind::Struct(_) => v.fields.iter().any(|f| f.sent == 4),
                    _ => false,
                });
                let generic = generic && uses_t;
                if !generic {
                    // recursion arguments were rendered with <T>; rebuild them without
                    for v in vs.iter_mut() {
                        if let VKind::Newtype(t) = &mut v.v.kind {
                            strip_params(t);
                        }
                    }
                }
                let mut it = Item::new(&ident, Kind::Enum { variants: vs.iter().map(|w| w.v.clone()).collect(), tag: Some(tag.into()), content: Some(content.into()) });
                it.rename_all = rename_all;
                // serde's enum-level default for the fields of struct variants: a variant's own rename_all wins over it, so
                // it is only given where every struct variant has its own rule (typeshare does not read the attribute)
                let struct_variants: Vec<&WVariant> = vs.iter().filter(|v| matches!(v.v.kind, VKind::Struct(_))).collect();
                if !struct_variants.is_empty() && struct_variants.iter().all(|v| v.v.rename_all.is_some()) && rng.coin() {
                    it.extra_serde.push(format!("rename_all_fields = \"{}\"", rng.pick(&RULES)));
                }
                if generic {
                    it.generics = vec!["T".into()];
                }
                out.push(WItem { item: it, stem: st, kind: WKind::Tagged(vs, tag.into(), content.into()) });
            }
        }
    }
    out
}

fn strip_params(t: &mut Ty) {
    match t {
        Ty::Vec(x) | Ty::Opt(x) | Ty::Wrap(_, x) => strip_params(x),
        Ty::User(_, a) => a.clear(),
        _ => {}
    }
}

fn ident_rs(f: &Field) -> String {
    format!("{}{}", if f.raw { "r#" } else { "" }, f.ident)
}

fn struct_value(name: &str, generic: bool, fs: &[WField]) -> String {
    let inner: Vec<String> = fs.iter().enumerate().map(|(i, w)| format!("{}: {}", ident_rs(&w.f), sentinel_val(w.sent, i))).collect();
    format!("{}{} {{ {} }}", name, if generic { "::<u32>" } else { "" }, inner.join(", "))
}

/// expected key of a field by the vendored serde case.rs + attribute model (cross-checked against real serde)
fn model_key(f: &Field, rule: &Option<String>) -> String {
    if let Some(r) = &f.rename {
        return r.clone();
    }
    match rule.as_ref().and_then(|r| RenameRule::from_str(r).ok()) {
        Some(rule) => rule.apply_to_field(&f.ident),
        None => f.ident.clone(),
    }
}

fn model_variant_name(v: &Variant, rule: &Option<String>) -> String {
    if let Some(r) = &v.rename {
        return r.clone();
    }
    match rule.as_ref().and_then(|r| RenameRule::from_str(r).ok()) {
        Some(rule) => rule.apply_to_variant(&v.ident),
        None => v.ident.clone(),
    }
}

struct Prog {
    items: Vec<WItem>,
    source: String,
    cfgs: Vec<(LangId, LangCfg)>,
}

fn key_class(key: &str, ident: &str) -> &'static str {
    if key.contains('-') {
        "dashed"
    } else if key == ident {
        "same-as-ident"
    } else if key.chars().any(|c| c.is_uppercase()) {
        "has-upper"
    } else {
        "other"
    }
}

pub fn run(ctx: &Ctx, which: u8) -> (Spec, Report) {
    let id = if which == 1 { "C01" } else { "C02" };
    let n_prog: usize = ctx.tier.pick(2500, 20000);
    let seed = ctx.seed;
    // phase 1: generate
    let mut progs: Vec<Prog> = Vec::with_capacity(n_prog);
    for i in 0..n_prog {
        let mut rng = Rng::derive(seed, id, i as u64);
        let items = gen_items(&mut rng, which);
        let its: Vec<Item> = items.iter().map(|w| w.item.clone()).collect();
        let source = render_file(&its, &[], &[], &RenderOpts { vary: true, prelude: false, strip_typeshare: false }, &mut rng);
        // a quarter of the programs in a layout rustfmt would not produce (attribute behind another attribute or a
        // block comment, everything on one line, CRLF + tabs): names and keys must not depend on it
        let source = if rng.chance(1, 4) { relayout(&source, rng.range(1, 4)) } else { source };
        let mut cfgs = vec![];
        for l in ALL_LANGS {
            let mut c = LangCfg::basic(l);
            if matches!(l, LangId::Swift | LangId::Kotlin) && rng.coin() {
                c.prefix = "OP".into();
            }
            if l == LangId::Kotlin && rng.chance(1, 4) {
                c.package = String::new();
            }
            if l == LangId::Scala && rng.chance(1, 3) {
                c.package = "com.verif.deep.pkg".into();
            }
            if l == LangId::Go && rng.coin() {
                c.uppercase_acronyms = vec!["ID".into(), "URL".into(), "Info".into()];
            }
            cfgs.push((l, c));
        }
        progs.push(Prog { items, source, cfgs });
    }
    // phase 2: the real serde on the stripped twins
    let oracle_progs: Vec<OracleProgram> = progs
        .iter()
        .enumerate()
        .map(|(i, p)| {
            let mut rng = Rng::derive(seed, "oracle-render", i as u64);
            let its: Vec<Item> = p.items.iter().map(|w| w.item.clone()).collect();
            let module_src = render_file(&its, &[], &[], &RenderOpts { vary: false, prelude: false, strip_typeshare: true }, &mut rng);
            let mut values = vec![];
            for w in &p.items {
                let generic = !w.item.generics.is_empty();
                match &w.kind {
                    WKind::Struct(fs) => values.push((format!("S:{}", w.stem), struct_value(&w.item.ident, generic, fs))),
                    WKind::UnitEnum(vs) => {
                        for v in vs {
                            values.push((format!("V:{}:{}", w.stem, v.stem), format!("{}::{}", w.item.ident, v.v.ident)));
                        }
                    }
                    WKind::Tagged(vs, _, _) => {
                        let ty = format!("{}{}", w.item.ident, if generic { "::<u32>" } else { "" });
                        for v in vs {
                            let e = match &v.v.kind {
                                VKind::Unit => format!("{ty}::{}", v.v.ident),
                                VKind::Newtype(_) => format!("{ty}::{}({})", v.v.ident, v.newtype_val.clone().unwrap()),
                                _ => {
                                    let inner: Vec<String> = v.fields.iter().enumerate().map(|(i, wf)| format!("{}: {}", ident_rs(&wf.f), sentinel_val(wf.sent, i))).collect();
                                    format!("{ty}::{} {{ {} }}", v.v.ident, inner.join(", "))
                                }
                            };
                            values.push((format!("V:{}:{}", w.stem, v.stem), e));
                        }
                    }
                }
            }
            OracleProgram { module_src, values }
        })
        .collect();
    let oracle = match serde_real::run(ctx, id, &oracle_progs, ctx.threads) {
        Ok(o) => o,
        Err(e) => {
            eprintln!("HARNESS-ERROR: real-serde oracle failed: {e}");
            std::process::exit(2);
        }
    };
    // phase 3: typeshare through the library pipeline
    let progs_ref = &progs;
    let outcomes: Vec<Vec<(LangId, LibOutcome)>> = {
        let shards = 64;
        let per = (n_prog + shards - 1) / shards;
        let parts: std::sync::Mutex<Vec<(usize, Vec<(LangId, LibOutcome)>)>> = std::sync::Mutex::new(vec![]);
        let _ = par_shards(ctx.threads, shards, |s| {
            let mut local = vec![];
            for i in (s * per)..((s + 1) * per).min(n_prog) {
                let p = &progs_ref[i];
                let files = single_file(&p.source);
                let v: Vec<(LangId, LibOutcome)> = p.cfgs.iter().map(|(l, c)| (*l, run_lib(&files, *l, c, false, &[]))).collect();
                local.push((i, v));
            }
            parts.lock().unwrap().extend(local);
            Report::new()
        });
        let mut all = parts.into_inner().unwrap();
        all.sort_by_key(|x| x.0);
        all.into_iter().map(|x| x.1).collect()
    };
    // phase 4: parse outputs
    let mut texts: Vec<(LangId, &str)> = vec![];
    let mut index: Vec<(usize, usize)> = vec![];
    for (i, per_lang) in outcomes.iter().enumerate() {
        for (k, (l, o)) in per_lang.iter().enumerate() {
            if let Some(t) = o.single() {
                texts.push((*l, t));
                index.push((i, k));
            }
        }
    }
    let facts = parse_many(ctx, &format!("{id}-py"), &texts, false);
    let mut fact_of: BTreeMap<(usize, usize), usize> = BTreeMap::new();
    for (n, ik) in index.iter().enumerate() {
        fact_of.insert(*ik, n);
    }

    // phase 5: oracle comparison
    let mut rep = Report::new();
    rep.count("programs", n_prog as u64);
    rep.count("oracle_crates", oracle.crates as u64);
    rep.notes.insert("oracle_build_and_run_s".into(), json!((oracle.build_s * 10.0).round() / 10.0));
    for (i, p) in progs.iter().enumerate() {
        let truth = &oracle.json[i];
        for (k, (lang, cfg)) in p.cfgs.iter().enumerate() {
            let lname = lang.name();
            let outcome = &outcomes[i][k].1;
            let detail = |extra: Value| json!({"language": lname, "config": cfg.to_json(), "source": p.source, "outcome": outcome.describe(), "extra": extra});
            let Some(fi) = fact_of.get(&(i, k)) else {
                // typeshare rejected or panicked on a program in the supported grammar
                match outcome {
                    LibOutcome::Panic { loc, msg, .. } => rep.inconclusive("typeshare-panic (reported by C07)", json!({"loc": loc, "msg": msg, "language": lname})),
                    other => rep.violate(format!("{id}|{lname}|generation-failed"), format!("supported program not generated: {}", other.describe()), detail(json!(null))),
                }
                continue;
            };
            let facts = &facts[*fi];
            let Some(file) = facts.file() else {
                rep.inconclusive(&format!("output-not-parsed-{lname}"), json!({"status": format!("{:?}", facts.status).chars().take(300).collect::<String>(), "source": p.source}));
                // the structure is not available, the text is: a key that is no identifier of any target (a dash in it) has to
                // be carried by a string literal in every language (quoted property, SerialName, CodingKeys raw value, json
                // tag, alias); a file in which it appears in no string literal at all does not bind it
                if which == 1 && *lang != LangId::Scala {
                    if let Some(text) = outcome.single() {
                        for w in &p.items {
                            if let WKind::Struct(fs) = &w.kind {
                                for mf in fs {
                                    let key = model_key(&mf.f, &w.item.rename_all);
                                    if !key.contains('-') {
                                        continue;
                                    }
                                    rep.eval(1);
                                    rep.count("keys_looked_up_in_unparsed_output", 1);
                                    if !text.contains(&format!("\"{key}\"")) && !text.contains(&format!("\"{key},")) {
                                        rep.violate(
                                            format!("C01|{lname}|struct|dashed-key-in-no-string-literal"),
                                            format!("{}.{}: serde's key {key:?} appears in no string literal of the generated file (which is not well-formed either)", w.item.ident, mf.f.ident),
                                            detail(json!({"owner": w.item.ident, "field": mf.f.ident, "serde_key": key})),
                                        );
                                    }
                                }
                            }
                        }
                    }
                }
                continue;
            };
            for w in &p.items {
                let defs = principal_def(file, &w.stem);
                if defs.len() != 1 {
                    rep.violate(format!("{id}|{lname}|definition-count|{}", defs.len()), format!("item {} has {} principal definitions", w.item.ident, defs.len()), detail(json!({"item": w.item.ident})));
                    continue;
                }
                let def = defs[0];
                // ---- field keys -----------------------------------------------------------------
                let check_fields = |owner: &str, ffields: &[crate::ir::Field], mfields: &[WField], truth_obj: Option<&serde_json::Map<String, Value>>, rule: &Option<String>, container: &str, rep: &mut Report| {
                    let Some(tobj) = truth_obj else {
                        rep.inconclusive("oracle-shape", json!({"owner": owner}));
                        return;
                    };
                    // serde: ordinal -> key
                    let mut skey: BTreeMap<usize, String> = BTreeMap::new();
                    for (kk, vv) in tobj {
                        if let Some(o) = sentinel_of(vv) {
                            skey.insert(o, kk.clone());
                        }
                    }
                    if skey.len() != mfields.len() {
                        rep.inconclusive("oracle-sentinel-decode", json!({"owner": owner, "json": tobj}));
                        return;
                    }
                    if ffields.len() != mfields.len() {
                        rep.violate(format!("C01|{lname}|{container}|field-count"), format!("{owner}: {} fields generated for {} source fields", ffields.len(), mfields.len()), detail(json!({"owner": owner})));
                        return;
                    }
                    for (ord, (ff, mf)) in ffields.iter().zip(mfields.iter()).enumerate() {
                        let want = &skey[&ord];
                        // cross-check of the vendored case.rs against the running derive
                        if model_key(&mf.f, rule) != *want {
                            eprintln!("HARNESS-ERROR: vendored case.rs disagrees with real serde for {} under {:?}: {} vs {}", mf.f.ident, rule, model_key(&mf.f, rule), want);
                            std::process::exit(2);
                        }
                        rep.count("case_rs_crosschecks", 1);
                        if *lang == LangId::Scala && want.contains('-') {
                            rep.count("scala_dashed_out_of_scope", 1);
                            continue;
                        }
                        rep.eval(1);
                        rep.count(&format!("keys_compared_{lname}"), 1);
                        let cls = key_class(want, &mf.f.ident);
                        if *want != mf.f.ident {
                            rep.cell(format!("{lname}|{}|{}|{container}|{cls}", rule.clone().unwrap_or("none".into()), if mf.f.rename.is_some() { "rename" } else { "rule" }));
                        }
                        if ff.wire_key != *want {
                            rep.violate(
                                format!("C01|{lname}|{container}|{}|{cls}", if mf.f.rename.is_some() { "serde-rename" } else { rule.as_deref().unwrap_or("no-rule") }),
                                format!("{owner}.{}: generated key {:?}, serde uses {:?}", mf.f.ident, ff.wire_key, want),
                                detail(json!({"owner": owner, "field": mf.f.ident, "generated_key": ff.wire_key, "serde_key": want, "foreign_ident": ff.ident})),
                            );
                        }
                    }
                };
                match &w.kind {
                    WKind::Struct(fs) if which == 1 => {
                        if def.kind != DefKind::Struct {
                            rep.violate(format!("C01|{lname}|struct|wrong-kind"), format!("{} generated as {:?}", w.item.ident, def.kind), detail(json!(null)));
                            continue;
                        }
                        check_fields(&w.item.ident, &def.fields, fs, truth.get(&format!("S:{}", w.stem)).and_then(|v| v.as_object()), &w.item.rename_all, if w.item.generics.is_empty() { "struct" } else { "generic-struct" }, &mut rep);
                    }
                    WKind::Struct(_) => {}
                    WKind::UnitEnum(vs) | WKind::Tagged(vs, _, _) => {
                        let tagged = matches!(w.kind, WKind::Tagged(..));
                        let (mtag, mcontent) = match &w.kind {
                            WKind::Tagged(_, t, c) => (t.clone(), c.clone()),
                            _ => (String::new(), String::new()),
                        };
                        if which == 2 {
                            let want_kind = if tagged { DefKind::TaggedEnum } else { DefKind::UnitEnum };
                            if def.kind != want_kind {
                                rep.violate(format!("C02|{lname}|wrong-kind|{:?}", def.kind), format!("{} generated as {:?}", w.item.ident, def.kind), detail(json!(null)));
                                continue;
                            }
                            for is in &def.issues {
                                let short: String = is.split('`').next().unwrap_or(is).trim().chars().take(60).collect();
                                rep.violate(format!("C02|{lname}|encoder-decoder|{short}"), format!("{}: {is}", w.item.ident), detail(json!({"issue": is})));
                            }
                            // tag / content keys at every site
                            if tagged {
                                for (site, kx) in &def.tag_sites {
                                    rep.eval(1);
                                    rep.count(&format!("tag_sites_{lname}"), 1);
                                    rep.cell(format!("{lname}|tag-site|{}", site.split(|c| c == ':' || c == ' ').next().unwrap_or(site).trim_end_matches(char::is_numeric)));
                                    if *kx != mtag {
                                        rep.violate(format!("C02|{lname}|tag-key|{}", site.split(|c| c == ':' || c == ' ').next().unwrap_or(site).trim_end_matches(char::is_numeric)), format!("{}: tag key {kx:?} at {site}, serde(tag = {mtag:?})", w.item.ident), detail(json!({"site": site})));
                                    }
                                }
                                for (site, kx) in &def.content_sites {
                                    rep.eval(1);
                                    rep.count(&format!("content_sites_{lname}"), 1);
                                    rep.cell(format!("{lname}|content-site|{}", site.split(|c| c == ':' || c == ' ').next().unwrap_or(site).trim_end_matches(char::is_numeric)));
                                    if *kx != mcontent {
                                        rep.violate(format!("C02|{lname}|content-key|{}", site.split(|c| c == ':' || c == ' ').next().unwrap_or(site).trim_end_matches(char::is_numeric)), format!("{}: content key {kx:?} at {site}, serde(content = {mcontent:?})", w.item.ident), detail(json!({"site": site})));
                                    }
                                }
                                if matches!(lang, LangId::Ts | LangId::Swift | LangId::Go | LangId::Python) && def.tag_sites.is_empty() {
                                    rep.violate(format!("C02|{lname}|tag-key|absent"), format!("{}: no tag key site found", w.item.ident), detail(json!(null)));
                                }
                            }
                            if def.variants.len() != vs.len() {
                                rep.violate(format!("C02|{lname}|variant-count"), format!("{}: {} cases generated for {} variants", w.item.ident, def.variants.len(), vs.len()), detail(json!({"generated": def.variants.iter().map(|v| v.ident.clone()).collect::<Vec<_>>() })));
                                continue;
                            }
                        }
                        for (ord, mv) in vs.iter().enumerate() {
                            let tj = truth.get(&format!("V:{}:{}", w.stem, mv.stem));
                            // serde's variant name
                            let sname: Option<String> = match tj {
                                Some(Value::String(s)) if !tagged => Some(s.clone()),
                                Some(Value::Object(o)) if tagged => o.get(&mtag).and_then(|v| v.as_str()).map(|s| s.to_string()),
                                _ => None,
                            };
                            let Some(sname) = sname else {
                                rep.inconclusive("oracle-shape", json!({"variant": mv.v.ident, "json": tj}));
                                continue;
                            };
                            if model_variant_name(&mv.v, &w.item.rename_all) != sname {
                                eprintln!("HARNESS-ERROR: vendored case.rs disagrees with real serde for variant {} under {:?}", mv.v.ident, w.item.rename_all);
                                std::process::exit(2);
                            }
                            rep.count("case_rs_crosschecks", 1);
                            if which == 2 {
                                let fv = &def.variants[ord];
                                // positional match must agree with stems
                                let squash = |x: &str| x.chars().filter(|c| c.is_alphanumeric()).collect::<String>().to_lowercase();
                                let kw_ok = mv.stem.strip_prefix("kw:").map(|k| squash(&fv.ident).contains(k) || fv.wire_name.as_deref().map(|wn| squash(wn).contains(k)).unwrap_or(false)).unwrap_or(false);
                                let st_ok = kw_ok || stems_in(&fv.ident).last() == Some(&mv.stem) || fv.wire_name.as_deref().map(|wn| stems_in(wn).last() == Some(&mv.stem)).unwrap_or(false);
                                if !st_ok {
                                    rep.violate(format!("C02|{lname}|variant-order"), format!("{}: case #{ord} is {:?}, expected the case of {}", w.item.ident, fv.ident, mv.v.ident), detail(json!(null)));
                                    continue;
                                }
                                rep.eval(1);
                                rep.count(&format!("variant_names_compared_{lname}"), 1);
                                let vk = match mv.v.kind {
                                    VKind::Unit => "unit",
                                    VKind::Newtype(_) => "newtype",
                                    _ => "struct",
                                };
                                if sname != mv.v.ident {
                                    rep.cell(format!("{lname}|{}|{}|{vk}|{}", if tagged { "tagged" } else { "unit-enum" }, w.item.rename_all.clone().unwrap_or("none".into()), if mv.v.rename.is_some() { "rename" } else { "rule" }));
                                }
                                if fv.wire_name.as_deref() != Some(sname.as_str()) {
                                    rep.violate(
                                        format!("C02|{lname}|variant-name|{}|{vk}|{}", if tagged { "tagged" } else { "unit-enum" }, if mv.v.rename.is_some() { "serde-rename" } else { w.item.rename_all.as_deref().unwrap_or("no-rule") }),
                                        format!("{}::{}: generated wire name {:?}, serde uses {:?}", w.item.ident, mv.v.ident, fv.wire_name, sname),
                                        detail(json!({"variant": mv.v.ident, "generated": fv.wire_name, "serde": sname})),
                                    );
                                }
                                // payload presence must match the variant kind
                                let has_payload = fv.payload != Payload::None;
                                if tagged && has_payload != !matches!(mv.v.kind, VKind::Unit) {
                                    rep.violate(format!("C02|{lname}|payload-presence|{vk}"), format!("{}::{}: payload presence {has_payload} for a {vk} variant", w.item.ident, mv.v.ident), detail(json!(null)));
                                }
                            }
                            // struct-variant fields (C01)
                            if which == 1 {
                                if let VKind::Struct(_) = &mv.v.kind {
                                    let tobj = tj.and_then(|v| v.get(&mcontent)).and_then(|v| v.as_object());
                                    let ffields: Option<Vec<crate::ir::Field>> = if *lang == LangId::Ts {
                                        def.variants.get(ord).and_then(|fv| match &fv.payload {
                                            Payload::Struct(fs) => Some(fs.clone()),
                                            _ => None,
                                        })
                                    } else {
                                        let hs = variant_helper(file, &w.stem, &mv.stem);
                                        if hs.len() == 1 {
                                            Some(hs[0].fields.clone())
                                        } else {
                                            None
                                        }
                                    };
                                    match ffields {
                                        Some(ff) => check_fields(&format!("{}::{}", w.item.ident, mv.v.ident), &ff, &mv.fields, tobj, &mv.v.rename_all, "struct-variant", &mut rep),
                                        None => rep.violate(format!("C01|{lname}|struct-variant|helper-missing"), format!("{}::{}: no definition carries the variant's fields", w.item.ident, mv.v.ident), detail(json!(null))),
                                    }
                                }
                            }
                        }
                    }
                }
            }
            if rep.samples.len() < 3 && i < 3 && k == i % 6 {
                rep.sample(json!({"language": lname, "source": p.source, "serde_json": truth, "parsed_definitions": file.defs.iter().filter(|d| d.kind != DefKind::Helper).map(|d| d.to_json()).collect::<Vec<_>>() }));
            }
        }
    }
    let _ = first_stem("");
    let spec = Spec {
        level: "translation_validation",
        rule: if which == 1 {
            format!("{n_prog} generated programs (structs and struct variants, 1-8 conventionally named fields incl. raw identifiers, target-language keywords and names that open with single-letter words (`r_g_b`), serde(rename) over [A-Za-z_][A-Za-z0-9_-]*, serde(default) on a sixth of the fields, 8 rename_all rules on container/variant (also beneath an enum-level rename_all_fields, which a variant's own rule overrides), any attribute spelling/order, generic containers, prefix/package settings) x 6 languages; every field's bound key (TS property, @SerialName, CodingKeys, json tag, pydantic alias) is compared with the key real serde_json emitted for the same field (matched by ordinal sentinel values); a cell is distinct by (language, rule, rename/rule, container kind, key class) and non-trivial when key != Rust identifier")
        } else {
            format!("{n_prog} generated programs (unit enums and adjacently tagged enums, 1-8 variants, unit/newtype/struct variants, 8 rename_all rules, per-variant renames, variants marked skip_deserializing (still written by serde), 15 tag/content key pairs (with acronyms, and with Kotlin-only hard keywords as keys), generics, self-recursion) x 6 languages; variant wire names, every tag/content key site and the one-case-per-variant structure of the generated code are compared with real serde_json output for each variant; non-trivial = wire name != Rust identifier, or a tag/content site")
        },
        assumptions: vec![
            "foreign facts are recovered by this harness's parsers (CPython for Python)".into(),
            "serde_derive/serde_json as pinned by /repo/Cargo.lock are the reference".into(),
            "library pipeline mirrors cli/src/main.rs (cross-checked against the binary by C06/C14/C17/C20 workloads)".into(),
        ],
        exhaustive: None,
    };
    (spec, rep)
}
