//! C17 — re-running is idempotent and the output depends only on the latest inputs.
//! Monitors: strace event history of every run + (bytes, mtime_ns, inode) of every output file;
//! oracle: no write-type event when the sources did not change; after any history every file the
//! last run is responsible for equals what a run into an empty location produces.
use crate::report::{par_shards, Ctx, Report, Spec};
use crate::rng::Rng;
use crate::strace::{modifications_under, parse_log};
use crate::sut::{cli_args, read_dir_files, run_bin, write_tree, BinRun, LangCfg, LangId, SrcFile, ALL_LANGS};
use serde_json::json;
use std::collections::BTreeMap;
use std::os::unix::fs::MetadataExt;
use std::path::{Path, PathBuf};
use std::time::Duration;

#[derive(Clone, Debug)]
struct TypeDef {
    name: String,
    krate: usize,
    uses_unit: bool,
    extra_field: bool,
}

#[derive(Clone, Debug)]
struct Version {
    types: Vec<TypeDef>,
}

const CRATES: [&str; 4] = ["alpha", "beta_mid", "gamma-x", "omega"];

fn render_version(v: &Version, n_crates: usize) -> Vec<SrcFile> {
    let mut files = vec![];
    for c in 0..n_crates {
        let mut s = String::new();
        for t in v.types.iter().filter(|t| t.krate == c) {
            s.push_str(&format!("#[typeshare]\npub struct {} {{\n    pub id: u32,\n", t.name));
            if t.uses_unit {
                s.push_str("    pub nothing: (),\n    pub maybe_nothing: Option<()>,\n");
            }
            if t.extra_field {
                s.push_str("    pub note: Vec<String>,\n");
            }
            s.push_str("}\n\n");
        }
        if !s.is_empty() {
            files.push(SrcFile { path: format!("{}/src/lib.rs", CRATES[c]), source: s });
        }
    }
    files
}

fn mutate(v: &Version, rng: &mut Rng, n_crates: usize, counter: &mut usize) -> (Version, &'static str) {
    let mut w = v.clone();
    loop {
        match rng.below(6) {
            0 => {
                *counter += 1;
                w.types.push(TypeDef { name: format!("Added{}", *counter), krate: rng.below(n_crates), uses_unit: false, extra_field: rng.coin() });
                return (w, "type-added");
            }
            1 if w.types.len() > 2 => {
                let i = rng.below(w.types.len());
                // keep every crate non-empty so that each version generates every file
                if w.types.iter().filter(|t| t.krate == w.types[i].krate).count() > 1 {
                    w.types.remove(i);
                    return (w, "type-removed");
                }
            }
            2 => {
                let i = rng.below(w.types.len());
                *counter += 1;
                w.types[i].name = format!("Renamed{}", *counter);
                return (w, "type-renamed");
            }
            3 if n_crates > 1 => {
                let i = rng.below(w.types.len());
                let from = w.types[i].krate;
                if w.types.iter().filter(|t| t.krate == from).count() > 1 {
                    w.types[i].krate = (from + 1 + rng.below(n_crates - 1)) % n_crates;
                    return (w, "type-moved-between-crates");
                }
            }
            4 => {
                let i = rng.below(w.types.len());
                w.types[i].uses_unit = !w.types[i].uses_unit;
                return (w, "unit-use-toggled");
            }
            5 => {
                let i = rng.below(w.types.len());
                w.types[i].extra_field = !w.types[i].extra_field;
                return (w, "field-toggled");
            }
            _ => {}
        }
    }
}

type Snap = BTreeMap<String, (Vec<u8>, i64, u64)>;

fn snapshot(out: &Path, multi: bool) -> Snap {
    let mut m = BTreeMap::new();
    let one = |p: &Path| -> Option<(Vec<u8>, i64, u64)> {
        let md = std::fs::metadata(p).ok()?;
        Some((std::fs::read(p).ok()?, md.mtime() * 1_000_000_000 + md.mtime_nsec(), md.ino()))
    };
    if multi {
        for (n, _) in read_dir_files(out) {
            if let Some(x) = one(&out.join(&n)) {
                m.insert(n, x);
            }
        }
    } else if let Some(x) = one(out) {
        m.insert(String::new(), x);
    }
    m
}

struct Plan {
    lang: LangId,
    multi: bool,
    n_crates: usize,
    versions: Vec<Version>,
    changes: Vec<&'static str>,
    history: Vec<usize>,
    /// what somebody else does to the output location before step i: 0 nothing, 1 removes the first output file,
    /// 2 overwrites the last one with other bytes, 3 removes Codable.swift (the last file where there is none),
    /// 4 overwrites Codable.swift (the first file where there is none)
    interfere: Vec<u8>,
    /// settings of all runs of the history (from a configuration file)
    cfg: LangCfg,
}

/// settings beyond the defaults: packages, prefixes, acronyms, and for Swift a list of conformances long enough for its order
/// to be visible
fn rich_cfg(lang: LangId, rng: &mut Rng) -> LangCfg {
    let mut c = LangCfg::shaped(lang, rng);
    if lang == LangId::Swift && rng.coin() {
        c.default_decorators = vec!["Sendable".into(), "Identifiable".into(), "Equatable".into()];
        c.codablevoid_constraints = vec!["Equatable".into(), "Hashable".into(), "Comparable".into(), "CustomStringConvertible".into()];
    }
    c
}

pub fn run(ctx: &Ctx) -> (Spec, Report) {
    let seed = ctx.seed;
    // plans: exhaustive 2-version histories of length <= 4 for every (language, mode); longer seeded ones
    let mut plans: Vec<Plan> = vec![];
    let mut rng = Rng::derive(seed, "C17-plan", 0);
    let mut counter = 0usize;
    let mk_versions = |rng: &mut Rng, n_versions: usize, n_crates: usize, counter: &mut usize| -> (Vec<Version>, Vec<&'static str>) {
        let mut types = vec![];
        for c in 0..n_crates {
            for k in 0..rng.range(1, 3) {
                types.push(TypeDef { name: format!("Base{}x{}", c, k), krate: c, uses_unit: rng.chance(1, 4), extra_field: rng.coin() });
            }
        }
        let mut vs = vec![Version { types }];
        let mut ch = vec![];
        for _ in 1..n_versions {
            let (v, what) = mutate(vs.last().unwrap(), rng, n_crates, counter);
            vs.push(v);
            ch.push(what);
        }
        (vs, ch)
    };
    for &lang in ALL_LANGS.iter() {
        for multi in [false, true] {
            // Scala and Go have no multi-file support (write_imports is unimplemented!)
            if multi && matches!(lang, LangId::Scala | LangId::Go) {
                continue;
            }
            let n_crates = if multi { 3 } else { 2 };
            let reps = ctx.tier.pick(2, 6);
            for r in 0..reps {
                let (vs, ch) = mk_versions(&mut rng, 2, n_crates, &mut counter);
                // the first repetition under the defaults, the others under richer settings
                let cfg = if r == 0 { LangCfg::basic(lang) } else { rich_cfg(lang, &mut rng) };
                for len in 1..=4usize {
                    for bits in 0..(1u32 << len) {
                        let history: Vec<usize> = (0..len).map(|i| ((bits >> i) & 1) as usize).collect();
                        plans.push(Plan { lang, multi, n_crates, versions: vs.clone(), changes: ch.clone(), history, interfere: vec![], cfg: cfg.clone() });
                    }
                }
                // the output location is not the tool's alone (a checkout that ignores generated support files, a clean-up
                // script, an editor): whatever happened to it between two runs, the next run restores what it is responsible for
                for kind in 1..=4u8 {
                    for history in [vec![0, 0], vec![0, 1, 1], vec![0, 0, 1]] {
                        for at in 1..history.len() {
                            let mut interfere = vec![0u8; history.len()];
                            interfere[at] = kind;
                            plans.push(Plan { lang, multi, n_crates, versions: vs.clone(), changes: ch.clone(), history: history.clone(), interfere, cfg: cfg.clone() });
                        }
                    }
                }
            }
        }
    }
    let n_random = ctx.tier.pick(240, 2000);
    for _ in 0..n_random {
        let lang = ALL_LANGS[rng.below(6)];
        let multi = rng.coin() && !matches!(lang, LangId::Scala | LangId::Go);
        let n_crates = if multi { rng.range(2, 4) } else { rng.range(1, 3) };
        let nv = rng.range(2, 4);
        let (vs, ch) = mk_versions(&mut rng, nv, n_crates, &mut counter);
        let len = rng.range(3, 6);
        let history: Vec<usize> = (0..len).map(|_| rng.below(nv)).collect();
        let interfere: Vec<u8> = (0..len).map(|i| if i > 0 && rng.chance(1, 4) { rng.range(1, 4) as u8 } else { 0 }).collect();
        let cfg = if rng.coin() { LangCfg::basic(lang) } else { rich_cfg(lang, &mut rng) };
        plans.push(Plan { lang, multi, n_crates, versions: vs, changes: ch, history, interfere, cfg });
    }
    let cli = ctx.cli.clone();
    let scratch = ctx.scratch("hist");
    let plans_ref = &plans;
    let mut rep = par_shards(ctx.threads, plans.len(), |pi| {
        let p = &plans_ref[pi];
        let mut rep = Report::new();
        let root = scratch.join(format!("h{pi}"));
        let cfg = p.cfg.clone();
        let cfgp = root.join("verif-typeshare.toml");
        let _ = std::fs::create_dir_all(&root);
        std::fs::write(&cfgp, crate::sut::config_toml(p.lang, &cfg)).expect("write config");
        let lname = p.lang.name();
        let mode = if p.multi { "multi-file" } else { "single-file" };
        // materialise versions
        for (k, v) in p.versions.iter().enumerate() {
            let mut files = render_version(v, p.n_crates);
            for f in files.iter_mut() {
                f.path = format!("v{k}/{}", f.path);
            }
            write_tree(&root, &files);
        }
        let out_of = |tag: &str| -> PathBuf { if p.multi { root.join(format!("out-{tag}")) } else { root.join(format!("out-{tag}.{}", p.lang.ext())) } };
        let run_version = |k: usize, out: &Path, log: Option<PathBuf>| {
            let src = root.join(format!("v{k}"));
            let mut args = vec!["--config-file".to_string(), cfgp.to_string_lossy().into_owned()];
            args.extend(cli_args(p.lang, &cfg, p.multi, out, &[src.to_str().unwrap()]));
            run_bin(BinRun { cli: &cli, args, env: vec![], cwd: &root, strace: log, wall_limit: Duration::from_secs(30) })
        };
        // fresh references
        let mut fresh: BTreeMap<usize, Snap> = BTreeMap::new();
        for &k in p.history.iter() {
            if fresh.contains_key(&k) {
                continue;
            }
            let out = out_of(&format!("fresh{k}"));
            let o = run_version(k, &out, None);
            rep.count("cli_runs", 1);
            if !o.ok() {
                rep.inconclusive("cli-run-failed", json!({"stderr": o.stderr.chars().take(300).collect::<String>(), "language": lname}));
                let _ = std::fs::remove_dir_all(&root);
                return rep;
            }
            fresh.insert(k, snapshot(&out, p.multi));
        }
        let out = out_of("hist");
        let mut prev_version: Option<usize> = None;
        let mut prev_snap: Snap = BTreeMap::new();
        let hist_label: String = p.history.iter().map(|k| k.to_string()).collect::<Vec<_>>().join(",");
        for (step, &k) in p.history.iter().enumerate() {
            let log = root.join(format!("strace-{step}.log"));
            let meddling = p.interfere.get(step).copied().unwrap_or(0);
            if meddling != 0 && !prev_snap.is_empty() {
                let names: Vec<&String> = prev_snap.keys().collect();
                let target = |n: &String| if p.multi { out.join(n) } else { out.clone() };
                match meddling {
                    1 => {
                        let _ = std::fs::remove_file(target(names[0]));
                    }
                    2 => {
                        let _ = std::fs::write(target(names[names.len() - 1]), b"// somebody else's bytes\n");
                    }
                    3 => {
                        let n = names.iter().find(|n| n.ends_with("Codable.swift")).copied().unwrap_or(names[names.len() - 1]);
                        let _ = std::fs::remove_file(target(n));
                    }
                    _ => {
                        // a file of somebody else's under the name of the shared support file (of the first module elsewhere)
                        let n = names.iter().find(|n| n.ends_with("Codable.swift")).copied().unwrap_or(names[0]);
                        let _ = std::fs::write(target(n), b"// not written by the tool\npublic struct SomethingElse {}\n");
                    }
                }
                rep.count("steps_after_outside_interference", 1);
                rep.cell(format!("interference|{lname}|{mode}|kind{meddling}|{}", if prev_version == Some(k) { "same-version" } else { "other-version" }));
                // what the run finds is no longer what the previous run left: the untouched-rerun promise does not apply
                prev_version = None;
            }
            // make a rewrite observable through mtime even on coarse clocks
            std::thread::sleep(Duration::from_millis(3));
            let o = run_version(k, &out, Some(log.clone()));
            rep.eval(1);
            rep.count("cli_runs", 1);
            rep.count("cli_runs_under_strace", 1);
            if !o.ok() {
                rep.inconclusive("cli-run-failed", json!({"stderr": o.stderr.chars().take(300).collect::<String>(), "language": lname}));
                break;
            }
            let events = parse_log(&log);
            rep.count("syscall_events_logged", events.len() as u64);
            let snap = snapshot(&out, p.multi);
            let detail = |extra: serde_json::Value| {
                json!({"language": lname, "mode": mode, "history": hist_label, "interference_before_step": p.interfere, "config": p.cfg.to_json(), "step": step, "version": k, "changes_between_versions": p.changes,
                       "versions": p.versions.iter().map(|v| render_version(v, p.n_crates).iter().map(|f| json!({"path": f.path, "source": f.source})).collect::<Vec<_>>()).collect::<Vec<_>>(), "extra": extra})
            };
            if prev_version == Some(k) {
                rep.count("unchanged_reruns_checked", 1);
                rep.cell(format!("rerun-unchanged|{lname}|{mode}"));
                let mods = modifications_under(&events, out.to_str().unwrap());
                if !mods.is_empty() {
                    rep.violate(
                        format!("C17|unchanged-rerun-writes|{mode}|{}", mods[0].class),
                        format!("{lname} {mode}: re-running on unchanged sources touches the output: {}", mods[0].line),
                        detail(json!({"events": mods.iter().take(6).map(|e| e.line.clone()).collect::<Vec<_>>() })),
                    );
                }
                for (n, (b, t, ino)) in &prev_snap {
                    match snap.get(n) {
                        Some((b2, t2, i2)) if b2 == b && t2 == t && i2 == ino => {}
                        Some((b2, _, _)) => rep.violate(
                            format!("C17|unchanged-rerun-{}|{mode}", if b2 == b { "rewrites-identical-bytes" } else { "changes-bytes" }),
                            format!("{lname} {mode}: output file {n:?} was rewritten by a re-run on unchanged sources"),
                            detail(json!({"file": n})),
                        ),
                        None => rep.violate(format!("C17|unchanged-rerun-removes-file|{mode}"), format!("output file {n:?} disappeared"), detail(json!({"file": n}))),
                    }
                }
            } else if let Some(pv) = prev_version {
                rep.cell(format!("version-change|{lname}|{mode}|{}", p.changes.get(pv.min(k)).copied().unwrap_or("multi-step")));
            }
            // every file this version is responsible for equals the fresh run's
            let reference = &fresh[&k];
            for (n, (b, _, _)) in reference {
                rep.count("files_compared_with_fresh_run", 1);
                match snap.get(n) {
                    Some((b2, _, _)) if b2 == b => {}
                    Some((b2, _, _)) => {
                        let kind = if n.ends_with("Codable.swift") { "Codable.swift" } else { "crate-file" };
                        rep.violate(
                            format!("C17|stale-or-wrong-content|{mode}|{kind}"),
                            format!("{lname} {mode}: after history [{hist_label}] file {n:?} differs from what a run of version {k} into an empty location produces"),
                            detail(json!({"file": n, "after_history": String::from_utf8_lossy(b2), "fresh_run": String::from_utf8_lossy(b)})),
                        );
                    }
                    None => rep.violate(format!("C17|file-not-written|{mode}"), format!("{lname} {mode}: file {n:?} of version {k} is missing after history [{hist_label}]"), detail(json!({"file": n}))),
                }
            }
            prev_version = Some(k);
            prev_snap = snap;
        }
        if pi % 53 == 0 {
            rep.sample(json!({"language": lname, "mode": mode, "history": hist_label, "changes": p.changes, "versions": p.versions.len()}));
        }
        let _ = std::fs::remove_dir_all(&root);
        rep
    });
    rep.count("histories", plans.len() as u64);
    let _ = std::fs::remove_dir_all(&scratch);
    let spec = Spec {
        level: "exploration",
        rule: format!("{} histories of runs of the real binary into one persistent output location: all 30 histories of length <= 4 over 2 source versions for every (language, mode) pair (once under the default settings, then under richer ones from a configuration file: packages, prefixes, acronyms, Swift decorator and CodableVoid conformance lists of three and four entries), 20 more per pair in which somebody else removes or overwrites an output file (a module, Codable.swift) between two runs, the same in a quarter of the steps of the seeded histories, plus seeded histories of 3-6 runs over 2-4 versions (type added / removed / renamed / moved between crates, () use toggled for Codable.swift, field toggled); every run under strace; oracle: an unchanged re-run produces no create/truncate/write/rename/unlink event on the output location and leaves bytes, mtime_ns and inode of every file unchanged; after every run each file a fresh run of that version creates has exactly the fresh run's bytes; distinct = (kind of step, language, mode, change kind)", plans.len()),
        assumptions: vec![
            "files left behind by earlier versions (a crate that disappeared, an unused Codable.swift) are not the last run's responsibility".into(),
            "multi-file mode is exercised for TypeScript, Kotlin, Swift and Python (Scala and Go have no multi-file support)".into(),
        ],
        exhaustive: Some(false),
    };
    (spec, rep)
}
