//! C10 — generated files are syntactically well-formed in their target language.
//! Oracle: CPython's own parser for Python (plus import under stub pydantic for syntax-level errors),
//! strict recursive-descent parsers of the declaration subset for the other five languages.
use crate::checks::broad::{run_rounds, Case, Gen};
use crate::gen::{gen_program, Profile, Program};
use crate::ir::ParseStatus;
use crate::model::*;
use crate::report::{Ctx, Report, Spec};
use crate::rng::Rng;
use crate::sut::{LangCfg, LangId, LibOutcome, SrcFile, ALL_LANGS};
use serde_json::json;

/// (field ident, needs r#) — keywords of Swift and Python that are legal Rust field names
const KW_FIELDS: [(&str, bool); 50] = [
    ("default", false), ("class", false), ("func", false), ("import", false), ("is", false), ("var", false), ("public", false), ("private", false), ("init", false), ("internal", false),
    ("case", false), ("guard", false), ("defer", false), ("repeat", false), ("switch", false), ("operator", false), ("protocol", false), ("extension", false), ("nil", false), ("catch", false),
    ("from", false), ("global", false), ("lambda", false), ("pass", false), ("with", false), ("del", false), ("def", false), ("not", false), ("and", false), ("or", false),
    ("in", true), ("for", true), ("let", true), ("where", true),
    // names that only become a keyword after the case conversion a backend applies to field names
    ("for_", false), ("in_", false), ("as_", false), ("while_", false), ("try_", false), ("return_", false), ("class_", false), ("from_", false),
    ("_in", false), ("_for", false), ("_import", false), ("Class", false), ("Import", false), ("Default", false), ("is_", false), ("_is", false),
];
const KW_VARIANTS: [&str; 27] = ["Default", "Public", "Internal", "Static", "Import", "Return", "In", "Is", "Case", "Class", "Func", "Let", "Var", "Init", "Private", "Where", "While", "Switch", "Guard", "Defer", "Repeat", "Throw", "Catch", "Nil", "_1st", "_2Fast", "_9"];

const KW_TYPES: &str = "#[typeshare]\npub struct Type { pub a: u8 }\n#[typeshare]\npub struct Protocol<T> { pub t: T, pub list: Vec<T> }\n#[typeshare]\npub enum Any { First, Second }\n#[typeshare]\npub struct QkwtypUser { pub a: Type, pub b: Vec<Type>, pub c: Option<Protocol<Type>>, pub d: HashMap<String, Any>, pub e: [Type; 2], pub f: Protocol<Vec<Any>> }\n#[typeshare]\npub type QkwtypAlias = Protocol<String>;\n#[typeshare]\npub struct QkwtypNewtype(pub Type);\n#[typeshare]\n#[serde(tag = \"t\", content = \"c\")]\npub enum QkwtypEnum { Plain(Type), Wrapped(Option<Protocol<Any>>), Fields { x: Type, y: Vec<Any> } }\n";

/// (class, wire name): serde accepts any string as a rename
const HOSTILE_WIRE_NAMES: [(&str, &str); 9] = [
    ("digit-leading", "2fa_code"), ("digit-only", "9"), ("empty", ""), ("space", "with space"), ("double-quote", "quo\"te"),
    ("backslash", "back\\slash"), ("dot", "a.b"), ("digit-leading-dash", "3d-secure"), ("slash", "a/b"),
];

/// the hostile wire name of a program, if it has one: "field:<class>" / "variant:<class>"
fn hostile_of(p: &Program) -> Option<String> {
    let class = |r: &str| HOSTILE_WIRE_NAMES.iter().find(|(_, v)| *v == r).map(|(c, _)| c.to_string());
    for it in &p.items {
        match &it.kind {
            Kind::Struct(fs) => {
                for f in fs {
                    if let Some(c) = f.rename.as_deref().and_then(class) {
                        return Some(format!("field:{c}"));
                    }
                }
            }
            Kind::Enum { variants, tag, .. } => {
                for v in variants {
                    if let Some(c) = v.rename.as_deref().and_then(class) {
                        return Some(format!("{}-variant:{c}", if tag.is_some() { "tagged" } else { "unit" }));
                    }
                }
            }
            _ => {}
        }
    }
    None
}

fn msg_class(m: &str) -> String {
    // drop positions, quoted fragments and the "near" excerpt so that the class is stable
    let m = m.split("(near:").next().unwrap_or(m);
    let m = m.split(" (").next().unwrap_or(m);
    let mut out = String::new();
    let mut in_tick = false;
    for c in m.chars() {
        if c == '`' {
            in_tick = !in_tick;
            out.push('`');
            continue;
        }
        if c.is_ascii_digit() {
            continue;
        }
        if in_tick && !(c.is_ascii_punctuation() || c == ' ') {
            // keep punctuation-only fragments such as `= _`, drop identifiers
            if out.ends_with('~') {
                continue;
            }
            out.push('~');
            continue;
        }
        out.push(c);
    }
    out.replace("at byte", "").replace("  ", " ").trim().chars().take(80).collect()
}

fn judge(case: &Case<Program>, rep: &mut Report) {
    let lname = case.lang.name();
    match case.outcome {
        LibOutcome::Ok(_) => {}
        LibOutcome::Panic { loc, msg, .. } => {
            rep.inconclusive("typeshare-panic (reported by C07)", json!({"loc": loc, "msg": msg}));
            return;
        }
        other => {
            rep.inconclusive(&format!("typeshare-rejected-{lname}"), json!({"outcome": other.describe(), "source": case.source()}));
            return;
        }
    }
    let hostile = hostile_of(case.model);
    let scope = match &hostile {
        Some(h) => format!("{lname}|wire-name={h}"),
        None => lname.to_string(),
    };
    if hostile.is_some() {
        rep.count("programs_with_a_non_identifier_wire_name", 1);
    }
    for (fname, facts) in &case.facts {
        rep.eval(1);
        rep.count(&format!("files_parsed_{lname}"), 1);
        let cfgclass = format!("header={}|prefix={}|package={}", !case.cfg.no_header, !case.cfg.prefix.is_empty(), if case.cfg.package.is_empty() { "none" } else if case.cfg.package.contains('.') { "dotted" } else { "single" });
        let kw_types = case.files.iter().any(|f| f.source.contains("QkwtypUser"));
        rep.cell(format!("{lname}|{cfgclass}|multi={}|keyword-type-names={kw_types}", case.multi));
        match &facts.status {
            ParseStatus::Parsed(f) => {
                rep.count("definitions_parsed", f.defs.len() as u64);
                for is in &f.syntax_issues {
                    rep.violate(format!("C10|{lname}|{}", msg_class(is)), format!("{lname} output ill-formed: {is}"), case.detail(json!({"file": fname, "issue": is})));
                }
            }
            ParseStatus::IllFormed(m) => {
                rep.violate(format!("C10|{scope}|{}", msg_class(m)), format!("{lname} output ill-formed: {m}"), case.detail(json!({"file": fname, "parser_message": m})));
            }
            ParseStatus::OutsideSubset(m) => {
                rep.inconclusive(&format!("outside-parser-subset-{lname}"), json!({"message": m, "source": case.source()}));
            }
        }
        if let Some(py) = &facts.py {
            if let Some((ok, ty, msg)) = &py.exec {
                rep.count("python_modules_imported", 1);
                if !ok && (ty == "SyntaxError" || ty == "IndentationError" || ty == "TabError") {
                    rep.violate(format!("C10|{scope}|import:{ty}"), format!("python import fails: {ty}: {msg}"), case.detail(json!({"error": msg})));
                }
            }
        }
    }
    if case.index < 2 {
        rep.sample(json!({"language": lname, "config": case.cfg.to_json(), "source": case.source()}));
    }
}

pub fn run(ctx: &Ctx) -> (Spec, Report) {
    let n = ctx.tier.pick(5000, 60_000);
    let mut rep = run_rounds(
        ctx,
        "C10",
        n,
        true,
        |rng: &mut Rng, _i| {
            let mut p = Profile::broad();
            p.consts = true;
            p.type_renames = rng.coin();
            p.items = (1, 8);
            p.fields = (0, 6);
            p.datetime = true;
            let lang = ALL_LANGS[rng.below(6)];
            let mut prog = gen_program(rng, &p, Some(lang));
            // keyword collisions where a backend promises escaping, empty enums, overrides, decorators
            for it in prog.items.iter_mut().filter(|i| i.is_annotated()) {
                match &mut it.kind {
                    Kind::Struct(fs) => {
                        if rng.chance(1, 4) {
                            let (kw, raw) = *rng.pick(&KW_FIELDS);
                            if !fs.iter().any(|f| f.ident == kw) {
                                let mut f = Field::new(kw, Ty::Prim("u32"));
                                f.raw = raw;
                                if rng.chance(1, 4) {
                                    f.rename = Some(format!("{kw}-x"));
                                }
                                fs.push(f);
                            }
                        }
                        if rng.chance(1, 8) {
                            if let Some(f) = fs.first_mut() {
                                f.ts_args.push(rng.pick(&["typescript(readonly)", "typescript(type = \"string | number\")", "kotlin(type = \"kotlin.Any\")", "swift(type = \"Any\")", "go(type = \"interface{}\")", "scala(type = \"Any\")", "typescript(readonly, type = \"Record<string, unknown>[]\")", "typescript(type = \"string | number\", readonly)", "typescript(type = \"unknown\", readonly), kotlin(type = \"kotlin.Any\")"]).to_string());
                            }
                        }
                    }
                    Kind::Enum { variants, .. } => {
                        if rng.chance(1, 4) {
                            let kw = *rng.pick(&KW_VARIANTS);
                            if !variants.iter().any(|v| v.ident == kw) {
                                let mut v = Variant::new(kw, VKind::Unit);
                                if rng.chance(1, 3) {
                                    v.rename = Some(format!("{}-renamed", kw.to_lowercase()));
                                }
                                variants.insert(rng.below(variants.len() + 1), v);
                            }
                        }
                    }
                    _ => {}
                }
            }
            if rng.chance(1, 12) {
                prog.items.push(Item::new("QemptyEnumz", Kind::Enum { variants: vec![], tag: None, content: None }));
            }
            // a sixth of the programs: exactly one wire name that is not an identifier in any target language. These
            // programs report under a signature of their own (`wire-name=<class>`), so that what is recorded about them
            // cannot hide a defect of ordinary programs behind the same parser message.
            if rng.chance(1, 6) {
                let (_, value) = *rng.pick(&HOSTILE_WIRE_NAMES);
                let structs: Vec<usize> = prog.items.iter().enumerate().filter(|(_, i)| i.is_annotated() && matches!(&i.kind, Kind::Struct(fs) if !fs.is_empty())).map(|(k, _)| k).collect();
                let enums: Vec<usize> = prog.items.iter().enumerate().filter(|(_, i)| i.is_annotated() && matches!(&i.kind, Kind::Enum { variants, .. } if !variants.is_empty())).map(|(k, _)| k).collect();
                if rng.coin() && !structs.is_empty() {
                    if let Kind::Struct(fs) = &mut prog.items[*rng.pick(&structs)].kind {
                        let k = rng.below(fs.len());
                        fs[k].rename = Some(value.to_string());
                    }
                } else if !enums.is_empty() {
                    if let Kind::Enum { variants, .. } = &mut prog.items[*rng.pick(&enums)].kind {
                        let k = rng.below(variants.len());
                        variants[k].rename = Some(value.to_string());
                    }
                }
            }
            let src = prog.render(rng, &RenderOpts { vary: true, prelude: false, strip_typeshare: false });
            let src = if rng.chance(1, 4) { crate::model::relayout(&src, rng.range(1, 4)) } else { src };
            // an eighth of the programs: user types whose own names are Swift keywords (legal Rust type names), defined and
            // referred to from every kind of position, so that prefixing and escaping meet in declarations and references
            let kw_types = rng.chance(1, 8);
            let src = if kw_types { format!("{src}\n{KW_TYPES}") } else { src };
            let has_const = prog.items.iter().any(|i| matches!(i.kind, Kind::Const { .. }));
            let generic_enum = prog.items.iter().any(|i| matches!(i.kind, Kind::Enum { .. }) && !i.generics.is_empty());
            let generic_alias = prog.items.iter().any(|i| matches!(i.kind, Kind::Alias(_) | Kind::Newtype(_)) && !i.generics.is_empty());
            let uses_dt = src.contains("OffsetDateTime");
            let multi = rng.chance(1, 5);
            let langs: Vec<(LangId, LangCfg)> = ALL_LANGS
                .iter()
                .filter(|l| !(has_const && !l.supports_const()))
                .filter(|l| !(uses_dt && !matches!(l, LangId::Ts | LangId::Go | LangId::Python)))
                .filter(|l| !((generic_enum || generic_alias) && matches!(l, LangId::Go | LangId::Python)))
                // the Scala and Go backends have no multi-file import support (write_imports is unimplemented!)
                .filter(|l| !(multi && matches!(l, LangId::Scala | LangId::Go)))
                .map(|l| {
                    let mut c = LangCfg::basic(*l);
                    if matches!(l, LangId::Swift | LangId::Kotlin) && rng.coin() {
                        c.prefix = "OP".into();
                    }
                    // header setting of the library API (the version header is a comment block of its own form per backend)
                    c.no_header = rng.chance(1, 4);
                    match l {
                        LangId::Kotlin => c.package = rng.pick(&["", "com.verif.gen", "pkg"]).to_string(),
                        LangId::Scala => c.package = rng.pick(&["com.verif.gen", "com.verif.gen", "pkg"]).to_string(),
                        LangId::Swift => {
                            if rng.chance(1, 4) {
                                c.default_decorators = vec!["Sendable".into(), "Identifiable".into()];
                                c.default_generic_constraints = vec!["Sendable".into()];
                                c.codablevoid_constraints = vec!["Equatable".into()];
                            }
                        }
                        LangId::Go => {
                            if rng.chance(1, 4) {
                                c.uppercase_acronyms = vec!["ID".into(), "URL".into()];
                            }
                        }
                        LangId::Ts => {
                            // mappings onto the two types that bring the reviver / replacer helpers in: the helper code is
                            // assembled from what the fields registered, whatever position the mapped type occurred at
                            let mut tm = std::collections::HashMap::new();
                            if rng.chance(1, 3) {
                                tm.insert("OffsetDateTime".to_string(), "Date".to_string());
                            }
                            if rng.chance(1, 3) {
                                tm.insert("Vec<u8>".to_string(), "Uint8Array".to_string());
                            }
                            c.type_mappings = tm;
                        }
                        _ => {}
                    }
                    (*l, c)
                })
                .collect();
            // folder output: a second crate that the first one refers to, so that import lines are generated as well
            let mut files = vec![SrcFile { path: "gen_crate/src/lib.rs".into(), source: src }];
            if multi {
                files[0].source = format!("use other_crate::QotherThing;\n{}\n#[typeshare]\npub struct QusesOther {{ pub o: QotherThing, pub list: Vec<other_crate::QotherSecond> }}\n", files[0].source);
                files.push(SrcFile { path: "other_crate/src/lib.rs".into(), source: "#[typeshare]\npub struct QotherThing { pub z: u8 }\n#[typeshare]\npub enum QotherSecond { A, B }\n".into() });
            }
            Gen { model: prog, files, multi, langs }
        },
        judge,
    );
    // the snapshot corpus: every input of the repository's own suite, through every backend
    let mut inputs: Vec<(String, String)> = vec![];
    if let Ok(rd) = std::fs::read_dir(ctx.repo.join("core/data/tests")) {
        let mut es: Vec<_> = rd.flatten().collect();
        es.sort_by_key(|e| e.file_name());
        for e in es {
            if let Ok(t) = std::fs::read_to_string(e.path().join("input.rs")) {
                inputs.push((e.file_name().to_string_lossy().into_owned(), t));
            }
        }
    }
    let n_in = inputs.len();
    let inputs_ref = &inputs;
    let r2 = run_rounds(
        ctx,
        "C10-corpus",
        n_in,
        true,
        |_rng: &mut Rng, i| {
            let langs = ALL_LANGS.iter().map(|l| (*l, LangCfg::basic(*l))).collect();
            Gen { model: Program { items: vec![], stems: Default::default() }, files: vec![SrcFile { path: format!("corpus/src/{}.rs", inputs_ref[i].0), source: inputs_ref[i].1.clone() }], multi: false, langs }
        },
        |case, rep| {
            // corpus inputs contain constructs some backends do not support: only successful outputs are judged
            if matches!(case.outcome, LibOutcome::Ok(_)) {
                judge(case, rep)
            }
        },
    );
    rep.merge(r2);
    rep.count("corpus_inputs", n_in as u64);
    let spec = Spec {
        level: "exploration",
        rule: format!("{n} generated programs mixing every supported feature (all item kinds, generics, renames incl. dashed keys, optionals, empty structs/enums, decorators, redaction, per-language type overrides, doc comments on every level, Swift/Python keyword fields and keyword-cased variants, user types named Type / Protocol / Any defined and referred to at 11 positions) x up to 6 languages x header/package/prefix/decorator/type-mapping settings, single- and multi-file, plus the {n_in} inputs of the snapshot corpus; each output file goes through CPython (compile + import under stub pydantic) or the language's strict declaration parser; distinct = (language, header?, prefix?, package shape, multi-file?, keyword type names?)"),
        assumptions: vec![
            "the five hand-written parsers accept the declaration subset typeshare emits and reject unterminated literals/comments, unbalanced delimiters and malformed declaration heads; files outside the subset are counted as inconclusive".into(),
            "keyword collisions are checked only where the backend promises escaping (Swift, Python)".into(),
        ],
        exhaustive: None,
    };
    (spec, rep)
}
