//! C06 — output is a deterministic function of the inputs: byte equality across arrival orders
//! (hook-permuted), thread counts and injected delays (real schedules), fresh processes (hash seeds)
//! and re-splits of the same items over files. Thorough adds ThreadSanitizer and Miri slices.
use crate::gen::{camel_name, cap, snake_name, Stems};
use crate::ir::ParseStatus;
use crate::lang::parse_text;
use crate::report::{par_shards, Ctx, Report, Spec, Tier};
use crate::rng::Rng;
use crate::sut::{cli_args, read_dir_files, run_bin, write_tree, BinRun, Exit, LangCfg, LangId, SrcFile, ALL_LANGS};
use serde_json::json;
use std::collections::{BTreeMap, BTreeSet};
use std::path::{Path, PathBuf};
use std::time::Duration;

#[derive(Clone)]
struct GItem {
    text: String,
    name: String,
    is_const: bool,
}

#[derive(Clone)]
pub struct Tree {
    pub files: Vec<SrcFile>,
    pub n_source_files: usize,
    pub has_consts: bool,
}

/// items with unique names; later items may reference earlier ones
fn gen_items(rng: &mut Rng, n: usize, consts: bool, datetime: bool) -> Vec<GItem> {
    let mut stems = Stems::default();
    let mut out: Vec<GItem> = vec![];
    let mut types: Vec<String> = vec![];
    for _ in 0..n {
        let st = stems.fresh(rng);
        let kind = rng.below(if consts { 5 } else { 4 });
        let name = camel_name(&st, rng);
        let refty = |rng: &mut Rng, types: &Vec<String>| -> String {
            if !types.is_empty() && rng.chance(2, 3) {
                let t = rng.pick(types).clone();
                match rng.below(3) {
                    0 => t,
                    1 => format!("Vec<{t}>"),
                    _ => format!("Option<{t}>"),
                }
            } else {
                // types that make a backend pull in helpers / imports (their order must not depend on hash seeds either)
                if datetime && rng.chance(1, 5) {
                    return rng.pick(&["OffsetDateTime", "Option<OffsetDateTime>", "Vec<OffsetDateTime>"]).to_string();
                }
                rng.pick(&["u32", "String", "bool", "Vec<String>", "Option<i32>", "HashMap<String, u32>", "()", "Vec<u8>", "[u16; 2]"]).to_string()
            }
        };
        let (text, is_const, nm) = match kind {
            0 | 1 => {
                let nf = rng.range(1, 3);
                // container-level renames: the sort key and the printed name then differ
                let ren = if rng.chance(1, 3) { format!("#[serde(rename = \"{}{}\")]\n", ["Zz", "Aa", "Mm"][rng.below(3)], name) } else { String::new() };
                let mut t = format!("#[typeshare]\n{ren}pub struct {name} {{\n");
                for _ in 0..nf {
                    let fs = stems.fresh(rng);
                    t.push_str(&format!("    pub {}: {},\n", snake_name(&fs, rng), refty(rng, &types)));
                }
                t.push_str("}\n");
                (t, false, name.clone())
            }
            2 => {
                let ren = if rng.chance(1, 3) { format!("#[serde(rename = \"{}{}\")]\n", ["Zz", "Aa", "Mm"][rng.below(3)], name) } else { String::new() };
                let mut t = format!("#[typeshare]\n{ren}#[serde(tag = \"type\", content = \"content\")]\npub enum {name} {{\n");
                let vs = stems.fresh(rng);
                t.push_str(&format!("    {},\n", cap(&vs)));
                let vs2 = stems.fresh(rng);
                t.push_str(&format!("    {}({}),\n", cap(&vs2), refty(rng, &types)));
                t.push_str("}\n");
                (t, false, name.clone())
            }
            3 => {
                let ren = if rng.chance(1, 3) { format!("#[serde(rename = \"{}{}\")]\n", ["Zz", "Aa", "Mm"][rng.below(3)], name) } else { String::new() };
                (format!("#[typeshare]\n{ren}pub type {name} = {};\n", refty(rng, &types)), false, name.clone())
            }
            _ => {
                let cname = format!("{}_{}", st.to_uppercase(), ["LIMIT", "SIZE", "MAX"][rng.below(3)]);
                (format!("#[typeshare]\npub const {cname}: u32 = {};\n", rng.below(1000)), true, cname)
            }
        };
        if !is_const {
            types.push(nm.clone());
        }
        // a quarter of the items carry the attribute by its path; after a split a file may hold only such items
        let text = if rng.chance(1, 4) { text.replacen("#[typeshare]", "#[typeshare::typeshare]", 1) } else { text };
        out.push(GItem { text, name: nm, is_const });
    }
    out
}

/// The scratch trees live below /verif, whose own .gitignore lists `target/`; the walker honours ignore files of parent
/// directories. An ignore file at the root of the tree takes the rule back, so that `target` is the ordinary, visible,
/// non-ignored directory the workload means it to be.
fn unignore_tool_directories(root: &Path) {
    for d in ["src_root", "second_root", "third_root"] {
        if root.join(d).is_dir() {
            let _ = std::fs::write(root.join(d).join(".gitignore"), "!target/\n!target/**\n!build/\n!out/\n!node_modules/\n!vendor/\n!tmp/\n!debug/\n");
        }
    }
    let _ = std::fs::write(root.join(".ignore"), "!target/\n!target/**\n");
}

/// distribute items over `k` files in crates / directories; `salt` selects the partition
fn layout(items: &[GItem], k: usize, crates: usize, rng: &mut Rng) -> Tree {
    let crate_names = ["alpha_core", "beta-util", "gamma", "delta_x", "eps"];
    let mut paths: Vec<String> = vec![];
    for i in 0..k {
        let c = crate_names[i % crates.max(1)];
        // directory names that mean something to other tools (cargo, npm, git) are ordinary source directories here
        let p = match rng.below(6) {
            0 if !paths.contains(&format!("{c}/src/lib.rs")) => format!("{c}/src/lib.rs"),
            1 => format!("{c}/src/f{i}.rs"),
            2 => format!("{c}/src/sub{}/m{i}.rs", i % 3),
            4 => format!("{c}/src/{}/t{i}.rs", ["target", "build", "node_modules", "vendor", "out", "tests"][i % 6]),
            5 => format!("{c}/src/source/{}/u{i}.rs", ["target", "debug", "tmp"][i % 3]),
            _ => format!("{c}/src/deep/er/x{i}.rs"),
        };
        paths.push(p);
    }
    let mut bodies: Vec<String> = vec![String::new(); k];
    // every file gets at least one item
    for (i, it) in items.iter().enumerate() {
        let f = if i < k { i } else { rng.below(k) };
        bodies[f].push_str(&it.text);
        bodies[f].push('\n');
    }
    let files = paths.into_iter().zip(bodies).map(|(path, source)| SrcFile { path, source }).collect();
    Tree { files, n_source_files: k, has_consts: items.iter().any(|i| i.is_const) }
}

/// add `use` lines for cross-crate references (multi-file mode)
fn add_uses(tree: &mut Tree, items: &[GItem]) {
    let crate_of = |path: &str| path.split('/').next().unwrap_or("").replace('-', "_");
    let mut home: BTreeMap<String, String> = BTreeMap::new();
    for f in &tree.files {
        for it in items {
            if !it.is_const && f.source.contains(&format!(" {} ", it.name)) || f.source.contains(&format!("type {} =", it.name)) {
                home.entry(it.name.clone()).or_insert_with(|| crate_of(&f.path));
            }
        }
    }
    for f in tree.files.iter_mut() {
        let me = crate_of(&f.path);
        let mut uses = BTreeSet::new();
        for (name, c) in &home {
            if *c != me && f.source.contains(name.as_str()) {
                uses.insert(format!("use {c}::{name};\n"));
            }
        }
        let header: String = uses.into_iter().collect();
        f.source = format!("{header}{}", f.source);
    }
}

pub struct RunOut {
    pub files: BTreeMap<String, Vec<u8>>,
    pub ok: bool,
    pub stderr: String,
    pub arrivals: Vec<String>,
}

pub fn run_tree(cli: &Path, root: &Path, lang: LangId, cfg: &LangCfg, multi: bool, env: Vec<(String, String)>, tag: &str, strace: Option<PathBuf>) -> RunOut {
    run_tree_dirs(cli, root, lang, cfg, multi, env, tag, strace, &["src_root"])
}

/// the same with several input directories on the command line
pub fn run_tree_dirs(cli: &Path, root: &Path, lang: LangId, cfg: &LangCfg, multi: bool, env: Vec<(String, String)>, tag: &str, strace: Option<PathBuf>, dirs: &[&str]) -> RunOut {
    let out = if multi { root.join(format!("out-{tag}")) } else { root.join(format!("out-{tag}.{}", lang.ext())) };
    let _ = std::fs::remove_dir_all(&out);
    let _ = std::fs::remove_file(&out);
    let log = root.join(format!("log-{tag}.jsonl"));
    let _ = std::fs::remove_file(&log);
    let mut env = env;
    env.push(("TYPESHARE_VERIF_LOG".into(), log.to_string_lossy().into_owned()));
    // settings that only exist in typeshare.toml (decorators, constraints, acronyms, type mappings) travel in a config file
    let cfgp = root.join("verif-typeshare.toml");
    std::fs::write(&cfgp, crate::sut::config_toml(lang, cfg)).expect("write config");
    let mut args = vec!["--config-file".to_string(), cfgp.to_string_lossy().into_owned()];
    args.extend(cli_args(lang, cfg, multi, &out, dirs));
    let o = run_bin(BinRun { cli, args, env, cwd: root, strace, wall_limit: Duration::from_secs(60) });
    let files = if multi {
        read_dir_files(&out)
    } else {
        let mut m = BTreeMap::new();
        if let Ok(b) = std::fs::read(&out) {
            m.insert(String::new(), b);
        }
        m
    };
    let arrivals: Vec<String> = std::fs::read_to_string(&log)
        .unwrap_or_default()
        .lines()
        .filter_map(|l| serde_json::from_str::<serde_json::Value>(l).ok())
        .map(|v| format!("{}/{}", v["crate"].as_str().unwrap_or(""), v["first"].as_str().unwrap_or("")))
        .collect();
    let _ = std::fs::remove_file(&log);
    RunOut { files, ok: matches!(o.exit, Exit::Code(0)), stderr: o.stderr, arrivals }
}

/// a configuration that exercises every table a backend keeps in a hash set / hash map
fn rich_cfg(lang: LangId) -> LangCfg {
    let mut c = LangCfg::basic(lang);
    match lang {
        LangId::Swift => {
            c.default_decorators = vec!["Sendable".into(), "Identifiable".into()];
            c.default_generic_constraints = vec!["Sendable".into(), "Hashable".into()];
            c.codablevoid_constraints = vec!["Equatable".into(), "Hashable".into(), "Comparable".into()];
        }
        LangId::Go => c.uppercase_acronyms = vec!["ID".into(), "URL".into(), "Info".into()],
        _ => {}
    }
    for (k, v) in [("OffsetDateTime", "MappedStamp"), ("Vec<u8>", "MappedBytes"), ("UnknownOne", "MappedOne"), ("UnknownTwo", "MappedTwo")] {
        if matches!(lang, LangId::Ts | LangId::Go | LangId::Python) || !k.contains('<') {
            c.type_mappings.insert(k.to_string(), v.to_string());
        }
    }
    c
}

/// classify how two outputs differ: which kind of definition is the first to be out of place
fn diff_class(lang: LangId, a: &BTreeMap<String, Vec<u8>>, b: &BTreeMap<String, Vec<u8>>) -> String {
    if a.keys().collect::<Vec<_>>() != b.keys().collect::<Vec<_>>() {
        return "file-set".into();
    }
    for (k, va) in a {
        let vb = &b[k];
        if va == vb {
            continue;
        }
        let (ta, tb) = (String::from_utf8_lossy(va), String::from_utf8_lossy(vb));
        let mut la: Vec<&str> = ta.lines().collect();
        let mut lb: Vec<&str> = tb.lines().collect();
        let first = la.iter().zip(lb.iter()).find(|(x, y)| x != y).map(|(x, _)| x.to_string()).unwrap_or_default();
        la.sort();
        lb.sort();
        let same_lines = la == lb;
        let what = if first.contains("import") {
            "import"
        } else if lang != LangId::Python {
            if let (ParseStatus::Parsed(fa), _) = parse_text(lang, &ta) {
                if let (ParseStatus::Parsed(fb), _) = parse_text(lang, &tb) {
                    let sa: Vec<_> = fa.defs.iter().map(|d| (d.kind, d.name.clone())).collect();
                    let sb: Vec<_> = fb.defs.iter().map(|d| (d.kind, d.name.clone())).collect();
                    match sa.iter().zip(sb.iter()).find(|(x, y)| x != y) {
                        Some((x, _)) => return format!("{}:{:?}", if same_lines { "order" } else { "content" }, x.0),
                        None => "body",
                    }
                } else {
                    "unparsed"
                }
            } else {
                "unparsed"
            }
        } else if first.contains(": int =") {
            return format!("{}:Const", if same_lines { "order" } else { "content" });
        } else {
            "python"
        };
        return format!("{}:{what}", if same_lines { "order" } else { "content" });
    }
    "none".into()
}

fn perms(n: usize) -> Vec<Vec<usize>> {
    fn rec(cur: &mut Vec<usize>, used: &mut Vec<bool>, n: usize, out: &mut Vec<Vec<usize>>) {
        if cur.len() == n {
            out.push(cur.clone());
            return;
        }
        for i in 0..n {
            if !used[i] {
                used[i] = true;
                cur.push(i);
                rec(cur, used, n, out);
                cur.pop();
                used[i] = false;
            }
        }
    }
    let mut out = vec![];
    rec(&mut vec![], &mut vec![false; n], n, &mut out);
    out
}

struct Job {
    tree: Tree,
    lang: LangId,
    multi: bool,
    /// (dimension label, env)
    variants: Vec<(String, Vec<(String, String)>)>,
    label: String,
    /// input directories on the command line (relative to the scratch root); empty = the one root directory
    dirs: Vec<String>,
}

pub fn run(ctx: &Ctx) -> (Spec, Report) {
    let quick = ctx.tier == Tier::Quick;
    let seed = ctx.seed;
    let mut jobs: Vec<Job> = vec![];
    let mut rng = Rng::derive(seed, "C06-plan", 0);
    let langs_const = [LangId::Ts, LangId::Go, LangId::Python];
    // (a) exhaustive arrival orders
    let ks: Vec<usize> = if quick { vec![3, 4, 5] } else { vec![3, 4, 5, 6] };
    for &k in &ks {
        for rep_i in 0..(if quick { 2 } else { 4 }) {
            for &lang in ALL_LANGS.iter() {
                if quick && k == 5 && !matches!(lang, LangId::Ts | LangId::Swift | LangId::Go) {
                    continue;
                }
                if k == 6 && !matches!(lang, LangId::Ts | LangId::Kotlin) {
                    continue;
                }
                for multi in [false, true] {
                    if multi && k >= 5 && lang != LangId::Ts {
                        continue;
                    }
                    let consts = langs_const.contains(&lang);
                    let n_items = k + rng.range(1, 4);
                    let items = gen_items(&mut rng, n_items, consts, langs_const.contains(&lang));
                    let mut tree = layout(&items, k, if multi { 3 } else { 2 }, &mut rng);
                    if multi {
                        add_uses(&mut tree, &items);
                    }
                    let variants = perms(k)
                        .into_iter()
                        .map(|p| (format!("perm:{}", p.iter().map(|x| x.to_string()).collect::<Vec<_>>().join(",")), vec![("TYPESHARE_VERIF_ORDER".to_string(), format!("perm:{}", p.iter().map(|x| x.to_string()).collect::<Vec<_>>().join(",")))]))
                        .collect();
                    jobs.push(Job { tree, lang, multi, variants, label: format!("all-permutations-k{k}-{rep_i}"), dirs: vec![] });
                }
            }
        }
    }
    // sampled permutations of bigger trees
    for &k in &[8usize, 12, 24] {
        for &lang in &[LangId::Ts, LangId::Python, LangId::Kotlin] {
            let multi = k == 12;
            let items = gen_items(&mut rng, k + 6, langs_const.contains(&lang), langs_const.contains(&lang));
            let mut tree = layout(&items, k, 4, &mut rng);
            if multi {
                add_uses(&mut tree, &items);
            }
            let n = ctx.tier.pick(40, 200);
            let variants = (0..n).map(|i| (format!("seed:{i}"), vec![("TYPESHARE_VERIF_ORDER".to_string(), format!("seed:{}", seed.wrapping_mul(131).wrapping_add(i as u64)))])).collect();
            jobs.push(Job { tree, lang, multi, variants, label: format!("sampled-permutations-k{k}"), dirs: vec![] });
        }
    }
    // (b2) overlapping input directories under real schedules: every file is reachable through two or three of the
    //      directories named on the command line, the walkers race for it, and exactly one of them may deliver it.
    //      The per-path delays are a function of the path, so both visits of a file are delayed alike
    for &lang in &[LangId::Ts, LangId::Python, LangId::Swift] {
        for multi in [false, true] {
            let items = gen_items(&mut rng, 40, langs_const.contains(&lang), langs_const.contains(&lang));
            let mut tree = layout(&items, 8, 2, &mut rng);
            if multi {
                add_uses(&mut tree, &items);
            }
            let mut variants = vec![];
            for th in [1usize, 2, 3, 4, 6, 8, 12, 16] {
                for ds in 0..ctx.tier.pick(5, 16) {
                    let mut env = vec![("TYPESHARE_VERIF_THREADS".to_string(), th.to_string())];
                    if ds % 2 == 1 {
                        env.push(("TYPESHARE_VERIF_DELAYS".to_string(), format!("{}:{}", seed.wrapping_add(ds), 800)));
                    }
                    variants.push((format!("threads={th},rep={ds}"), env));
                }
            }
            jobs.push(Job { tree, lang, multi, variants, label: "overlapping-roots".into(), dirs: vec!["src_root".into(), "src_root/alpha_core/src".into(), "src_root/beta-util".into(), "src_root/alpha_core".into()] });
        }
    }
    // (b) real schedules: thread counts x delay seeds
    for &lang in ALL_LANGS.iter() {
        for multi in [false, true] {
            let k = 10;
            let items = gen_items(&mut rng, 16, langs_const.contains(&lang), langs_const.contains(&lang));
            let mut tree = layout(&items, k, 4, &mut rng);
            if multi {
                add_uses(&mut tree, &items);
            }
            let mut variants = vec![];
            for th in 1..=16usize {
                for ds in 0..ctx.tier.pick(4, 12) {
                    variants.push((format!("threads={th},delays={ds}"), vec![("TYPESHARE_VERIF_THREADS".to_string(), th.to_string()), ("TYPESHARE_VERIF_DELAYS".to_string(), format!("{}:{}", seed.wrapping_add(ds), 1500))]));
                }
            }
            jobs.push(Job { tree, lang, multi, variants, label: "real-schedules".into(), dirs: vec![] });
        }
    }
    // (c) fresh processes: per-process hash seeds; incl. a name defined in two other crates and reached through a re-export
    for &lang in &[LangId::Ts, LangId::Kotlin, LangId::Swift, LangId::Go] {
        for multi in [true, false] {
            let mut files = vec![
                SrcFile { path: "app/src/lib.rs".into(), source: "use facade::Shared;\nuse facade::Other;\nuse left::LeftOnly;\n#[typeshare]\npub struct AppThing { pub a: Shared, pub b: Other, pub c: LeftOnly, pub d: Vec<right::RightOnly> }\n#[typeshare]\npub struct AppSecond { pub s: Option<Shared> }\n".into() },
                SrcFile { path: "left/src/lib.rs".into(), source: "#[typeshare]\npub struct Shared { pub l: u32 }\n#[typeshare]\npub struct Other { pub l: u32 }\n#[typeshare]\npub struct LeftOnly { pub l: u32 }\n".into() },
                SrcFile { path: "right/src/lib.rs".into(), source: "#[typeshare]\npub struct Shared { pub r: String }\n#[typeshare]\npub struct Other { pub r: String }\n#[typeshare]\npub struct RightOnly { pub r: String }\n".into() },
                SrcFile { path: "third/src/lib.rs".into(), source: "#[typeshare]\npub struct Shared { pub t: bool }\n#[typeshare]\npub enum Unrelated { A, B }\n".into() },
            ];
            if multi {
                // the re-exporting crate exists and defines types of its own, but not the re-exported names
                files.push(SrcFile { path: "facade/src/lib.rs".into(), source: "pub use left::Shared;\npub use right::Other;\n#[typeshare]\npub struct FacadeOwn { pub f: u8 }\n".into() });
            }
            if !multi {
                // single-file mode cannot hold three types of one name: keep the names distinct there
                for (i, f) in files.iter_mut().enumerate().skip(1) {
                    f.source = f.source.replace("Shared", &format!("Shared{i}")).replace("Other", &format!("Other{i}"));
                }
                files[0].source = files[0].source.replace("facade::Shared", "left::Shared1").replace("facade::Other", "left::Other1").replace(": Shared", ": Shared1").replace("<Shared>", "<Shared1>").replace(": Other", ": Other1");
            }
            let tree = Tree { files, n_source_files: 4, has_consts: false };
            let variants = (0..ctx.tier.pick(24, 120)).map(|i| (format!("process#{i}"), vec![])).collect();
            jobs.push(Job { tree, lang, multi, variants, label: "fresh-processes-reexport".into(), dirs: vec![] });
        }
    }
    // (c') random name-resolution ambiguities: one name defined in 2-3 crates (with or without different serde renames),
    // referenced from a user crate through explicit, glob, qualified and facade imports spread over one or two files
    for k in 0..ctx.tier.pick(18, 120) {
        let lang = [LangId::Ts, LangId::Kotlin, LangId::Swift, LangId::Python][k % 4];
        let providers = ["left", "right", "third"];
        let np = rng.range(2, 3);
        let mut files = vec![];
        for (pi, pname) in providers.iter().enumerate().take(np) {
            let ren = if rng.coin() { format!("#[serde(rename = \"{}Thing\")]\n", crate::gen::cap(pname)) } else { String::new() };
            files.push(SrcFile { path: format!("{pname}/src/lib.rs"), source: format!("#[typeshare]\n{ren}pub struct Thing {{ pub p{pi}: u32 }}\n#[typeshare]\npub struct Only{} {{ pub q: u32 }}\n", crate::gen::cap(pname)) });
        }
        // every file must be valid Rust on its own: exactly one provider of `Thing` is in scope in each module
        // (an explicit import, a grouped import, a single glob, a re-exporting facade, or an explicit import beside a glob of the other provider); the two modules of the
        // user crate may well pick different providers
        let mut file_src = vec![];
        for n in 1..=2usize {
            let pname = providers[rng.below(np)];
            let form = match rng.below(6) {
                // an explicit import next to a glob of another provider of the name: the explicit one is in scope (as in Rust)
                5 => format!("use {pname}::Thing;\nuse {}::*;", providers[(providers.iter().position(|p| *p == pname).unwrap_or(0) + 1) % np]),
                0 => format!("use {pname}::Thing;"),
                1 => format!("use {pname}::*;"),
                2 => format!("use {pname}::{{Thing, Only{}}};", crate::gen::cap(pname)),
                3 => "use facade::Thing;".to_string(),
                _ => format!("use {pname}::Thing;\nuse {}::Only{};", providers[(rng.below(np) + 1) % np], crate::gen::cap(providers[(rng.below(np) + 1) % np])),
            };
            file_src.push(format!("{form}\n#[typeshare]\npub struct User{n} {{ pub t: Thing, pub ts: Vec<Thing> }}\n"));
        }
        files.push(SrcFile { path: "user/src/lib.rs".into(), source: file_src[0].clone() });
        files.push(SrcFile { path: "user/src/second.rs".into(), source: file_src[1].clone() });
        // half of the trees: a third module of the user crate defines a type of the same name itself
        let mut n_user = 2;
        if rng.coin() {
            files.push(SrcFile { path: "user/src/local.rs".into(), source: "#[typeshare]\npub struct Thing { pub own: bool }\n#[typeshare]\npub struct LocalUser { pub t: Thing }\n".into() });
            n_user = 3;
        }
        let tree = Tree { files, n_source_files: np + n_user, has_consts: false };
        // fresh processes (hash seeds, real arrival order) and forced arrival orders of the per-file results
        let mut variants: Vec<(String, Vec<(String, String)>)> = (0..ctx.tier.pick(12, 40)).map(|i| (format!("process#{i}"), vec![])).collect();
        variants.push(("order=rev".into(), vec![("TYPESHARE_VERIF_ORDER".to_string(), "rev".to_string())]));
        for sd in 0..ctx.tier.pick(8, 30) {
            variants.push((format!("order=seed:{sd}"), vec![("TYPESHARE_VERIF_ORDER".to_string(), format!("seed:{sd}"))]));
        }
        jobs.push(Job { tree, lang, multi: true, variants, label: "fresh-processes-ambiguous-names".into(), dirs: vec![] });
    }
    // (a3) the same definition written in two files (platform modules that repeat a shared type): whatever the output is
    // for such input, it is the same for every delivery order of the files
    for &lang in &[LangId::Ts, LangId::Kotlin, LangId::Python] {
        let files = vec![
            SrcFile { path: "dup/src/ios.rs".into(), source: "#[typeshare]\npub struct Qonlyios { pub a: u8 }\n#[typeshare]\npub struct Qrepeated { pub r: u8 }\n#[typeshare]\npub enum Qrepeatedkind { A, B }\n".into() },
            SrcFile { path: "dup/src/android.rs".into(), source: "#[typeshare]\npub struct Qrepeated { pub r: u8 }\n#[typeshare]\npub enum Qrepeatedkind { A, B }\n#[typeshare]\npub struct Qonlyandroid { pub b: u8 }\n".into() },
            SrcFile { path: "dup/src/lib.rs".into(), source: "#[typeshare]\npub struct Qcommon { pub c: u8 }\n#[typeshare]\npub type Qalias = Vec<u8>;\n".into() },
            SrcFile { path: "dup/src/web.rs".into(), source: "#[typeshare]\npub type Qalias = Vec<u8>;\n#[typeshare]\npub struct Qonlyweb { pub w: u8 }\n".into() },
        ];
        let tree = Tree { files, n_source_files: 4, has_consts: false };
        let mut variants: Vec<(String, Vec<(String, String)>)> = vec![];
        for p in perms(4) {
            let spec = format!("perm:{}", p.iter().map(|x| x.to_string()).collect::<Vec<_>>().join(","));
            variants.push((spec.clone(), vec![("TYPESHARE_VERIF_ORDER".to_string(), spec)]));
        }
        jobs.push(Job { tree, lang, multi: false, variants, label: "all-permutations-repeated-definitions".into(), dirs: vec![] });
    }
    // (a2) a crate that shares nothing but constants, spread over three files, next to an ordinary crate: every delivery
    // order of the five files (the constants' order in the output is the sorted one, not the arrival order)
    for &lang in &[LangId::Ts, LangId::Go, LangId::Python] {
        for multi in [false, true] {
            if multi && lang == LangId::Go {
                continue;
            }
            let files = vec![
                SrcFile { path: "limits/src/lib.rs".into(), source: "#[typeshare]\npub const QMIDDLE_LIMIT: u32 = 20;\n#[typeshare]\npub const QALPHA_LIMIT: u32 = 10;\n".into() },
                SrcFile { path: "limits/src/more.rs".into(), source: "#[typeshare]\npub const QZULU_LIMIT: u32 = 30;\n#[typeshare]\npub const QBRAVO_LIMIT: u32 = 11;\n".into() },
                SrcFile { path: "limits/src/deep/last.rs".into(), source: "#[typeshare]\npub const QCHARLIE_LIMIT: u32 = 12;\n".into() },
                SrcFile { path: "ordinary/src/lib.rs".into(), source: "#[typeshare]\npub struct Qordinary { pub a: u8 }\n#[typeshare]\npub const QORDINARY_MAX: u32 = 5;\n".into() },
                SrcFile { path: "ordinary/src/second.rs".into(), source: "#[typeshare]\npub const QANOTHER_MAX: u32 = 6;\n#[typeshare]\npub enum Qkind { A, B }\n".into() },
            ];
            let tree = Tree { files, n_source_files: 5, has_consts: true };
            let mut variants: Vec<(String, Vec<(String, String)>)> = vec![];
            for p in perms(5) {
                let spec = format!("perm:{}", p.iter().map(|x| x.to_string()).collect::<Vec<_>>().join(","));
                variants.push((spec.clone(), vec![("TYPESHARE_VERIF_ORDER".to_string(), spec)]));
            }
            jobs.push(Job { tree, lang, multi, variants, label: "all-permutations-constants-only-crate".into(), dirs: vec![] });
        }
    }
    // (c3) names that are both keys of the type-mapping table and shared types of another crate, imported by name:
    // whether such an import is left out is looked up in a list built from a HashMap's keys
    for &lang in &[LangId::Ts, LangId::Kotlin, LangId::Swift, LangId::Python] {
        let files = vec![
            SrcFile { path: "common/src/lib.rs".into(), source: "#[typeshare]\npub struct Money { pub cents: u32 }\n#[typeshare]\npub struct Stamp { pub at: u32 }\n#[typeshare]\npub struct Url { pub s: String }\n#[typeshare]\npub struct Uuid { pub s: String }\n#[typeshare]\npub struct Plain { pub p: u8 }\n".into() },
            SrcFile { path: "billing/src/lib.rs".into(), source: "use common::{Money, Stamp, Url, Uuid, Plain};\n#[typeshare]\npub struct Invoice { pub total: Money, pub at: Stamp, pub link: Option<Url>, pub ids: Vec<Uuid>, pub plain: Plain }\n".into() },
            SrcFile { path: "billing/src/second.rs".into(), source: "use common::Money;\nuse common::Uuid;\n#[typeshare]\npub struct Refund { pub amount: Money, pub id: common::Uuid, pub why: common::Plain }\n".into() },
            SrcFile { path: "shipping/src/lib.rs".into(), source: "use common::*;\n#[typeshare]\npub struct Parcel { pub value: Money, pub track: Url }\n".into() },
        ];
        let tree = Tree { files, n_source_files: 4, has_consts: false };
        let variants = (0..ctx.tier.pick(16, 60)).map(|i| (format!("process#{i}"), vec![])).collect();
        jobs.push(Job { tree, lang, multi: true, variants, label: "fresh-processes-mapped-imports".into(), dirs: vec![] });
    }
    // (c'') the fixed core of (c'): two providers of one name under its own name, six consumer crates that import it
    // explicitly from one and glob-import the other (in both textual orders), fresh processes
    for &lang in &[LangId::Ts, LangId::Kotlin, LangId::Swift, LangId::Python] {
        let mut files = vec![
            SrcFile { path: "left/src/lib.rs".into(), source: "#[typeshare]\npub struct Thing { pub l: u32 }\n#[typeshare]\npub struct OnlyLeft { pub q: u32 }\n".into() },
            SrcFile { path: "right/src/lib.rs".into(), source: "#[typeshare]\npub struct Thing { pub r: u32 }\n#[typeshare]\npub struct OnlyRight { pub q: u32 }\n".into() },
        ];
        for c in 0..6 {
            let (explicit, glob) = if c % 2 == 0 { ("left", "right") } else { ("right", "left") };
            let uses = if c % 3 == 0 { format!("use {glob}::*;\nuse {explicit}::Thing;") } else { format!("use {explicit}::Thing;\nuse {glob}::*;") };
            files.push(SrcFile { path: format!("consumer{c}/src/lib.rs"), source: format!("{uses}\n#[typeshare]\npub struct Consumer{c} {{ pub t: Thing, pub o: Only{} }}\n", crate::gen::cap(glob)) });
        }
        let tree = Tree { files, n_source_files: 8, has_consts: false };
        let variants = (0..ctx.tier.pick(12, 60)).map(|i| (format!("process#{i}"), vec![])).collect();
        jobs.push(Job { tree, lang, multi: true, variants, label: "fresh-processes-explicit-beside-glob".into(), dirs: vec![] });
    }
    // (c4) a file that glob-imports three other crates and uses types of all of them (whatever is kept per glob, it is the
    // same in every process), and fields that carry type overrides for five languages at once, each naming a typeshared
    // item of the run (whatever an override means for the order of definitions, it means the same in every process)
    for &lang in &[LangId::Ts, LangId::Kotlin, LangId::Swift, LangId::Python] {
        let mut files = vec![];
        for c in ["alpha", "beta", "gamma"] {
            files.push(SrcFile { path: format!("{c}/src/lib.rs"), source: format!("#[typeshare]\npub struct {0}Thing {{ pub v: u32 }}\n#[typeshare]\n#[serde(rename = \"{0}Renamed\")]\npub struct {0}Other {{ pub w: u32 }}\n#[typeshare]\npub enum {0}Kind {{ A, B }}\n", crate::gen::cap(c)) });
        }
        files.push(SrcFile { path: "app/src/lib.rs".into(), source: "use alpha::*;\nuse beta::*;\nuse gamma::*;\n#[typeshare]\npub struct App { pub a: AlphaThing, pub b: Vec<BetaOther>, pub c: Option<GammaKind>, pub d: GammaOther }\n".into() });
        files.push(SrcFile { path: "app/src/more.rs".into(), source: "use gamma::*;\nuse alpha::*;\n#[typeshare]\npub struct More { pub a: AlphaKind, pub c: GammaThing }\n".into() });
        let tree = Tree { files, n_source_files: 5, has_consts: false };
        let variants = (0..ctx.tier.pick(12, 60)).map(|i| (format!("process#{i}"), vec![])).collect();
        jobs.push(Job { tree, lang, multi: true, variants, label: "fresh-processes-several-globs".into(), dirs: vec![] });
    }
    for &lang in ALL_LANGS.iter() {
        for multi in [false, true] {
            if multi && matches!(lang, LangId::Scala | LangId::Go) {
                continue;
            }
            let ovr = "#[typeshare(swift(type = \"ZonedStamp\"), kotlin(type = \"YearStamp\"), typescript(type = \"WeekStamp\"), go(type = \"XmasStamp\"), scala(type = \"VoidStamp\"))]";
            let files = vec![
                SrcFile { path: "acct/src/lib.rs".into(), source: format!("#[typeshare]\npub struct Account {{\n    {ovr}\n    pub at: u32,\n    pub id: u32,\n}}\n#[typeshare]\n#[serde(tag = \"t\", content = \"c\")]\npub enum Event {{\n    Seen {{\n        {ovr}\n        at: u32,\n    }},\n    Gone,\n}}\n") },
                SrcFile { path: "acct/src/stamps.rs".into(), source: "#[typeshare]\npub struct ZonedStamp { pub z: u32 }\n#[typeshare]\npub struct YearStamp { pub y: u32 }\n#[typeshare]\npub struct WeekStamp { pub w: u32 }\n#[typeshare]\npub struct XmasStamp { pub x: u32 }\n#[typeshare]\npub struct VoidStamp { pub v: u32 }\n".into() },
            ];
            let tree = Tree { files, n_source_files: 2, has_consts: false };
            let variants = (0..ctx.tier.pick(12, 60)).map(|i| (format!("process#{i}"), vec![])).collect();
            jobs.push(Job { tree, lang, multi, variants, label: "fresh-processes-override-targets".into(), dirs: vec![] });
        }
    }
    for &lang in ALL_LANGS.iter() {
        let items = gen_items(&mut rng, 14, langs_const.contains(&lang), langs_const.contains(&lang));
        let mut tree = layout(&items, 7, 3, &mut rng);
        add_uses(&mut tree, &items);
        let variants = (0..ctx.tier.pick(12, 60)).map(|i| (format!("process#{i}"), vec![])).collect();
        jobs.push(Job { tree, lang, multi: true, variants, label: "fresh-processes".into(), dirs: vec![] });
    }

    let cli = ctx.cli.clone();
    let scratch = ctx.scratch("trees");
    let jobs_ref = &jobs;
    let mut rep = par_shards(ctx.threads, jobs.len(), |j| {
        let job = &jobs_ref[j];
        let mut rep = Report::new();
        let root = scratch.join(format!("j{j}"));
        let mut files = job.tree.files.clone();
        for f in files.iter_mut() {
            f.path = format!("src_root/{}", f.path);
        }
        write_tree(&root, &files);
        unignore_tool_directories(&root);
        // every other job runs under a configuration with all file-only tables filled
        let cfg = if job.label.contains("mapped-imports") {
            // six mapped names, four of them typeshared in another crate and imported by name
            let mut c = LangCfg::basic(job.lang);
            c.type_mappings = [("Money", "MappedMoney"), ("Stamp", "MappedStamp"), ("Url", "MappedUrl"), ("Uuid", "MappedUuid"), ("Decimal", "MappedDecimal"), ("Blob", "MappedBlob")].iter().map(|(a, b)| (a.to_string(), b.to_string())).collect();
            c
        } else if j % 2 == 0 {
            rich_cfg(job.lang)
        } else {
            LangCfg::basic(job.lang)
        };
        let lname = job.lang.name();
        let mode = if job.multi { "multi-file" } else { "single-file" };
        let mut reference: Option<(String, BTreeMap<String, Vec<u8>>)> = None;
        let mut orders: BTreeSet<Vec<String>> = BTreeSet::new();
        for (vi, (vlabel, env)) in job.variants.iter().enumerate() {
            let dirs: Vec<&str> = if job.dirs.is_empty() { vec!["src_root"] } else { job.dirs.iter().map(|d| d.as_str()).filter(|d| root.join(d).is_dir()).collect() };
            let r = run_tree_dirs(&cli, &root, job.lang, &cfg, job.multi, env.clone(), "v", None, &dirs);
            rep.eval(1);
            rep.count("cli_runs", 1);
            rep.count(&format!("runs_{}", job.label.split("-k").next().unwrap_or(&job.label)), 1);
            if !r.ok {
                rep.inconclusive("cli-run-failed", json!({"label": job.label, "language": lname, "mode": mode, "stderr": r.stderr.chars().take(400).collect::<String>()}));
                continue;
            }
            orders.insert(r.arrivals.clone());
            match &reference {
                None => reference = Some((vlabel.clone(), r.files)),
                Some((rl, rf)) => {
                    if *rf != r.files {
                        let cls = diff_class(job.lang, rf, &r.files);
                        let dim = vlabel.split(|c| c == ':' || c == '=' || c == '#').next().unwrap_or("").to_string();
                        rep.violate(
                            format!("C06|{mode}|{}|{dim}|{cls}", if job.label.contains("reexport") { "reexported-name-in-two-crates" } else if job.label.contains("ambiguous") { "ambiguous-names" } else { "generated-tree" }),
                            format!("{lname} {mode}: output under {vlabel} differs from output under {rl} ({cls})"),
                            json!({"language": lname, "mode": mode, "workload": job.label, "variant_a": rl, "variant_b": vlabel,
                                   "files": job.tree.files.iter().map(|f| json!({"path": f.path, "source": f.source})).collect::<Vec<_>>(),
                                   "output_a": rf.iter().map(|(k, v)| (k.clone(), String::from_utf8_lossy(v).into_owned())).collect::<BTreeMap<_, _>>(),
                                   "output_b": r.files.iter().map(|(k, v)| (k.clone(), String::from_utf8_lossy(v).into_owned())).collect::<BTreeMap<_, _>>()}),
                        );
                    }
                }
            }
            if vi == 0 && j % 17 == 0 {
                rep.sample(json!({"workload": job.label, "language": lname, "mode": mode, "files": job.tree.files.iter().map(|f| f.path.clone()).collect::<Vec<_>>(), "variants": job.variants.len(), "first_variant": vlabel}));
            }
        }
        rep.count("distinct_arrival_orders_observed", orders.len() as u64);
        rep.cell(format!("{}|{lname}|{mode}|orders>1={}", job.label, orders.len() > 1));
        if job.label == "real-schedules" {
            rep.count("real_schedule_distinct_orders", orders.len() as u64);
            if orders.len() < 2 {
                rep.inconclusive("real-schedules-produced-a-single-arrival-order", json!({"language": lname, "mode": mode}));
            }
        }
        let _ = std::fs::remove_dir_all(&root);
        rep
    });

    // (d) re-splits: same items, different partitions into files/directories (single-file mode)
    let n_resplit = ctx.tier.pick(12, 60);
    let r2 = par_shards(ctx.threads, n_resplit, |i| {
        let mut rep = Report::new();
        let mut rng = Rng::derive(seed, "C06-resplit", i as u64);
        let lang = ALL_LANGS[i % 6];
        let n_items = rng.range(6, 14);
        let items = gen_items(&mut rng, n_items, langs_const.contains(&lang), langs_const.contains(&lang));
        let cfg = if i % 2 == 0 { rich_cfg(lang) } else { LangCfg::basic(lang) };
        let mut reference: Option<BTreeMap<String, Vec<u8>>> = None;
        for part in 0..5 {
            let k = [1usize, 2, 3, 5, items.len().min(6)][part];
            let mut shuffled = items.clone();
            if part > 0 {
                rng.shuffle(&mut shuffled);
            }
            let tree = layout(&shuffled, k.min(shuffled.len()), 1 + part % 3, &mut rng);
            let root = scratch.join(format!("rs{i}-{part}"));
            let mut files = tree.files.clone();
            // partitions 3 and 4 also spread the crates over two or three input directories, named on the command
            // line in a shuffled order
            let n_roots = [1usize, 1, 1, 2, 3][part];
            let root_names = ["src_root", "second_root", "third_root"];
            for f in files.iter_mut() {
                let krate = f.path.split('/').next().unwrap_or("").to_string();
                let ri = (krate.len() + krate.bytes().map(|b| b as usize).sum::<usize>()) % n_roots;
                f.path = format!("{}/{}", root_names[ri], f.path);
            }
            write_tree(&root, &files);
            unignore_tool_directories(&root);
            let mut dirs: Vec<&str> = root_names[..n_roots].iter().copied().filter(|d| root.join(d).is_dir()).collect();
            rng.shuffle(&mut dirs);
            rep.count(&format!("runs_resplit_with_{}_input_directories", dirs.len()), 1);
            let r = run_tree_dirs(&cli, &root, lang, &cfg, false, vec![], "v", None, &dirs);
            rep.eval(1);
            rep.count("cli_runs", 1);
            rep.count("runs_resplit", 1);
            let _ = std::fs::remove_dir_all(&root);
            if !r.ok {
                rep.inconclusive("cli-run-failed", json!({"label": "resplit", "stderr": r.stderr.chars().take(300).collect::<String>()}));
                continue;
            }
            match &reference {
                None => reference = Some(r.files),
                Some(rf) => {
                    if *rf != r.files {
                        let cls = diff_class(lang, rf, &r.files);
                        rep.violate(
                            format!("C06|single-file|resplit|{cls}"),
                            format!("{}: the same items split into {k} files give different output ({cls})", lang.name()),
                            json!({"language": lang.name(), "partition": part, "files": tree.files.iter().map(|f| json!({"path": f.path, "source": f.source})).collect::<Vec<_>>(),
                                   "output_reference": rf.iter().map(|(k, v)| (k.clone(), String::from_utf8_lossy(v).into_owned())).collect::<BTreeMap<_, _>>(),
                                   "output_this": r.files.iter().map(|(k, v)| (k.clone(), String::from_utf8_lossy(v).into_owned())).collect::<BTreeMap<_, _>>()}),
                        );
                    }
                }
            }
        }
        rep.cell(format!("resplit|{}", lang.name()));
        rep
    });
    rep.merge(r2);
    let _ = std::fs::remove_dir_all(&scratch);

    if !quick {
        crate::checks::sanitize::tsan_slice(ctx, &mut rep);
        crate::checks::sanitize::miri_cli_slice(ctx, &mut rep);
    }
    let spec = Spec {
        level: "exploration",
        rule: "real hooked binary on generated trees (structs, enums, aliases, consts, a quarter of them annotated as #[typeshare::typeshare], over k files in several directories/crates (among them directories called target, build, node_modules, vendor, out, tests, debug, tmp), cross-file references): every permutation of arrival order for k <= 5 (quick) / 6 (thorough) via TYPESHARE_VERIF_ORDER, seeded permutations for k = 8/12/24, thread counts 1..16 x injected per-path delays (distinct delivered orders counted from the hook log), overlapping input directories (each file reachable through 2-4 of them) under 8 thread counts with and without delays, repeated processes for fresh hash seeds incl. a name defined in two other crates behind a re-export, a file with three glob imports, fields with type overrides for five languages naming items of the run, and 5 re-splits of the same items; single- and multi-file mode, 6 languages; oracle = byte equality with the first run; thorough adds ThreadSanitizer and Miri (many-seeds) runs of the CLI; distinct = (workload, language, mode, more-than-one-order-observed)".into(),
        assumptions: vec![
            "the collector hook delivers exactly the permutation requested (its log is read back)".into(),
            "same-named items in one single-file run are outside the domain of the re-split oracle (the output defines the name twice); one fixed tree with repeated definitions is still run under every delivery order, because whatever is printed for it must not depend on that order".into(),
        ],
        exhaustive: Some(false),
    };
    (spec, rep)
}
