use crate::report::{Ctx, Report, Spec};
pub mod c18;

pub fn dispatch(ctx: &Ctx) -> Option<(Spec, Report)> {
    Some(match ctx.id.as_str() {
        "C18" => c18::run(ctx),
        _ => return None,
    })
}
