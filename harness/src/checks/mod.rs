use crate::report::{Ctx, Report, Spec};
pub mod broad;
pub mod c03;
pub mod c04;
pub mod c05;
pub mod c06;
pub mod c07;
pub mod c08;
pub mod c09;
pub mod c10;
pub mod c11;
pub mod c12;
pub mod c13;
pub mod c14;
pub mod c15;
pub mod c16;
pub mod c17;
pub mod c18;
pub mod c19;
pub mod c20;
pub mod sanitize;
pub mod selftest;
pub mod wire;

pub fn dispatch(ctx: &Ctx) -> Option<(Spec, Report)> {
    Some(match ctx.id.as_str() {
        "C01" => wire::run(ctx, 1),
        "C02" => wire::run(ctx, 2),
        "C03" => c03::run(ctx),
        "C04" => c04::run(ctx),
        "C05" => c05::run(ctx),
        "C06" => c06::run(ctx),
        "C07" => c07::run(ctx),
        "C08" => c08::run(ctx),
        "C09" => c09::run(ctx),
        "C10" => c10::run(ctx),
        "C11" => c11::run(ctx),
        "C12" => c12::run(ctx),
        "C13" => c13::run(ctx),
        "C14" => c14::run(ctx),
        "C15" => c15::run(ctx),
        "C16" => c16::run(ctx),
        "C17" => c17::run(ctx),
        "C18" => c18::run(ctx),
        "C19" => c19::run(ctx),
        "C20" => c20::run(ctx),
        "SELFTEST" => selftest::run(ctx),
        _ => return None,
    })
}
