//! C11 — definitions are emitted exactly once each and after the definitions they use.
//! Oracle: the model's reference graph (Tarjan SCC for acyclicity) against the order of definitions
//! recovered from the generated text of the backends that share the ordering (TS, Kotlin, Swift, Go, Python).
use crate::checks::broad::{run_rounds, usable, Case, Gen};
use crate::gen::{cap, stems_in, Stems};
use crate::ir::DefKind;
use crate::report::{Ctx, Report, Spec};
use crate::rng::Rng;
use crate::sut::{run_lib, LangCfg, LangId, SrcFile};
use serde_json::json;
use std::collections::BTreeMap;

#[derive(Clone, Debug)]
struct Edge {
    from: usize,
    to: usize,
    /// field | newtype-variant | struct-variant-field | alias-target | const-type
    position: &'static str,
    /// direct | vec | option | map-value | map-key | array | slice | generic-arg | nested-generic-arg | nested-container
    via: &'static str,
    /// the field carries a type override for this one language (`#[typeshare(swift(type = ".."))]`): that language prints
    /// the override instead of the reference, every other language still refers to the target
    ovr: Option<LangId>,
}

#[derive(Clone, Debug)]
struct Node {
    stem: String,
    name: String,
    /// 0 struct, 1 tagged enum, 2 alias, 3 unit enum (leaf), 4 generic struct Wrap<T> (leaf), 5 const, 6 generic struct Pair<A, B> (leaf)
    kind: u8,
    renamed: Option<String>,
    /// a struct source with a type parameter `P` of its own
    generic: bool,
}

#[derive(Clone, Debug)]
struct Model {
    nodes: Vec<Node>,
    edges: Vec<Edge>,
    order: Vec<usize>,
    acyclic: bool,
}

fn wrap(via: &str, target: &str, generic: Option<&str>, pair: Option<&str>, rng: &mut Rng) -> String {
    match via {
        // the item's own type parameter P and a real item in one type expression
        "own-param-pair" => format!("{}<P, {target}>", pair.unwrap_or("Pair")),
        "own-param-in-map" => format!("HashMap<String, {}<Vec<{target}>, P>>", pair.unwrap_or("Pair")),
        "direct" => target.to_string(),
        "vec" => format!("Vec<{target}>"),
        "option" => format!("Option<{target}>"),
        "map-value" => format!("HashMap<String, {target}>"),
        "map-key" => format!("HashMap<{target}, u32>"),
        "array" => format!("[{target}; 2]"),
        "slice" => format!("&'static [{target}]"),
        "generic-arg" => format!("{}<{target}>", generic.unwrap_or("Vec")),
        "nested-generic-arg" => format!("{}<Vec<{target}>>", generic.unwrap_or("Vec")),
        "same-kind-nested" => match rng.below(5) {
            0 => format!("Vec<Vec<{target}>>"),
            1 => format!("Option<Option<{target}>>"),
            2 => format!("HashMap<String, HashMap<String, {target}>>"),
            3 => format!("[[{target}; 2]; 2]"),
            _ => format!("Vec<Option<Vec<{target}>>>"),
        },
        "deep-mixed" => format!("HashMap<String, Vec<Option<Box<[{target}; 2]>>>>"),
        _ => match rng.below(3) {
            0 => format!("Vec<Option<{target}>>"),
            1 => format!("Option<Vec<{target}>>"),
            _ => format!("HashMap<String, Vec<{target}>>"),
        },
    }
}

const VIAS: [&str; 12] = ["direct", "vec", "option", "map-value", "map-key", "array", "slice", "generic-arg", "nested-generic-arg", "nested-container", "same-kind-nested", "deep-mixed"];

fn gen_model(rng: &mut Rng, n: usize, edge_bits: Option<u64>, consts: bool) -> Model {
    let mut stems = Stems::default();
    let mut nodes: Vec<Node> = vec![];
    for _ in 0..n {
        let st = stems.fresh(rng);
        let kind = *rng.pick(&[0u8, 0, 0, 1, 1, 2, 2, 3]);
        // an eighth of the names do not begin with an upper-case letter (C-style `point_t`, `iOSDevice`): they sort after
        // every CamelCase name
        let name = match rng.below(8) {
            0 | 1 => cap(&st),
            2 | 3 | 4 => format!("A{}", cap(&st)),
            5 | 6 => format!("Z{}", cap(&st)),
            _ => {
                if rng.coin() {
                    format!("{st}_t")
                } else {
                    format!("i{}", cap(&st))
                }
            }
        };
        let renamed = if kind != 2 && rng.chance(1, 5) { Some(format!("{}Rn", cap(&st))) } else { None };
        let generic = kind == 0 && rng.chance(1, 3);
        nodes.push(Node { stem: st, name, kind, renamed, generic });
    }
    // a generic wrapper usable as `Wrap<T>` (it is an ordinary node of the graph: a leaf)
    let wst = stems.fresh(rng);
    let wrap_idx = nodes.len();
    nodes.push(Node { stem: wst.clone(), name: format!("W{}", cap(&wst)), kind: 4, renamed: None, generic: false });
    // and a two-parameter one, `Pair<A, B>`
    let pst = stems.fresh(rng);
    let pair_idx = nodes.len();
    nodes.push(Node { stem: pst.clone(), name: format!("P{}", cap(&pst)), kind: 6, renamed: None, generic: false });
    let mut edges = vec![];
    let sources: Vec<usize> = (0..n).filter(|&i| nodes[i].kind <= 2).collect();
    let mut pairs: Vec<(usize, usize)> = vec![];
    for &a in &sources {
        for b in 0..n {
            pairs.push((a, b));
        }
    }
    for (k, (a, b)) in pairs.iter().enumerate() {
        let on = match edge_bits {
            Some(bits) => k < 64 && bits & (1 << k) != 0,
            None => rng.chance(1, (n as u32).max(3)),
        };
        if !on {
            continue;
        }
        let position = match nodes[*a].kind {
            0 => "field",
            1 => *rng.pick(&["newtype-variant", "newtype-variant", "struct-variant-field"]),
            _ => "alias-target",
        };
        let via = if nodes[*a].generic && rng.coin() { *rng.pick(&["own-param-pair", "own-param-in-map"]) } else { *rng.pick(&VIAS) };
        let ovr = if matches!(position, "field" | "struct-variant-field") && rng.chance(1, 6) { Some(*rng.pick(&[LangId::Swift, LangId::Kotlin, LangId::Ts, LangId::Go])) } else { None };
        edges.push(Edge { from: *a, to: *b, position, via, ovr });
        if via.contains("generic-arg") {
            edges.push(Edge { from: *a, to: wrap_idx, position, via: "direct", ovr });
        }
        if via.starts_with("own-param") {
            edges.push(Edge { from: *a, to: pair_idx, position, via: "direct", ovr });
        }
    }
    if consts && rng.chance(1, 3) && n > 0 {
        let cst = stems.fresh(rng);
        let ci = nodes.len();
        nodes.push(Node { stem: cst.clone(), name: format!("{}_C", cst.to_uppercase()), kind: 5, renamed: None, generic: false });
        let to = rng.below(n);
        edges.push(Edge { from: ci, to, position: "const-type", via: "direct", ovr: None });
    }
    // acyclicity by Tarjan-free check: repeated removal of nodes without outgoing edges (self loops count as cycles)
    let total = nodes.len();
    let mut out_deg: Vec<BTreeMap<usize, usize>> = vec![BTreeMap::new(); total];
    for e in &edges {
        *out_deg[e.from].entry(e.to).or_insert(0) += 1;
    }
    let mut removed = vec![false; total];
    loop {
        let mut progress = false;
        for i in 0..total {
            if !removed[i] && out_deg[i].keys().all(|t| removed[*t]) {
                removed[i] = true;
                progress = true;
            }
        }
        if !progress {
            break;
        }
    }
    let acyclic = removed.iter().all(|r| *r);
    let mut order: Vec<usize> = (0..total).collect();
    rng.shuffle(&mut order);
    Model { nodes, edges, order, acyclic }
}

fn ovr_attr(e: &Edge) -> String {
    match e.ovr {
        Some(l) => format!("#[typeshare({}(type = \"OvrT\"))] ", match l { LangId::Swift => "swift", LangId::Kotlin => "kotlin", LangId::Ts => "typescript", LangId::Go => "go", LangId::Scala => "scala", LangId::Python => "python" }),
        None => String::new(),
    }
}

fn render(m: &Model, rng: &mut Rng) -> String {
    let mut s = String::new();
    let wrap_name = m.nodes.iter().find(|n| n.kind == 4).map(|n| n.name.clone());
    let pair_name = m.nodes.iter().find(|n| n.kind == 6).map(|n| n.name.clone());
    for &i in &m.order {
        let n = &m.nodes[i];
        let ren = n.renamed.as_ref().map(|r| format!("#[serde(rename = \"{r}\")]\n")).unwrap_or_default();
        let my: Vec<&Edge> = m
            .edges
            .iter()
            .filter(|e| e.from == i && !(e.via == "direct" && m.nodes[e.to].kind == 4 && e.position != "const-type" && m.edges.iter().any(|x| x.from == i && x.via.contains("generic-arg"))))
            .filter(|e| !(e.via == "direct" && m.nodes[e.to].kind == 6 && m.edges.iter().any(|x| x.from == i && x.via.starts_with("own-param"))))
            .collect();
        let ty_of = |e: &Edge, rng: &mut Rng| wrap(e.via, &m.nodes[e.to].name, wrap_name.as_deref(), pair_name.as_deref(), rng);
        match n.kind {
            0 => {
                s.push_str(&format!("#[typeshare]\n{ren}pub struct {}{} {{\n    pub own_{}: u32,\n", n.name, if n.generic { "<P>" } else { "" }, n.stem));
                if n.generic {
                    s.push_str(&format!("    pub param_{}: Option<P>,\n", n.stem));
                }
                for (k, e) in my.iter().enumerate() {
                    s.push_str(&format!("    {}pub r{k}_{}: {},\n", ovr_attr(e), n.stem, ty_of(e, rng)));
                }
                s.push_str("}\n\n");
            }
            1 => {
                s.push_str(&format!("#[typeshare]\n{ren}#[serde(tag = \"t\", content = \"c\")]\npub enum {} {{\n    Unit{},\n    Own{}(u32),\n", n.name, cap(&n.stem), cap(&n.stem)));
                for (k, e) in my.iter().enumerate() {
                    if e.position == "newtype-variant" {
                        s.push_str(&format!("    V{k}{}({}),\n", cap(&n.stem), ty_of(e, rng)));
                    } else {
                        s.push_str(&format!("    S{k}{} {{ {}inner_{}: {} }},\n", cap(&n.stem), ovr_attr(e), n.stem, ty_of(e, rng)));
                    }
                }
                s.push_str("}\n\n");
            }
            2 => {
                let t = match my.first() {
                    Some(e) => ty_of(e, rng),
                    None => "Vec<u8>".to_string(),
                };
                // an alias has one target: further edges of this node are dropped from the model by the caller
                s.push_str(&format!("#[typeshare]\npub type {} = {};\n\n", n.name, t));
            }
            3 => s.push_str(&format!("#[typeshare]\n{ren}pub enum {} {{ A{}, B{} }}\n\n", n.name, cap(&n.stem), cap(&n.stem))),
            4 => s.push_str(&format!("#[typeshare]\npub struct {}<T> {{ pub w_{}: T }}\n\n", n.name, n.stem)),
            6 => s.push_str(&format!("#[typeshare]\npub struct {}<A, B> {{ pub a_{}: A, pub b_{}: B }}\n\n", n.name, n.stem, n.stem)),
            _ => {
                let t = my.first().map(|e| m.nodes[e.to].name.clone()).unwrap_or("u32".into());
                s.push_str(&format!("#[typeshare]\npub const {}: {} = 7;\n\n", n.name, t));
            }
        }
    }
    s
}

fn judge(case: &Case<Model>, rep: &mut Report) {
    let lname = case.lang.name();
    let Some(file) = usable(case, "C11", rep, true) else { return };
    let m = case.model;
    // position of each principal definition, by stem
    let mut pos: BTreeMap<String, Vec<usize>> = BTreeMap::new();
    for d in file.defs.iter().filter(|d| d.kind != DefKind::Helper) {
        let s = stems_in(&d.name);
        if s.len() == 1 {
            pos.entry(s[0].clone()).or_default().push(d.start);
        }
    }
    rep.eval(1);
    rep.count(&format!("outputs_checked_{lname}"), 1);
    rep.cell(format!("{lname}|n={}|acyclic={}", m.nodes.len().min(13), m.acyclic));
    // permutation: every item exactly once
    let mut permutation_ok = true;
    for n in &m.nodes {
        let c = pos.get(&n.stem).map(|v| v.len()).unwrap_or(0);
        if c != 1 {
            permutation_ok = false;
            rep.violate(
                format!("C11|permutation|{}|{}", if c == 0 { "definition-lost" } else { "definition-duplicated" }, if m.acyclic { "acyclic" } else { "cyclic" }),
                format!("{lname}: item {} is defined {c} times in the output ({} items, {})", n.name, m.nodes.len(), if m.acyclic { "acyclic graph" } else { "graph with cycles" }),
                case.detail(json!({"item": n.name, "count": c})),
            );
        }
    }
    if !m.acyclic || !permutation_ok {
        return;
    }
    for e in &m.edges {
        if e.from == e.to {
            continue;
        }
        // the language named in the field's type override prints the override: it does not refer to the target at all
        if e.ovr == Some(case.lang) {
            rep.count("edges_overridden_for_this_language", 1);
            continue;
        }
        if e.ovr.is_some() {
            rep.count("edges_overridden_for_another_language", 1);
        }
        let (a, b) = (&m.nodes[e.from], &m.nodes[e.to]);
        let (pa, pb) = (pos[&a.stem][0], pos[&b.stem][0]);
        rep.count("edges_checked", 1);
        rep.cell(format!("edge|{}|{}|renamed={}", e.position, e.via, b.renamed.is_some()));
        if pb > pa {
            rep.violate(
                if b.renamed.is_some() {
                    // one cause (the sorter looks the rewritten reference up under the old name), independent of the wrapper
                    format!("C11|order|renamed-target|position={}", e.position)
                } else {
                    format!("C11|order|position={}|via={}|source={}", e.position, e.via, ["struct", "tagged-enum", "alias", "unit-enum", "generic-struct", "const"][a.kind as usize])
                },
                format!("{lname}: {} is emitted before {} although it refers to it ({} via {})", a.name, b.name, e.position, e.via),
                case.detail(json!({"from": a.name, "to": b.name, "position": e.position, "via": e.via, "order": file.defs.iter().filter(|d| d.kind != DefKind::Helper).map(|d| d.name.clone()).collect::<Vec<_>>() })),
            );
        }
    }
    // Python evaluates aliases and unions eagerly: import is the end-to-end confirmation
    if let Some(py) = case.single_facts().and_then(|f| f.py.as_ref()) {
        if let Some((ok, ty, msg)) = &py.exec {
            rep.count("python_modules_imported", 1);
            if !ok && ty == "NameError" {
                rep.count("python_import_name_errors", 1);
                let _ = msg;
            }
        }
    }
    if case.index < 3 && case.lang == LangId::Ts {
        rep.sample(json!({"language": lname, "source": case.source(), "edges": m.edges.iter().map(|e| format!("{} -> {} ({}, {})", m.nodes[e.from].name, m.nodes[e.to].name, e.position, e.via)).collect::<Vec<_>>(), "emitted_order": file.defs.iter().filter(|d| d.kind != DefKind::Helper).map(|d| d.name.clone()).collect::<Vec<_>>() }));
    }
}

/// Items whose names differ only in the case of their letters (`UserId` and `UserID`, `ApiKey` and `APIKey`, `point` and
/// `Point`) are different items: each is emitted once, and a definition that uses one of them comes after that one.
/// Judged on exact names (the stems of the generated workload cannot tell such a pair apart).
fn case_twins(ctx: &Ctx, rep: &mut Report) {
    let pairs = [("UserId", "UserID"), ("ApiKey", "APIKey"), ("Point", "point"), ("Xml", "XML")];
    let langs = [LangId::Ts, LangId::Kotlin, LangId::Swift, LangId::Go, LangId::Python];
    struct Twin {
        lang: LangId,
        names: [String; 3],
        source: String,
        text: Option<String>,
        outcome: String,
    }
    let mut runs: Vec<Twin> = vec![];
    for (a, b) in pairs {
        for kind in 0..2 {
            // the user refers to both twins; `first` is the twin its first field names
            for first in 0..2 {
                let (x, y) = if first == 0 { (a, b) } else { (b, a) };
                let user = format!("#[typeshare]\npub struct Holder {{\n    pub one: {x},\n    pub more: Vec<{y}>,\n}}\n");
                let def = |n: &str, k: usize| if kind == 0 { format!("#[typeshare]\npub struct {n} {{\n    pub v{k}: u32,\n}}\n") } else { format!("#[typeshare]\npub type {n} = Vec<u{}>;\n", 8 << k) };
                let items = [user, def(a, 0), def(b, 1)];
                for perm in [[0usize, 1, 2], [0, 2, 1], [1, 0, 2], [1, 2, 0], [2, 0, 1], [2, 1, 0]] {
                    let source: String = perm.iter().map(|&i| format!("{}\n", items[i])).collect::<String>().replace("pub struct point", "#[allow(non_camel_case_types)]\npub struct point");
                    for lang in langs {
                        let o = run_lib(&[SrcFile { path: "src/lib.rs".into(), source: source.clone() }], lang, &LangCfg::basic(lang), false, &[]);
                        rep.count("case_twin_runs", 1);
                        runs.push(Twin { lang, names: ["Holder".to_string(), a.to_string(), b.to_string()], source: source.clone(), text: o.single().map(|t| t.to_string()), outcome: o.describe() });
                    }
                }
            }
        }
    }
    let items: Vec<(LangId, &str)> = runs.iter().map(|r| (r.lang, r.text.as_deref().unwrap_or(""))).collect();
    let facts = crate::facts::parse_many(ctx, "c11-twins", &items, false);
    for (r, f) in runs.iter().zip(facts.iter()) {
        let lname = r.lang.name();
        let detail = |extra: serde_json::Value| json!({"language": lname, "source": r.source, "output": r.text, "extra": extra});
        if r.text.is_none() {
            rep.inconclusive("case-twins-not-generated", json!({"language": lname, "outcome": r.outcome, "source": r.source}));
            continue;
        }
        let Some(file) = f.file() else {
            rep.inconclusive(&format!("output-not-parsed-{lname}"), json!({"status": format!("{:?}", f.status).chars().take(300).collect::<String>(), "source": r.source}));
            continue;
        };
        rep.eval(1);
        rep.cell(format!("case-twins|{lname}|{}", r.names[1]));
        let at = |n: &str| -> Vec<usize> { file.defs.iter().filter(|d| d.kind != DefKind::Helper && d.name == n).map(|d| d.start).collect() };
        let pos: Vec<Vec<usize>> = r.names.iter().map(|n| at(n)).collect();
        let mut ok = true;
        for (n, p) in r.names.iter().zip(pos.iter()) {
            if p.len() != 1 {
                ok = false;
                rep.violate(
                    format!("C11|permutation|{}|names-differing-in-case", if p.is_empty() { "definition-lost" } else { "definition-duplicated" }),
                    format!("{lname}: item {n} is defined {} times in the output", p.len()),
                    detail(json!({"item": n, "definitions": file.defs.iter().map(|d| d.name.clone()).collect::<Vec<_>>()})),
                );
            }
        }
        if !ok {
            continue;
        }
        for k in 1..3 {
            rep.count("edges_checked", 1);
            if pos[k][0] > pos[0][0] {
                rep.violate(
                    "C11|order|names-differing-in-case".to_string(),
                    format!("{lname}: Holder is emitted before {} although it refers to it (another item is called {})", r.names[k], r.names[3 - k]),
                    detail(json!({"order": file.defs.iter().filter(|d| d.kind != DefKind::Helper).map(|d| d.name.clone()).collect::<Vec<_>>()})),
                );
            }
        }
    }
}

/// A field whose type is overridden for ONE language by the name of another item of the file (`#[typeshare(kotlin(type =
/// "Wallet"))] note: String`), where that item refers back to the struct: for every other language the reference graph is
/// `Account -> Profile`, `Wallet -> Account` - acyclic - and the order has to respect it. Judged on exact names.
fn override_naming_an_item(ctx: &Ctx, rep: &mut Report) {
    let langs = [LangId::Ts, LangId::Kotlin, LangId::Swift, LangId::Go, LangId::Python];
    struct Run {
        lang: LangId,
        ovr: LangId,
        source: String,
        text: Option<String>,
        outcome: String,
    }
    let mut runs: Vec<Run> = vec![];
    for ovr in [LangId::Kotlin, LangId::Swift, LangId::Ts, LangId::Go] {
        for position in 0..2 {
            let attr = format!("#[typeshare({}(type = \"Wallet\"))]", ovr.name());
            let account = if position == 0 {
                format!("#[typeshare]\npub struct Account {{\n    {attr}\n    pub note: String,\n    pub profile: Profile,\n}}\n")
            } else {
                format!("#[typeshare]\n#[serde(tag = \"t\", content = \"c\")]\npub enum Account {{\n    Open {{\n        {attr}\n        note: String,\n        profile: Profile,\n    }},\n    Closed,\n}}\n")
            };
            let items = [account, "#[typeshare]\npub struct Profile {\n    pub v: u32,\n}\n".to_string(), "#[typeshare]\npub struct Wallet {\n    pub owner: Account,\n}\n".to_string()];
            for perm in [[0usize, 1, 2], [0, 2, 1], [1, 0, 2], [1, 2, 0], [2, 0, 1], [2, 1, 0]] {
                let source: String = perm.iter().map(|&i| format!("{}\n", items[i])).collect();
                for lang in langs {
                    let o = run_lib(&[SrcFile { path: "src/lib.rs".into(), source: source.clone() }], lang, &LangCfg::basic(lang), false, &[]);
                    rep.count("override_naming_an_item_runs", 1);
                    runs.push(Run { lang, ovr, source: source.clone(), text: o.single().map(|t| t.to_string()), outcome: o.describe() });
                }
            }
        }
    }
    let items: Vec<(LangId, &str)> = runs.iter().map(|r| (r.lang, r.text.as_deref().unwrap_or(""))).collect();
    let facts = crate::facts::parse_many(ctx, "c11-ovr", &items, false);
    for (r, f) in runs.iter().zip(facts.iter()) {
        let lname = r.lang.name();
        let detail = |extra: serde_json::Value| json!({"language": lname, "override_for": r.ovr.name(), "source": r.source, "output": r.text, "extra": extra});
        if r.text.is_none() {
            rep.inconclusive("override-program-not-generated", json!({"language": lname, "outcome": r.outcome, "source": r.source}));
            continue;
        }
        let Some(file) = f.file() else {
            rep.inconclusive(&format!("output-not-parsed-{lname}"), json!({"status": format!("{:?}", f.status).chars().take(300).collect::<String>(), "source": r.source}));
            continue;
        };
        rep.eval(1);
        rep.cell(format!("override-naming-an-item|{lname}|for={}", r.ovr.name()));
        let at = |n: &str| -> Vec<usize> { file.defs.iter().filter(|d| d.kind != DefKind::Helper && d.name == n).map(|d| d.start).collect() };
        let names = ["Account", "Profile", "Wallet"];
        let pos: Vec<Vec<usize>> = names.iter().map(|n| at(n)).collect();
        let mut ok = true;
        for (n, p) in names.iter().zip(pos.iter()) {
            if p.len() != 1 {
                ok = false;
                rep.violate(
                    format!("C11|permutation|{}|override-naming-an-item", if p.is_empty() { "definition-lost" } else { "definition-duplicated" }),
                    format!("{lname}: item {n} is defined {} times in the output", p.len()),
                    detail(json!({"item": n})),
                );
            }
        }
        // the language the override is written for prints `Wallet` for the field: Account -> Wallet -> Account is a cycle there
        if !ok || r.lang == r.ovr {
            continue;
        }
        for (from, to) in [(0usize, 1usize), (2, 0)] {
            rep.count("edges_checked", 1);
            if pos[to][0] > pos[from][0] {
                rep.violate(
                    "C11|order|override-for-another-language-names-an-item".to_string(),
                    format!("{lname}: {} is emitted before {} although it refers to it (a field of Account carries a {} type override naming Wallet)", names[from], names[to], r.ovr.name()),
                    detail(json!({"order": file.defs.iter().filter(|d| d.kind != DefKind::Helper).map(|d| d.name.clone()).collect::<Vec<_>>()})),
                );
            }
        }
    }
}

pub fn run(ctx: &Ctx) -> (Spec, Report) {
    // exhaustive part: all edge sets on 3 source-capable items (2^9 graphs), thorough: 4 items sampled by bitmask stride
    let n_exh = 512usize;
    let n = n_exh + ctx.tier.pick(6000, 80_000);
    let rep = run_rounds(
        ctx,
        "C11",
        n,
        true,
        |rng: &mut Rng, i| {
            let mut m = if i < n_exh {
                let mut m = gen_model(rng, 3, Some(i as u64), false);
                // make all three nodes source-capable structs / enums so that the bitmask enumerates real graphs
                for k in 0..3 {
                    if m.nodes[k].kind > 1 {
                        m.nodes[k].kind = (k % 2) as u8;
                    }
                }
                m
            } else {
                let n_items = rng.range(1, 12);
                gen_model(rng, n_items, None, true)
            };
            if i < n_exh {
                // regenerate edges for the adjusted kinds
                let kinds: Vec<u8> = m.nodes.iter().map(|n| n.kind).collect();
                let names: Vec<(String, String, Option<String>)> = m.nodes.iter().map(|n| (n.stem.clone(), n.name.clone(), n.renamed.clone())).collect();
                let mut edges = vec![];
                let mut k = 0;
                for a in 0..3 {
                    for b in 0..3 {
                        if (i as u64) & (1 << k) != 0 {
                            let position = if kinds[a] == 0 { "field" } else { *rng.pick(&["newtype-variant", "struct-variant-field"]) };
                            edges.push(Edge { from: a, to: b, position, via: *rng.pick(&["direct", "vec", "option", "map-value"]), ovr: None });
                        }
                        k += 1;
                    }
                }
                m.edges = edges;
                let _ = names;
                // recompute acyclicity
                let total = m.nodes.len();
                let mut removed = vec![false; total];
                loop {
                    let mut progress = false;
                    for x in 0..total {
                        if !removed[x] && m.edges.iter().filter(|e| e.from == x).all(|e| removed[e.to]) {
                            removed[x] = true;
                            progress = true;
                        }
                    }
                    if !progress {
                        break;
                    }
                }
                m.acyclic = removed.iter().all(|r| *r);
            }
            // an alias carries a single target: keep its first edge (plus the wrapper edge that edge implies)
            let kinds: Vec<u8> = m.nodes.iter().map(|n| n.kind).collect();
            let mut first_of: BTreeMap<usize, (usize, bool)> = BTreeMap::new();
            for (k, e) in m.edges.iter().enumerate() {
                if kinds[e.from] == 2 && !first_of.contains_key(&e.from) {
                    first_of.insert(e.from, (k, e.via.contains("generic-arg")));
                }
            }
            let mut k = 0usize;
            m.edges.retain(|e| {
                let idx = k;
                k += 1;
                if kinds[e.from] != 2 {
                    return true;
                }
                let (f, generic) = first_of[&e.from];
                idx == f || (generic && idx == f + 1 && kinds[e.to] == 4 && e.via == "direct")
            });
            // acyclicity may have changed
            {
                let total = m.nodes.len();
                let mut removed = vec![false; total];
                loop {
                    let mut progress = false;
                    for x in 0..total {
                        if !removed[x] && m.edges.iter().filter(|e| e.from == x).all(|e| removed[e.to]) {
                            removed[x] = true;
                            progress = true;
                        }
                    }
                    if !progress {
                        break;
                    }
                }
                m.acyclic = removed.iter().all(|r| *r);
            }
            let mut r2 = Rng::new(rng.next_u64());
            let src = render(&m, &mut r2);
            let has_const = m.nodes.iter().any(|n| n.kind == 5);
            let langs: Vec<(LangId, LangCfg)> = [LangId::Ts, LangId::Kotlin, LangId::Swift, LangId::Go, LangId::Python]
                .iter()
                .filter(|l| !(has_const && !l.supports_const()))
                .map(|l| (*l, LangCfg::shaped(*l, rng)))
                .collect();
            Gen { model: m, files: vec![SrcFile { path: "src/lib.rs".into(), source: src }], multi: false, langs }
        },
        judge,
    );
    let mut rep = rep;
    case_twins(ctx, &mut rep);
    override_naming_an_item(ctx, &mut rep);
    let spec = Spec {
        level: "exploration",
        rule: format!("a field overridden for one language by the name of an item that refers back (4 languages x struct / struct-variant field x 6 source orders, judged for the other languages); 4 pairs of items whose names differ only in letter case (structs and aliases, both used by a third item, all 6 source orders); all 512 edge sets over 3 items (exhaustive) plus {} random graphs on 1-12 items (DAGs, diamonds, chains, self-loops, cycles; an eighth of the item names begin with a lower-case letter), references placed in struct fields, newtype and struct variants, alias targets and const types, through direct / Vec / Option / HashMap key / value / array / slice / generic argument / nested wrappers, any source order, a fifth of the types serde-renamed; TS, Kotlin, Swift, Go, Python; oracle: every item defined exactly once; for acyclic graphs every definition after each same-file definition it refers to (Python additionally imported under stub pydantic); distinct = (language, item count, acyclic?) and (edge position, wrapper, target renamed?)", n - n_exh),
        assumptions: vec!["definition positions are those of the principal definitions recovered by the output parsers; Scala does not use the shared ordering and is not judged".into()],
        exhaustive: Some(false),
    };
    (spec, rep)
}
