//! Reader for `strace -f -qq -e trace=...` logs: the event history of what a run did to the file system.
use std::collections::BTreeMap;
use std::path::Path;

#[derive(Clone, Debug)]
pub struct Event {
    pub pid: u32,
    pub syscall: String,
    /// path arguments (absolute where the call gave absolute paths)
    pub paths: Vec<String>,
    pub flags: String,
    pub ret: i64,
    /// read | create | truncate | write | remove | rename | mkdir | meta
    pub class: &'static str,
    pub line: String,
}

fn quoted(s: &str) -> Vec<String> {
    // extract "..." arguments with C escapes
    let mut out = vec![];
    let b: Vec<char> = s.chars().collect();
    let mut i = 0;
    while i < b.len() {
        if b[i] == '"' {
            let mut v = String::new();
            i += 1;
            while i < b.len() && b[i] != '"' {
                if b[i] == '\\' && i + 1 < b.len() {
                    match b[i + 1] {
                        'n' => v.push('\n'),
                        't' => v.push('\t'),
                        c => v.push(c),
                    }
                    i += 2;
                } else {
                    v.push(b[i]);
                    i += 1;
                }
            }
            out.push(v);
        }
        i += 1;
    }
    out
}

pub fn parse_log(path: &Path) -> Vec<Event> {
    let text = std::fs::read_to_string(path).unwrap_or_default();
    let mut out = vec![];
    // fd tables per pid for write attribution
    let mut fds: BTreeMap<(u32, i64), String> = BTreeMap::new();
    for line in text.lines() {
        let (pid, rest) = match line.split_once(' ') {
            Some((p, r)) if p.chars().all(|c| c.is_ascii_digit()) => (p.parse().unwrap_or(0), r.trim_start()),
            _ => (0, line),
        };
        if rest.starts_with("<...") || rest.starts_with("---") || rest.starts_with("+++") {
            continue;
        }
        let Some(open) = rest.find('(') else { continue };
        let syscall = rest[..open].to_string();
        let ret: i64 = rest.rsplit_once(" = ").and_then(|(_, r)| r.split_whitespace().next()).and_then(|r| r.parse().ok()).unwrap_or(-1);
        let args = &rest[open + 1..rest.rfind(" = ").unwrap_or(rest.len())];
        let paths = quoted(args);
        let mut class: &'static str = "meta";
        let mut flags = String::new();
        match syscall.as_str() {
            "open" | "openat" | "creat" => {
                flags = args.split(',').map(|s| s.trim()).find(|s| s.starts_with("O_")).unwrap_or("").to_string();
                class = if syscall == "creat" || flags.contains("O_TRUNC") {
                    "truncate"
                } else if flags.contains("O_CREAT") {
                    "create"
                } else if flags.contains("O_WRONLY") || flags.contains("O_RDWR") || flags.contains("O_APPEND") {
                    "write"
                } else {
                    "read"
                };
                if ret >= 0 {
                    if let Some(p) = paths.first() {
                        fds.insert((pid, ret), p.clone());
                    }
                }
            }
            "write" | "pwrite64" | "writev" | "ftruncate" | "fchmod" => {
                let fd: i64 = args.split(',').next().and_then(|s| s.trim().parse().ok()).unwrap_or(-1);
                if fd <= 2 {
                    continue;
                }
                class = "write";
                let p = fds.get(&(pid, fd)).cloned().or_else(|| fds.iter().find(|((_, f), _)| *f == fd).map(|(_, p)| p.clone()));
                out.push(Event { pid, syscall, paths: p.into_iter().collect(), flags, ret, class, line: line.to_string() });
                continue;
            }
            "close" => {
                let fd: i64 = args.trim().parse().unwrap_or(-1);
                fds.remove(&(pid, fd));
                continue;
            }
            "dup" | "dup2" | "dup3" | "fcntl" => continue,
            "rename" | "renameat" | "renameat2" | "link" | "linkat" | "symlink" | "symlinkat" => class = "rename",
            "unlink" | "unlinkat" => class = "remove",
            "truncate" => class = "truncate",
            "mkdir" | "mkdirat" => class = "mkdir",
            "utimensat" | "chmod" | "fchmodat" => class = "meta-write",
            _ => {}
        }
        out.push(Event { pid, syscall, paths, flags, ret, class, line: line.to_string() });
    }
    out
}

/// successful events that modify something at or under `prefix`
pub fn modifications_under<'a>(events: &'a [Event], prefix: &str) -> Vec<&'a Event> {
    events
        .iter()
        .filter(|e| e.ret >= 0 || e.syscall == "write")
        .filter(|e| matches!(e.class, "create" | "truncate" | "write" | "remove" | "rename" | "mkdir" | "meta-write"))
        .filter(|e| e.paths.iter().any(|p| p == prefix || p.starts_with(&format!("{}/", prefix.trim_end_matches('/')))))
        .collect()
}
