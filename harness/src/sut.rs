//! Drivers for the system under test: in-process library pipeline and the real (hooked) binary.
use crate::report::{catch, short_loc};
use std::collections::{BTreeMap, HashMap};
use std::path::{Path, PathBuf};
use std::process::{Command, Stdio};
use std::time::{Duration, Instant};
use typeshare_core::{
    context::{ParseContext, ParseFileContext},
    language::{
        CrateName, CrateTypes, GenericConstraints, Go, Kotlin, Language, Python, Scala, Swift,
        TypeScript, SINGLE_FILE_CRATE_NAME,
    },
    parser::ParsedData,
    reconcile::reconcile_aliases,
    RenameExt,
};

#[derive(Clone, Copy, PartialEq, Eq, Hash, Debug, PartialOrd, Ord)]
pub enum LangId {
    Ts,
    Kotlin,
    Swift,
    Scala,
    Go,
    Python,
}

pub const ALL_LANGS: [LangId; 6] = [
    LangId::Ts,
    LangId::Kotlin,
    LangId::Swift,
    LangId::Scala,
    LangId::Go,
    LangId::Python,
];

impl LangId {
    pub fn name(self) -> &'static str {
        match self {
            LangId::Ts => "typescript",
            LangId::Kotlin => "kotlin",
            LangId::Swift => "swift",
            LangId::Scala => "scala",
            LangId::Go => "go",
            LangId::Python => "python",
        }
    }
    pub fn ext(self) -> &'static str {
        match self {
            LangId::Ts => "ts",
            LangId::Kotlin => "kt",
            LangId::Swift => "swift",
            LangId::Scala => "scala",
            LangId::Go => "go",
            LangId::Python => "py",
        }
    }
    pub fn supports_const(self) -> bool {
        matches!(self, LangId::Ts | LangId::Go | LangId::Python)
    }
}

#[derive(Clone, Debug, Default)]
pub struct LangCfg {
    pub prefix: String,
    pub package: String,
    pub module_name: String,
    pub type_mappings: HashMap<String, String>,
    pub default_decorators: Vec<String>,
    pub default_generic_constraints: Vec<String>,
    pub codablevoid_constraints: Vec<String>,
    pub uppercase_acronyms: Vec<String>,
    pub no_pointer_slice: bool,
}

impl LangCfg {
    /// configuration that every backend accepts (Scala and Go need a package)
    pub fn basic(lang: LangId) -> Self {
        let mut c = LangCfg::default();
        match lang {
            LangId::Scala => c.package = "com.verif.gen".into(),
            LangId::Go => c.package = "verifgen".into(),
            LangId::Kotlin => c.package = "com.verif.gen".into(),
            _ => {}
        }
        c
    }
    pub fn to_json(&self) -> serde_json::Value {
        serde_json::json!({
            "prefix": self.prefix, "package": self.package, "module_name": self.module_name,
            "type_mappings": self.type_mappings.iter().collect::<BTreeMap<_,_>>(),
            "default_decorators": self.default_decorators,
            "default_generic_constraints": self.default_generic_constraints,
            "codablevoid_constraints": self.codablevoid_constraints,
            "uppercase_acronyms": self.uppercase_acronyms,
            "no_pointer_slice": self.no_pointer_slice,
        })
    }
}

pub fn make_language(lang: LangId, cfg: &LangCfg, multi_file: bool) -> Box<dyn Language> {
    let c = cfg.clone();
    match lang {
        LangId::Swift => Box::new(Swift {
            prefix: c.prefix,
            type_mappings: c.type_mappings,
            default_decorators: c.default_decorators,
            default_generic_constraints: GenericConstraints::from_config(
                c.default_generic_constraints,
            ),
            multi_file,
            codablevoid_constraints: c.codablevoid_constraints,
            ..Default::default()
        }),
        LangId::Kotlin => Box::new(Kotlin {
            package: c.package,
            module_name: c.module_name,
            prefix: c.prefix,
            type_mappings: c.type_mappings,
            ..Default::default()
        }),
        LangId::Scala => Box::new(Scala {
            package: c.package,
            module_name: c.module_name,
            type_mappings: c.type_mappings,
            ..Default::default()
        }),
        LangId::Ts => Box::new(TypeScript {
            type_mappings: c.type_mappings,
            ..Default::default()
        }),
        LangId::Go => Box::new(Go {
            package: c.package,
            type_mappings: c.type_mappings,
            uppercase_acronyms: c.uppercase_acronyms,
            no_pointer_slice: c.no_pointer_slice,
            ..Default::default()
        }),
        LangId::Python => Box::new(Python {
            type_mappings: c.type_mappings,
            ..Default::default()
        }),
    }
}

#[derive(Clone, Debug)]
pub struct SrcFile {
    /// path relative to the tree root, e.g. "crate_a/src/sub/m.rs"
    pub path: String,
    pub source: String,
}

#[derive(Debug, Clone)]
pub enum LibOutcome {
    Panic { stage: &'static str, loc: String, msg: String },
    /// (file, message)
    ParseErrors(Vec<(String, String)>),
    GenError(String),
    /// output file name -> content; single-file mode uses the key ""
    Ok(BTreeMap<String, String>),
}

impl LibOutcome {
    pub fn single(&self) -> Option<&str> {
        match self {
            LibOutcome::Ok(m) => m.get("").map(|s| s.as_str()),
            _ => None,
        }
    }
    pub fn kind(&self) -> &'static str {
        match self {
            LibOutcome::Panic { .. } => "panic",
            LibOutcome::ParseErrors(_) => "parse-error",
            LibOutcome::GenError(_) => "gen-error",
            LibOutcome::Ok(_) => "ok",
        }
    }
    pub fn describe(&self) -> String {
        match self {
            LibOutcome::Panic { stage, loc, msg } => format!("panic in {stage} at {loc}: {msg}"),
            LibOutcome::ParseErrors(e) => format!("parse errors: {e:?}"),
            LibOutcome::GenError(e) => format!("generation error: {e}"),
            LibOutcome::Ok(m) => format!("ok, {} file(s)", m.len()),
        }
    }
}

pub fn output_file_name(lang: LangId, crate_name: &CrateName) -> String {
    let ext = lang.ext();
    match lang {
        LangId::Swift => format!("{}.{ext}", crate_name.to_string().to_pascal_case()),
        _ => format!("{crate_name}.{ext}"),
    }
}

/// Parsed and reconciled data, the state the CLI has just before writing.
pub struct Parsed {
    pub crates: BTreeMap<CrateName, ParsedData>,
    pub all_types: CrateTypes,
}

/// Mirror of cli/src/main.rs::generate_types up to (and including) check_parse_errors.
pub fn parse_stage(
    files: &[SrcFile],
    lang: LangId,
    cfg: &LangCfg,
    multi_file: bool,
    target_os: &[String],
) -> Result<Parsed, LibOutcome> {
    let language = make_language(lang, cfg, multi_file);
    let parse_context = ParseContext {
        ignored_types: language.ignored_reference_types(),
        multi_file,
        target_os: target_os.to_vec(),
    };
    let mut crates: BTreeMap<CrateName, ParsedData> = BTreeMap::new();
    for f in files {
        let crate_name = if multi_file {
            match CrateName::find_crate_name(Path::new(&f.path)) {
                Some(c) => c,
                None => continue,
            }
        } else {
            SINGLE_FILE_CRATE_NAME
        };
        let pfc = ParseFileContext {
            source_code: f.source.clone(),
            crate_name: crate_name.clone(),
            file_name: output_file_name(lang, &crate_name),
            file_path: PathBuf::from(&f.path),
        };
        let r = catch(|| typeshare_core::parser::parse(&parse_context, pfc));
        match r {
            Err((loc, msg)) => {
                return Err(LibOutcome::Panic { stage: "parse", loc: short_loc(&loc), msg })
            }
            Ok(Err(e)) => return Err(LibOutcome::ParseErrors(vec![(f.path.clone(), e.to_string())])),
            Ok(Ok(None)) => {}
            Ok(Ok(Some(pd))) => {
                let cn = pd.crate_name.clone();
                *crates.entry(cn).or_default() += pd;
            }
        }
    }
    if let Err((loc, msg)) = catch(|| reconcile_aliases(&mut crates)) {
        return Err(LibOutcome::Panic { stage: "reconcile", loc: short_loc(&loc), msg });
    }
    let all_types: CrateTypes = if multi_file {
        let mut m: CrateTypes = HashMap::new();
        for (cn, pd) in crates.iter_mut() {
            m.entry(cn.clone())
                .or_default()
                .extend(std::mem::take(&mut pd.type_names));
        }
        m
    } else {
        HashMap::new()
    };
    let mut errs = vec![];
    for pd in crates.values() {
        for e in &pd.errors {
            errs.push((e.file_name.clone(), e.error.to_string()));
        }
    }
    if !errs.is_empty() {
        return Err(LibOutcome::ParseErrors(errs));
    }
    Ok(Parsed { crates, all_types })
}

/// Mirror of cli/src/writer.rs (without touching the file system).
pub fn run_lib(
    files: &[SrcFile],
    lang: LangId,
    cfg: &LangCfg,
    multi_file: bool,
    target_os: &[String],
) -> LibOutcome {
    let parsed = match parse_stage(files, lang, cfg, multi_file, target_os) {
        Ok(p) => p,
        Err(o) => return o,
    };
    generate_stage(parsed, lang, cfg, multi_file)
}

pub fn generate_stage(parsed: Parsed, lang: LangId, cfg: &LangCfg, multi_file: bool) -> LibOutcome {
    let Parsed { mut crates, all_types } = parsed;
    let mut language = make_language(lang, cfg, multi_file);
    let mut out = BTreeMap::new();
    if !multi_file {
        let Some(pd) = crates.remove(&SINGLE_FILE_CRATE_NAME) else {
            return LibOutcome::GenError("Could not get parsed data for single file output".into());
        };
        let mut buf = Vec::new();
        let r = catch(|| language.generate_types(&mut buf, &HashMap::new(), pd));
        match r {
            Err((loc, msg)) => {
                return LibOutcome::Panic { stage: "generate", loc: short_loc(&loc), msg }
            }
            Ok(Err(e)) => return LibOutcome::GenError(e.to_string()),
            Ok(Ok(())) => {}
        }
        out.insert(String::new(), String::from_utf8_lossy(&buf).into_owned());
    } else {
        for (_cn, pd) in crates {
            let name = pd.file_name.clone();
            let mut buf = Vec::new();
            let r = catch(|| language.generate_types(&mut buf, &all_types, pd));
            match r {
                Err((loc, msg)) => {
                    return LibOutcome::Panic { stage: "generate", loc: short_loc(&loc), msg }
                }
                Ok(Err(e)) => return LibOutcome::GenError(e.to_string()),
                Ok(Ok(())) => {}
            }
            // the CLI skips writing empty output
            if !buf.is_empty() {
                out.insert(name, String::from_utf8_lossy(&buf).into_owned());
            }
        }
    }
    LibOutcome::Ok(out)
}

pub fn single_file(source: &str) -> Vec<SrcFile> {
    vec![SrcFile { path: "src/lib.rs".into(), source: source.to_string() }]
}

// ---------------------------------------------------------------------------------------------
// binary driver

pub fn write_tree(root: &Path, files: &[SrcFile]) {
    for f in files {
        let p = root.join(&f.path);
        if let Some(d) = p.parent() {
            std::fs::create_dir_all(d).expect("mkdir");
        }
        std::fs::write(&p, f.source.as_bytes()).expect("write source");
    }
}

#[derive(Debug, Clone)]
pub enum Exit {
    Code(i32),
    Signal(i32),
    /// watchdog fired; diagnosis from /proc
    Timeout(String),
}

#[derive(Debug, Clone)]
pub struct BinOutcome {
    pub exit: Exit,
    pub stdout: String,
    pub stderr: String,
    pub cpu_ms: u64,
    pub wall_ms: u64,
}

impl BinOutcome {
    pub fn ok(&self) -> bool {
        matches!(self.exit, Exit::Code(0))
    }
    pub fn panicked(&self) -> bool {
        self.stderr.contains("panicked at")
    }
}

pub struct BinRun<'a> {
    pub cli: &'a Path,
    pub args: Vec<String>,
    pub env: Vec<(String, String)>,
    pub cwd: &'a Path,
    /// write an strace log here
    pub strace: Option<PathBuf>,
    pub wall_limit: Duration,
}

fn proc_cpu_ticks(pid: u32) -> Option<u64> {
    let s = std::fs::read_to_string(format!("/proc/{pid}/stat")).ok()?;
    let rest = &s[s.rfind(')')? + 2..];
    let f: Vec<&str> = rest.split_whitespace().collect();
    // after comm: state(0) ppid(1) ... utime is field 14 overall => index 11 here, stime 12
    Some(f.get(11)?.parse::<u64>().ok()? + f.get(12)?.parse::<u64>().ok()?)
}

fn thread_states(pid: u32) -> Vec<(String, String, u64)> {
    let mut out = vec![];
    if let Ok(rd) = std::fs::read_dir(format!("/proc/{pid}/task")) {
        for e in rd.flatten() {
            let tid = e.file_name().to_string_lossy().to_string();
            let stat = std::fs::read_to_string(e.path().join("stat")).unwrap_or_default();
            let (state, cpu) = if let Some(i) = stat.rfind(')') {
                let f: Vec<&str> = stat[i + 2..].split_whitespace().collect();
                (
                    f.first().unwrap_or(&"?").to_string(),
                    f.get(11).and_then(|x| x.parse::<u64>().ok()).unwrap_or(0)
                        + f.get(12).and_then(|x| x.parse::<u64>().ok()).unwrap_or(0),
                )
            } else {
                ("?".into(), 0)
            };
            let sc = std::fs::read_to_string(e.path().join("syscall")).unwrap_or_default();
            let scn = sc.split_whitespace().next().unwrap_or("?").to_string();
            out.push((tid, format!("{state}/{scn}"), cpu));
        }
    }
    out
}

/// Find the typeshare process itself when running under strace (child of the strace process).
fn target_pid(pid: u32, under_strace: bool) -> u32 {
    if !under_strace {
        return pid;
    }
    if let Ok(s) = std::fs::read_to_string(format!("/proc/{pid}/task/{pid}/children")) {
        if let Some(c) = s.split_whitespace().next().and_then(|x| x.parse().ok()) {
            return c;
        }
    }
    pid
}

pub fn run_bin(r: BinRun) -> BinOutcome {
    let start = Instant::now();
    let mut cmd;
    if let Some(log) = &r.strace {
        cmd = Command::new("strace");
        cmd.args([
            "-f",
            "-qq",
            "-e",
            "trace=open,openat,creat,rename,renameat,renameat2,unlink,unlinkat,truncate,ftruncate,utimensat,mkdir,mkdirat,write,pwrite64,writev,close,dup,dup2,dup3,fcntl,link,linkat,symlink,symlinkat,chmod,fchmod,fchmodat",
            "-o",
        ]);
        cmd.arg(log);
        cmd.arg(r.cli);
    } else {
        cmd = Command::new(r.cli);
    }
    cmd.args(&r.args)
        .current_dir(r.cwd)
        .stdin(Stdio::null())
        .stdout(Stdio::piped())
        .stderr(Stdio::piped())
        .env_remove("RUST_LOG")
        .env_remove("TYPESHARE_VERIF_ORDER")
        .env_remove("TYPESHARE_VERIF_THREADS")
        .env_remove("TYPESHARE_VERIF_DELAYS")
        .env_remove("TYPESHARE_VERIF_LOG")
        .env("RUST_BACKTRACE", "0");
    for (k, v) in &r.env {
        cmd.env(k, v);
    }
    let mut child = cmd.spawn().expect("spawn typeshare");
    let pid = child.id();
    // drain pipes in threads to avoid blocking on full pipes
    let mut so = child.stdout.take().unwrap();
    let mut se = child.stderr.take().unwrap();
    let t1 = std::thread::spawn(move || {
        let mut b = Vec::new();
        let _ = std::io::Read::read_to_end(&mut so, &mut b);
        b
    });
    let errbuf = std::sync::Arc::new(std::sync::Mutex::new(Vec::<u8>::new()));
    let errbuf2 = errbuf.clone();
    let t2 = std::thread::spawn(move || {
        let mut chunk = [0u8; 4096];
        loop {
            match std::io::Read::read(&mut se, &mut chunk) {
                Ok(0) | Err(_) => break,
                Ok(n) => errbuf2.lock().unwrap().extend_from_slice(&chunk[..n]),
            }
        }
    });
    let mut panic_seen_at: Option<Instant> = None;
    let mut cpu_ticks = 0u64;
    let mut exit = None;
    let mut sleep_us = 200u64;
    loop {
        match child.try_wait() {
            Ok(Some(st)) => {
                use std::os::unix::process::ExitStatusExt;
                exit = Some(if let Some(c) = st.code() {
                    Exit::Code(c)
                } else {
                    Exit::Signal(st.signal().unwrap_or(-1))
                });
                break;
            }
            Ok(None) => {}
            Err(_) => break,
        }
        if let Some(t) = proc_cpu_ticks(target_pid(pid, r.strace.is_some())) {
            cpu_ticks = cpu_ticks.max(t);
        }
        if panic_seen_at.is_none() && start.elapsed() > Duration::from_millis(300) {
            let b = errbuf.lock().unwrap();
            if b.windows(11).any(|w| w == b"panicked at") {
                panic_seen_at = Some(Instant::now());
            }
        }
        // after a panic message the process should be gone quickly; if not, diagnose early instead of waiting out the limit
        let early = panic_seen_at.map(|t| t.elapsed() > Duration::from_millis(1500)).unwrap_or(false);
        // once several runs of this process have needed the watchdog, the tree under test hangs systematically: later runs
        // are given 4 s instead of the full limit (normal runs take milliseconds), so that a check still ends in minutes
        let limit = if WATCHDOG_HITS.load(std::sync::atomic::Ordering::Relaxed) >= 6 { r.wall_limit.min(Duration::from_secs(4)) } else { r.wall_limit };
        if start.elapsed() > limit || early {
            // diagnosis, not verdict
            let tp = target_pid(pid, r.strace.is_some());
            let a = thread_states(tp);
            std::thread::sleep(Duration::from_millis(500));
            let b = thread_states(tp);
            // a logger / timer thread may wake up for a tick; "busy" needs substantial CPU use (>= 5 ticks in 0.5 s)
            let delta: u64 = a.iter().zip(b.iter()).filter(|(x, y)| x.0 == y.0).map(|(x, y)| y.2.saturating_sub(x.2)).sum();
            let progressed = delta >= 5;
            let all_sleeping = !b.is_empty() && b.iter().all(|t| t.1.starts_with('S'));
            if early && start.elapsed() <= limit && !(all_sleeping && !progressed) {
                // not (yet) a clear dead-lock: look again later instead of concluding from one sample
                panic_seen_at = Some(Instant::now());
                continue;
            }
            if !early {
                WATCHDOG_HITS.fetch_add(1, std::sync::atomic::Ordering::Relaxed);
            }
            let diag = if all_sleeping && !progressed {
                // 202 = futex, 271 = ppoll, 7 = poll, 232 = epoll_wait
                format!(
                    "deadlock: all {} threads sleeping without CPU progress; states={:?}",
                    b.len(),
                    b.iter().map(|t| t.1.clone()).collect::<Vec<_>>()
                )
            } else if progressed {
                format!("busy: CPU time still advancing; states={:?}", b.iter().map(|t| t.1.clone()).collect::<Vec<_>>())
            } else {
                format!("unknown: states={:?}", b.iter().map(|t| t.1.clone()).collect::<Vec<_>>())
            };
            let _ = Command::new("kill").args(["-9", &tp.to_string()]).status();
            let _ = child.kill();
            let _ = child.wait();
            exit = Some(Exit::Timeout(diag));
            break;
        }
        std::thread::sleep(Duration::from_micros(sleep_us));
        if sleep_us < 5000 {
            sleep_us += sleep_us / 2;
        }
    }
    let stdout = String::from_utf8_lossy(&t1.join().unwrap_or_default()).into_owned();
    let _ = t2.join();
    let stderr = String::from_utf8_lossy(&errbuf.lock().unwrap()).into_owned();
    BinOutcome {
        exit: exit.unwrap_or(Exit::Signal(-1)),
        stdout,
        stderr,
        cpu_ms: cpu_ticks * 10,
        wall_ms: start.elapsed().as_millis() as u64,
    }
}

/// number of runs of this process that were ended by the wall-clock watchdog
pub static WATCHDOG_HITS: std::sync::atomic::AtomicUsize = std::sync::atomic::AtomicUsize::new(0);

/// Convenience: generate for `lang` from `root` (already materialised) into `out` (file or folder).
pub fn cli_args(lang: LangId, cfg: &LangCfg, multi: bool, out: &Path, dirs: &[&str]) -> Vec<String> {
    let mut a: Vec<String> = vec!["--lang".into(), lang.name().into()];
    match lang {
        LangId::Swift if !cfg.prefix.is_empty() => {
            a.push("--swift-prefix".into());
            a.push(cfg.prefix.clone());
        }
        LangId::Kotlin => {
            if !cfg.prefix.is_empty() {
                a.push("--kotlin-prefix".into());
                a.push(cfg.prefix.clone());
            }
            if !cfg.package.is_empty() {
                a.push("--java-package".into());
                a.push(cfg.package.clone());
            }
        }
        LangId::Scala if !cfg.package.is_empty() => {
            a.push("--scala-package".into());
            a.push(cfg.package.clone());
        }
        LangId::Go if !cfg.package.is_empty() => {
            a.push("--go-package".into());
            a.push(cfg.package.clone());
        }
        _ => {}
    }
    a.push(if multi { "--output-folder".into() } else { "--output-file".into() });
    a.push(out.to_string_lossy().into_owned());
    for d in dirs {
        a.push(d.to_string());
    }
    a
}

/// typeshare.toml text carrying the file-only settings of a LangCfg (type mappings etc.)
pub fn config_toml(lang: LangId, cfg: &LangCfg) -> String {
    fn esc(s: &str) -> String {
        format!("{:?}", s)
    }
    let mut t = String::new();
    let sect = match lang {
        LangId::Ts => "typescript",
        LangId::Kotlin => "kotlin",
        LangId::Swift => "swift",
        LangId::Scala => "scala",
        LangId::Go => "go",
        LangId::Python => "python",
    };
    t.push_str(&format!("[{sect}]\n"));
    if lang == LangId::Swift {
        let list = |v: &Vec<String>| format!("[{}]", v.iter().map(|s| esc(s)).collect::<Vec<_>>().join(", "));
        if !cfg.default_decorators.is_empty() {
            t.push_str(&format!("default_decorators = {}\n", list(&cfg.default_decorators)));
        }
        if !cfg.default_generic_constraints.is_empty() {
            t.push_str(&format!("default_generic_constraints = {}\n", list(&cfg.default_generic_constraints)));
        }
        if !cfg.codablevoid_constraints.is_empty() {
            t.push_str(&format!("codablevoid_constraints = {}\n", list(&cfg.codablevoid_constraints)));
        }
    }
    if lang == LangId::Go {
        if !cfg.uppercase_acronyms.is_empty() {
            t.push_str(&format!(
                "uppercase_acronyms = [{}]\n",
                cfg.uppercase_acronyms.iter().map(|s| esc(s)).collect::<Vec<_>>().join(", ")
            ));
        }
        if cfg.no_pointer_slice {
            t.push_str("no_pointer_slice = true\n");
        }
    }
    if !cfg.type_mappings.is_empty() {
        t.push_str(&format!("[{sect}.type_mappings]\n"));
        let sorted: BTreeMap<_, _> = cfg.type_mappings.iter().collect();
        for (k, v) in sorted {
            t.push_str(&format!("{} = {}\n", esc(k), esc(v)));
        }
    }
    t
}

pub fn read_dir_files(dir: &Path) -> BTreeMap<String, Vec<u8>> {
    let mut m = BTreeMap::new();
    fn walk(base: &Path, d: &Path, m: &mut BTreeMap<String, Vec<u8>>) {
        if let Ok(rd) = std::fs::read_dir(d) {
            for e in rd.flatten() {
                let p = e.path();
                if p.is_dir() {
                    walk(base, &p, m);
                } else if let Ok(b) = std::fs::read(&p) {
                    m.insert(p.strip_prefix(base).unwrap().to_string_lossy().into_owned(), b);
                }
            }
        }
    }
    walk(dir, dir, &mut m);
    m
}

/// Run a prepared command with a wall-clock watchdog; returns the exit code (-1 signal, -2 timeout).
pub fn run_cmd_timeout(mut c: Command, limit: Duration) -> i32 {
    c.stdin(Stdio::null()).stdout(Stdio::null()).stderr(Stdio::null());
    let Ok(mut child) = c.spawn() else { return -3 };
    let start = Instant::now();
    loop {
        match child.try_wait() {
            Ok(Some(st)) => return st.code().unwrap_or(-1),
            Ok(None) => {}
            Err(_) => return -3,
        }
        if start.elapsed() > limit {
            let _ = child.kill();
            let _ = child.wait();
            return -2;
        }
        std::thread::sleep(Duration::from_millis(2));
    }
}
