//! tsv — runtime-monitoring harness for typeshare (see /verif/DESIGN.md).
mod checks;
mod facts;
mod gen;
mod ir;
mod lang;
mod lex;
mod model;
mod oracle;
mod report;
mod rng;
mod strace;
mod sut;

use report::{Ctx, Tier};
use std::path::PathBuf;
use std::time::Instant;

fn env_path(k: &str, default: &str) -> PathBuf {
    PathBuf::from(std::env::var(k).unwrap_or_else(|_| default.to_string()))
}

fn main() {
    let args: Vec<String> = std::env::args().skip(1).collect();
    if args.len() < 2 {
        eprintln!("usage: tsv <ID> <quick|thorough> | tsv <ID> --replay <path>");
        std::process::exit(2);
    }
    let id = args[0].to_uppercase();
    let mut seed: u64 = std::env::var("VERIF_SEED")
        .ok()
        .and_then(|s| s.trim().parse::<i64>().ok())
        .map(|v| v as u64)
        .unwrap_or(1);
    let mut replay_sig = None;
    let tier = match args[1].as_str() {
        "quick" => Tier::Quick,
        "thorough" => Tier::Thorough,
        "--replay" => {
            let Some(p) = args.get(2) else {
                eprintln!("--replay needs a path");
                std::process::exit(2);
            };
            let text = std::fs::read_to_string(p).unwrap_or_else(|e| {
                eprintln!("HARNESS-ERROR: cannot read replay file {p}: {e}");
                std::process::exit(2)
            });
            let v: serde_json::Value = serde_json::from_str(&text).unwrap_or_else(|e| {
                eprintln!("HARNESS-ERROR: bad replay file: {e}");
                std::process::exit(2)
            });
            seed = v["rerun"]["seed"].as_u64().unwrap_or(seed);
            replay_sig = v["signature"].as_str().map(|s| s.to_string());
            if v["rerun"]["tier"].as_str() == Some("thorough") {
                Tier::Thorough
            } else {
                Tier::Quick
            }
        }
        other => {
            // VERIF_TIER lets one command serve both tiers
            match std::env::var("VERIF_TIER").as_deref() {
                Ok("thorough") => Tier::Thorough,
                Ok("quick") => Tier::Quick,
                _ => {
                    eprintln!("unknown tier {other}");
                    std::process::exit(2);
                }
            }
        }
    };
    let ctx = Ctx {
        id: id.clone(),
        tier,
        seed,
        verif: env_path("VERIF_DIR", "/verif"),
        repo: env_path("VERIF_REPO", "/repo"),
        build: env_path("VERIF_BUILD", "/verif/.build"),
        cli: env_path("VERIF_CLI", "/verif/.build/cli-hooked-main/release/typeshare"),
        tag: std::env::var("VERIF_TAG").unwrap_or_else(|_| "main".into()),
        start: Instant::now(),
        replay_sig,
        threads: std::env::var("VERIF_THREADS")
            .ok()
            .and_then(|s| s.parse().ok())
            .unwrap_or(16),
    };
    report::install_panic_hook();
    let Some((spec, rep)) = checks::dispatch(&ctx) else {
        eprintln!("HARNESS-ERROR: no check for property {id}");
        std::process::exit(2);
    };
    let code = report::finish(&ctx, spec, rep);
    std::process::exit(code);
}
