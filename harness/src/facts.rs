//! Turning generated text into facts for many outputs at once (Python goes through one CPython batch).
use crate::ir::{Def, DefKind, File, ParseStatus};
use crate::lang::{parse_text, python};
use crate::lex::Lexed;
use crate::report::Ctx;
use crate::sut::LangId;

pub struct Facts {
    pub status: ParseStatus,
    pub lexed: Option<Lexed>,
    pub py: Option<python::PyResult>,
}

impl Facts {
    pub fn file(&self) -> Option<&File> {
        match &self.status {
            ParseStatus::Parsed(f) => Some(f),
            _ => None,
        }
    }
}

/// Parse every (lang, text); `py_exec` = also import Python modules under stub pydantic.
pub fn parse_many(ctx: &Ctx, scratch_name: &str, items: &[(LangId, &str)], py_exec: bool) -> Vec<Facts> {
    let n = items.len();
    let mut out: Vec<Option<Facts>> = (0..n).map(|_| None).collect();
    // Python batch
    let py_idx: Vec<usize> = (0..n).filter(|&i| items[i].0 == LangId::Python).collect();
    let scratch = ctx.scratch(scratch_name);
    let srcs: Vec<(&str, bool)> = py_idx.iter().map(|&i| (items[i].1, py_exec)).collect();
    let pyres = python::check_batch(&ctx.verif, &scratch, &srcs, ctx.threads);
    let _ = std::fs::remove_dir_all(&scratch);
    for (k, r) in py_idx.iter().zip(pyres.into_iter()) {
        out[*k] = Some(Facts { status: r.status.clone(), lexed: None, py: Some(r) });
    }
    // brace languages in parallel
    let idx: Vec<usize> = (0..n).filter(|&i| items[i].0 != LangId::Python).collect();
    let chunks = ctx.threads.max(1);
    let per = (idx.len() + chunks - 1) / chunks.max(1);
    if per > 0 {
        let parts: Vec<Vec<(usize, Facts)>> = std::thread::scope(|s| {
            let mut hs = vec![];
            for ch in idx.chunks(per) {
                hs.push(s.spawn(move || {
                    ch.iter()
                        .map(|&i| {
                            let (st, l) = parse_text(items[i].0, items[i].1);
                            (i, Facts { status: st, lexed: Some(l), py: None })
                        })
                        .collect::<Vec<_>>()
                }));
            }
            hs.into_iter().map(|h| h.join().unwrap()).collect()
        });
        for p in parts {
            for (i, f) in p {
                out[i] = Some(f);
            }
        }
    }
    out.into_iter().map(|o| o.unwrap()).collect()
}

/// definitions whose name carries `stem` (principal or helper)
pub fn defs_with_stem<'a>(f: &'a File, stem: &str) -> Vec<&'a Def> {
    f.defs.iter().filter(|d| crate::gen::stems_in(&d.name).iter().any(|s| s == stem)).collect()
}

/// the principal definition of the item with this stem: its name carries exactly this one stem
pub fn principal_def<'a>(f: &'a File, stem: &str) -> Vec<&'a Def> {
    f.defs
        .iter()
        .filter(|d| d.kind != DefKind::Helper && crate::gen::stems_in(&d.name) == vec![stem.to_string()])
        .collect()
}

/// helper struct generated for a struct variant: name carries the enum stem then the variant stem
pub fn variant_helper<'a>(f: &'a File, enum_stem: &str, variant_stem: &str) -> Vec<&'a Def> {
    f.defs
        .iter()
        .filter(|d| {
            let s = crate::gen::stems_in(&d.name);
            s.len() == 2 && s[0] == enum_stem && s[1] == variant_stem && d.kind == DefKind::Struct
        })
        .collect()
}
