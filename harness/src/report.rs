//! Verdicts, signatures, known-findings matching, evidence and replay files.
use serde_json::{json, Map, Value};
use std::collections::{BTreeMap, BTreeSet};
use std::path::PathBuf;
use std::time::Instant;

#[derive(Clone, Copy, PartialEq, Eq, Debug)]
pub enum Tier {
    Quick,
    Thorough,
}

impl Tier {
    pub fn name(self) -> &'static str {
        match self {
            Tier::Quick => "quick",
            Tier::Thorough => "thorough",
        }
    }
    /// pick a workload size by tier
    pub fn pick<T>(self, quick: T, thorough: T) -> T {
        match self {
            Tier::Quick => quick,
            Tier::Thorough => thorough,
        }
    }
}

#[derive(Clone)]
pub struct Ctx {
    pub id: String,
    pub tier: Tier,
    pub seed: u64,
    pub verif: PathBuf,
    pub repo: PathBuf,
    pub build: PathBuf,
    pub cli: PathBuf,
    pub tag: String,
    pub start: Instant,
    /// when replaying: only this signature is of interest
    pub replay_sig: Option<String>,
    pub threads: usize,
}

impl Ctx {
    pub fn scratch(&self, name: &str) -> PathBuf {
        let p = self
            .build
            .join("run")
            // the process id keeps concurrent runs of one check (quick and thorough, several seeds) out of each other's files
            .join(format!("{}-{}-{}-{}", self.id, self.tag, std::process::id(), name));
        let _ = std::fs::remove_dir_all(&p);
        std::fs::create_dir_all(&p).expect("create scratch dir");
        p
    }
}

#[derive(Clone, Debug)]
pub struct Violation {
    pub sig: String,
    pub what: String,
    pub detail: Value,
}

#[derive(Default, Clone)]
pub struct Report {
    pub evaluations: u64,
    pub distinct: BTreeSet<String>,
    pub samples: Vec<Value>,
    pub monitors: BTreeMap<String, u64>,
    pub notes: BTreeMap<String, Value>,
    pub inconclusive: BTreeMap<String, u64>,
    pub inconclusive_samples: Vec<Value>,
    pub violations: Vec<Violation>,
    pub viol_counts: BTreeMap<String, u64>,
}

pub const MAX_SAMPLES: usize = 6;
const MAX_WITNESS_PER_SIG: u64 = 2;

impl Report {
    pub fn new() -> Self {
        Self::default()
    }
    pub fn eval(&mut self, n: u64) {
        self.evaluations += n;
    }
    pub fn count(&mut self, key: &str, n: u64) {
        *self.monitors.entry(key.to_string()).or_insert(0) += n;
    }
    pub fn cell(&mut self, s: impl Into<String>) {
        self.distinct.insert(s.into());
    }
    pub fn sample(&mut self, v: Value) {
        if self.samples.len() < MAX_SAMPLES {
            self.samples.push(v);
        }
    }
    pub fn inconclusive(&mut self, reason: &str, sample: Value) {
        *self.inconclusive.entry(reason.to_string()).or_insert(0) += 1;
        if self.inconclusive_samples.len() < 10 {
            self.inconclusive_samples
                .push(json!({"reason": reason, "case": sample}));
        }
    }
    pub fn violate(&mut self, sig: impl Into<String>, what: impl Into<String>, detail: Value) {
        let sig = sig.into();
        let c = self.viol_counts.entry(sig.clone()).or_insert(0);
        *c += 1;
        if *c <= MAX_WITNESS_PER_SIG {
            self.violations.push(Violation {
                sig,
                what: what.into(),
                detail,
            });
        }
    }
    pub fn merge(&mut self, o: Report) {
        self.evaluations += o.evaluations;
        self.distinct.extend(o.distinct);
        for s in o.samples {
            self.sample(s);
        }
        for (k, v) in o.monitors {
            let e = self.monitors.entry(k).or_insert(0);
            *e = e.wrapping_add(v);
        }
        for (k, v) in o.notes {
            self.notes.entry(k).or_insert(v);
        }
        for (k, v) in o.inconclusive {
            *self.inconclusive.entry(k).or_insert(0) += v;
        }
        for s in o.inconclusive_samples {
            if self.inconclusive_samples.len() < 10 {
                self.inconclusive_samples.push(s);
            }
        }
        for (k, v) in o.viol_counts {
            *self.viol_counts.entry(k).or_insert(0) += v;
        }
        for v in o.violations {
            let have = self.violations.iter().filter(|x| x.sig == v.sig).count() as u64;
            if have < MAX_WITNESS_PER_SIG {
                self.violations.push(v);
            }
        }
    }
}

/// Run `f(shard)` for shard in 0..n on up to `threads` OS threads and merge the reports.
pub fn par_shards<F>(threads: usize, n: usize, f: F) -> Report
where
    F: Fn(usize) -> Report + Sync,
{
    use std::sync::atomic::{AtomicUsize, Ordering};
    use std::sync::Mutex;
    let next = AtomicUsize::new(0);
    let total = Mutex::new(Report::new());
    std::thread::scope(|s| {
        for _ in 0..threads.min(n).max(1) {
            s.spawn(|| loop {
                let i = next.fetch_add(1, Ordering::SeqCst);
                if i >= n {
                    break;
                }
                let r = f(i);
                total.lock().unwrap().merge(r);
            });
        }
    });
    total.into_inner().unwrap()
}

pub struct Spec {
    pub level: &'static str,
    pub rule: String,
    pub assumptions: Vec<String>,
    pub exhaustive: Option<bool>,
}

#[derive(Clone, Debug)]
pub struct KnownEntry {
    pub property: String,
    pub signature: String,
    pub status: String,
    pub what: String,
}

pub fn load_known(ctx: &Ctx) -> Vec<KnownEntry> {
    let p = ctx.verif.join("known_findings.json");
    let Ok(text) = std::fs::read_to_string(&p) else {
        return vec![];
    };
    let v: Value = match serde_json::from_str(&text) {
        Ok(v) => v,
        Err(e) => {
            eprintln!("HARNESS-ERROR: known_findings.json unreadable: {e}");
            std::process::exit(2);
        }
    };
    let mut out = vec![];
    for e in v["findings"].as_array().cloned().unwrap_or_default() {
        out.push(KnownEntry {
            property: e["property"].as_str().unwrap_or("").to_string(),
            signature: e["signature"].as_str().unwrap_or("").to_string(),
            status: e["status"].as_str().unwrap_or("known").to_string(),
            what: e["what"].as_str().unwrap_or("").to_string(),
        });
    }
    out
}

fn sanitize(s: &str) -> String {
    let t: String = s
        .chars()
        .map(|c| if c.is_ascii_alphanumeric() || c == '-' || c == '.' { c } else { '_' })
        .collect();
    t.chars().take(120).collect()
}

/// Write evidence, print KNOWN-FINDING / VIOLATION lines, return the exit code.
pub fn finish(ctx: &Ctx, spec: Spec, rep: Report) -> i32 {
    let known_all = load_known(ctx);
    let known: Vec<&KnownEntry> = known_all
        .iter()
        .filter(|k| k.property == ctx.id && k.status == "known")
        .collect();
    let known_sigs: BTreeSet<&str> = known.iter().map(|k| k.signature.as_str()).collect();

    let mut new_sigs: BTreeMap<String, u64> = BTreeMap::new();
    let mut known_hits: BTreeMap<String, u64> = BTreeMap::new();
    for (sig, n) in &rep.viol_counts {
        if known_sigs.contains(sig.as_str()) {
            known_hits.insert(sig.clone(), *n);
        } else {
            new_sigs.insert(sig.clone(), *n);
        }
    }

    // replay files for unlisted violations
    let rdir = ctx.verif.join("replays").join(&ctx.id);
    let mut violation_lines = vec![];
    if !new_sigs.is_empty() {
        let _ = std::fs::create_dir_all(&rdir);
    }
    let mut witness_index: BTreeMap<String, usize> = BTreeMap::new();
    for v in &rep.violations {
        if known_sigs.contains(v.sig.as_str()) {
            continue;
        }
        let idx = witness_index.entry(v.sig.clone()).or_insert(0);
        *idx += 1;
        let path = rdir.join(format!("{}-{}.json", sanitize(&v.sig), idx));
        let body = json!({
            "property": ctx.id,
            "signature": v.sig,
            "what": v.what,
            "occurrences_this_run": rep.viol_counts.get(&v.sig),
            "rerun": {"seed": ctx.seed, "tier": ctx.tier.name(),
                      "cmd": format!("VERIF_SEED={} ./check {} {}", ctx.seed, ctx.id, ctx.tier.name())},
            "detail": v.detail,
        });
        let _ = std::fs::write(&path, serde_json::to_string_pretty(&body).unwrap());
        if *idx == 1 {
            violation_lines.push((v.sig.clone(), v.what.clone(), path));
        }
    }

    // evidence
    let wall = ctx.start.elapsed().as_secs_f64();
    let mut cov = Map::new();
    cov.insert("evaluations".into(), json!(rep.evaluations));
    cov.insert("distinct_nontrivial".into(), json!(rep.distinct.len()));
    cov.insert("rule".into(), json!(spec.rule));
    cov.insert("samples".into(), Value::Array(rep.samples.clone()));
    if let Some(e) = spec.exhaustive {
        cov.insert("exhaustive".into(), json!(e));
    }
    if spec.level == "translation_validation" {
        cov.insert(
            "programs".into(),
            json!(rep.monitors.get("programs").copied().unwrap_or(rep.evaluations)),
        );
        cov.insert(
            "disagreements_checked".into(),
            json!(rep.viol_counts.values().sum::<u64>()),
        );
    }
    cov.insert("monitors".into(), json!(rep.monitors));
    if !rep.notes.is_empty() {
        cov.insert("notes".into(), json!(rep.notes));
    }
    cov.insert(
        "distinct_cells_sample".into(),
        json!(rep.distinct.iter().take(40).collect::<Vec<_>>()),
    );
    cov.insert(
        "inconclusive".into(),
        json!({"by_reason": rep.inconclusive, "samples": rep.inconclusive_samples}),
    );
    cov.insert(
        "known_findings_observed".into(),
        json!(known_hits),
    );
    cov.insert("unlisted_violation_signatures".into(), json!(new_sigs));
    let ev = json!({
        "property_id": ctx.id,
        "tier": ctx.tier.name(),
        "seed": ctx.seed,
        "level": spec.level,
        "coverage": Value::Object(cov),
        "assumptions": spec.assumptions,
        "wall_s": (wall * 100.0).round() / 100.0,
        "violations": new_sigs.len(),
    });
    // evidence under /verif/evidence describes /repo itself; a run against another tree (VERIF_REPO) keeps its own
    let edir = if ctx.tag == "main" { ctx.verif.join("evidence") } else { ctx.build.join(format!("evidence-{}", ctx.tag)) };
    let _ = std::fs::create_dir_all(&edir);
    if ctx.replay_sig.is_none() {
        let tmp = edir.join(format!(".{}.json.tmp", ctx.id));
        std::fs::write(&tmp, serde_json::to_string_pretty(&ev).unwrap()).expect("write evidence");
        std::fs::rename(&tmp, edir.join(format!("{}.json", ctx.id))).expect("rename evidence");
    }

    for k in &known {
        println!(
            "KNOWN-FINDING: property={} {} observed={} :: {}",
            ctx.id,
            k.signature,
            known_hits.get(&k.signature).copied().unwrap_or(0),
            k.what
        );
    }
    let inc: u64 = rep.inconclusive.values().sum();
    println!(
        "SUMMARY property={} tier={} seed={} evaluations={} distinct_nontrivial={} inconclusive={} known_hits={} new_violation_signatures={} wall_s={:.1}",
        ctx.id,
        ctx.tier.name(),
        ctx.seed,
        rep.evaluations,
        rep.distinct.len(),
        inc,
        known_hits.len(),
        new_sigs.len(),
        wall
    );
    if let Some(want) = &ctx.replay_sig {
        if rep.viol_counts.contains_key(want) {
            println!("REPLAY: signature reproduced: {want}");
            if let Some((_, _, path)) = violation_lines.iter().find(|(s, _, _)| s == want) {
                println!("VIOLATION property={} replay={}", ctx.id, path.display());
                return 1;
            }
            return 0;
        }
        println!("REPLAY: signature NOT reproduced: {want}");
        return 0;
    }
    if !violation_lines.is_empty() {
        for (sig, what, path) in &violation_lines {
            println!("  violation signature: {sig} :: {what}");
            println!("VIOLATION property={} replay={}", ctx.id, path.display());
        }
        return 1;
    }
    if rep.evaluations == 0 || rep.distinct.len() < 2 {
        eprintln!("HARNESS-ERROR: the monitors observed nothing (evaluations={}, distinct={}); this is a broken check, not a pass", rep.evaluations, rep.distinct.len());
        return 2;
    }
    0
}

// ---------------------------------------------------------------------------------------------
// panic capture for in-process drivers

use std::cell::RefCell;
thread_local! {
    static LAST_PANIC: RefCell<Option<(String, String)>> = const { RefCell::new(None) };
}

pub fn install_panic_hook() {
    std::panic::set_hook(Box::new(|info| {
        let loc = info
            .location()
            .map(|l| format!("{}:{}", l.file(), l.line()))
            .unwrap_or_else(|| "?".into());
        let msg = if let Some(s) = info.payload().downcast_ref::<&str>() {
            s.to_string()
        } else if let Some(s) = info.payload().downcast_ref::<String>() {
            s.clone()
        } else {
            "<non-string panic>".into()
        };
        LAST_PANIC.with(|p| *p.borrow_mut() = Some((loc, msg)));
    }));
}

/// Run `f`, turning a panic into Err((location, message)).
pub fn catch<T>(f: impl FnOnce() -> T) -> Result<T, (String, String)> {
    LAST_PANIC.with(|p| *p.borrow_mut() = None);
    match std::panic::catch_unwind(std::panic::AssertUnwindSafe(f)) {
        Ok(v) => Ok(v),
        Err(_) => Err(LAST_PANIC
            .with(|p| p.borrow_mut().take())
            .unwrap_or(("?".into(), "?".into()))),
    }
}

/// Make a location stable across checkouts: strip everything up to and including the repo root.
pub fn short_loc(loc: &str) -> String {
    for marker in ["/core/src/", "/cli/src/", "/lib/src/", "/annotation/src/"] {
        if let Some(i) = loc.find(marker) {
            return loc[i + 1..].to_string();
        }
    }
    if let Some(i) = loc.find("/registry/src/") {
        let rest = &loc[i + "/registry/src/".len()..];
        if let Some(j) = rest.find('/') {
            return format!("registry/{}", &rest[j + 1..]);
        }
    }
    loc.to_string()
}
