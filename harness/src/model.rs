//! Ground-truth model of a generated Rust program and its rendering to source text.
//! Monitors compare typeshare's output with this model, never with typeshare's own IR.
use crate::rng::Rng;

/// see `Ty::render`
pub static EXOTIC_PATHS: std::sync::atomic::AtomicBool = std::sync::atomic::AtomicBool::new(false);

#[derive(Clone, Debug, PartialEq)]
pub enum Ty {
    /// bool char String &str i8.. I54 U53 f32 f64 (and the unsupported u64 i64 usize isize for C08)
    Prim(&'static str),
    Unit,
    Vec(Box<Ty>),
    Array(Box<Ty>, usize),
    /// `&[T]`
    Slice(Box<Ty>),
    Opt(Box<Ty>),
    Map(Box<Ty>, Box<Ty>),
    /// Box Arc Rc Cow Cell RefCell Mutex RwLock Weak
    Wrap(&'static str, Box<Ty>),
    /// `&'static T`
    Ref(Box<Ty>),
    /// user type by Rust identifier, with generic arguments
    User(String, Vec<Ty>),
    /// generic parameter of the enclosing item
    Param(String),
    Tuple(Vec<Ty>),
    DateTime,
    /// verbatim text (hostile forms for C07)
    Raw(String),
}

pub const WRAPPERS: [&str; 9] = ["Box", "Arc", "Rc", "Cow", "Cell", "RefCell", "Mutex", "RwLock", "Weak"];

impl Ty {
    pub fn prim(p: &'static str) -> Ty {
        Ty::Prim(p)
    }
    pub fn user(n: &str) -> Ty {
        Ty::User(n.to_string(), vec![])
    }
    pub fn depth(&self) -> usize {
        match self {
            Ty::Vec(t) | Ty::Array(t, _) | Ty::Slice(t) | Ty::Opt(t) | Ty::Wrap(_, t) | Ty::Ref(t) => 1 + t.depth(),
            Ty::Map(a, b) => 1 + a.depth().max(b.depth()),
            Ty::User(_, a) | Ty::Tuple(a) => 1 + a.iter().map(|x| x.depth()).max().unwrap_or(0),
            _ => 0,
        }
    }
    /// strip references and transparent smart pointers at the top
    pub fn peel(&self) -> &Ty {
        match self {
            Ty::Wrap(_, t) | Ty::Ref(t) => t.peel(),
            other => other,
        }
    }
    pub fn is_option(&self) -> bool {
        matches!(self.peel(), Ty::Opt(_))
    }
    /// user types referenced anywhere inside
    pub fn user_refs(&self, out: &mut Vec<String>) {
        match self {
            Ty::Vec(t) | Ty::Array(t, _) | Ty::Slice(t) | Ty::Opt(t) | Ty::Wrap(_, t) | Ty::Ref(t) => t.user_refs(out),
            Ty::Map(a, b) => {
                a.user_refs(out);
                b.user_refs(out);
            }
            Ty::User(n, a) => {
                out.push(n.clone());
                for x in a {
                    x.user_refs(out);
                }
            }
            Ty::Tuple(a) => {
                for x in a {
                    x.user_refs(out);
                }
            }
            _ => {}
        }
    }
    pub fn render(&self, rng: &mut Rng, vary: bool) -> String {
        let q = |rng: &mut Rng, path: &str, name: &str| -> String {
            if vary && rng.chance(1, 4) {
                // with EXOTIC_PATHS (set by the one check that does not compile its sources): every spelling a Rust file may
                // use for a std type - absolute, through `alloc`, or relative to an imported module (`use std::collections;`)
                if EXOTIC_PATHS.load(std::sync::atomic::Ordering::Relaxed) && path.starts_with("std::") {
                    let module = &path["std::".len()..];
                    let in_alloc = matches!(module, "vec" | "string" | "boxed" | "borrow" | "rc") || (module == "sync" && name == "Arc");
                    return match rng.below(if in_alloc { 4 } else { 3 }) {
                        0 => format!("{path}::{name}"),
                        1 => format!("::{path}::{name}"),
                        2 => format!("{module}::{name}"),
                        _ => format!("alloc::{module}::{name}"),
                    };
                }
                format!("{path}::{name}")
            } else {
                name.to_string()
            }
        };
        match self {
            Ty::Prim("&str") => "&'static str".into(),
            Ty::Prim("String") => q(rng, "std::string", "String"),
            Ty::Prim("I54") => q(rng, "typeshare", "I54"),
            Ty::Prim("U53") => q(rng, "typeshare", "U53"),
            Ty::Prim(p) => p.to_string(),
            Ty::Unit => "()".into(),
            Ty::Vec(t) => format!("{}<{}>", q(rng, "std::vec", "Vec"), t.render(rng, vary)),
            Ty::Array(t, n) => format!("[{}; {}]", t.render(rng, vary), n),
            Ty::Slice(t) => format!("&'static [{}]", t.render(rng, vary)),
            Ty::Opt(t) => format!("{}<{}>", q(rng, "std::option", "Option"), t.render(rng, vary)),
            Ty::Map(a, b) => format!("{}<{}, {}>", q(rng, "std::collections", "HashMap"), a.render(rng, vary), b.render(rng, vary)),
            Ty::Wrap("Cow", t) => format!("{}<'static, {}>", q(rng, "std::borrow", "Cow"), t.render(rng, vary)),
            Ty::Wrap(w, t) => {
                let path = match *w {
                    "Box" => "std::boxed",
                    "Arc" | "Mutex" | "RwLock" | "Weak" => "std::sync",
                    "Rc" => "std::rc",
                    _ => "std::cell",
                };
                format!("{}<{}>", q(rng, path, w), t.render(rng, vary))
            }
            Ty::Ref(t) => format!("&'static {}", t.render(rng, vary)),
            Ty::User(n, a) if a.is_empty() => n.clone(),
            Ty::User(n, a) => format!("{}<{}>", n, a.iter().map(|x| x.render(rng, vary)).collect::<Vec<_>>().join(", ")),
            Ty::Param(p) => p.clone(),
            Ty::Tuple(a) => format!("({}{})", a.iter().map(|x| x.render(rng, vary)).collect::<Vec<_>>().join(", "), if a.len() == 1 { "," } else { "" }),
            Ty::DateTime => q(rng, "time", "OffsetDateTime"),
            Ty::Raw(s) => s.clone(),
        }
    }
    pub fn show(&self) -> String {
        let mut r = Rng::new(0);
        self.render(&mut r, false)
    }
}

#[derive(Clone, Copy, Debug, PartialEq, Eq)]
pub enum Skip {
    No,
    Serde,
    Typeshare,
}

#[derive(Clone, Copy, Debug, PartialEq, Eq)]
pub enum DocStyle {
    Line,
    Block,
    Attr,
}

#[derive(Clone, Debug)]
pub struct Doc {
    pub text: String,
    pub style: DocStyle,
}

#[derive(Clone, Debug)]
pub struct Field {
    /// identifier without `r#`
    pub ident: String,
    pub raw: bool,
    pub rename: Option<String>,
    pub ty: Ty,
    pub default: bool,
    pub flatten: bool,
    pub skip: Skip,
    pub docs: Vec<Doc>,
    /// verbatim `cfg(...)` predicates
    pub cfgs: Vec<String>,
    /// `#[typeshare(serialized_as = "..")]`
    pub serialized_as: Option<String>,
    /// extra verbatim typeshare(...) arguments, e.g. `typescript(readonly)`
    pub ts_args: Vec<String>,
    /// extra verbatim attributes
    pub extra_attrs: Vec<String>,
}

impl Field {
    pub fn new(ident: &str, ty: Ty) -> Self {
        Field { ident: ident.to_string(), raw: false, rename: None, ty, default: false, flatten: false, skip: Skip::No, docs: vec![], cfgs: vec![], serialized_as: None, ts_args: vec![], extra_attrs: vec![] }
    }
}

#[derive(Clone, Debug)]
pub enum VKind {
    Unit,
    Newtype(Ty),
    Struct(Vec<Field>),
    Tuple(Vec<Ty>),
}

#[derive(Clone, Debug)]
pub struct Variant {
    pub ident: String,
    pub rename: Option<String>,
    /// variant-level rename_all (applies to struct-variant fields)
    pub rename_all: Option<String>,
    /// further serde arguments of the variant, written as given (`skip_deserializing`)
    pub extra_serde: Vec<String>,
    pub kind: VKind,
    pub skip: Skip,
    pub docs: Vec<Doc>,
    pub cfgs: Vec<String>,
    pub serialized_as: Option<String>,
}

impl Variant {
    pub fn new(ident: &str, kind: VKind) -> Self {
        Variant { ident: ident.to_string(), rename: None, rename_all: None, kind, skip: Skip::No, docs: vec![], cfgs: vec![], serialized_as: None, extra_serde: vec![] }
    }
}

#[derive(Clone, Debug)]
pub enum Kind {
    Struct(Vec<Field>),
    UnitStruct,
    Newtype(Ty),
    TupleStruct(Vec<Ty>),
    Enum { variants: Vec<Variant>, tag: Option<String>, content: Option<String> },
    Alias(Ty),
    Const { ty: Ty, expr: String },
}

#[derive(Clone, Copy, Debug, PartialEq, Eq)]
pub enum Annot {
    /// no #[typeshare] at all (decoy)
    None,
    Plain,
    /// `#[typeshare::typeshare]`
    Qualified,
}

#[derive(Clone, Debug)]
pub struct Item {
    pub ident: String,
    pub kind: Kind,
    pub rename: Option<String>,
    pub rename_all: Option<String>,
    /// further container-level serde arguments, written as given (`rename_all_fields = ".."`)
    pub extra_serde: Vec<String>,
    pub generics: Vec<String>,
    pub annot: Annot,
    pub docs: Vec<Doc>,
    pub cfgs: Vec<String>,
    /// arguments inside #[typeshare(...)]: `swift = "Equatable"`, `redacted`, `serialized_as = ".."` ...
    pub ts_args: Vec<String>,
    pub serialized_as: Option<String>,
    /// nested module path inside the file
    pub mods: Vec<String>,
    pub derives: bool,
}

impl Item {
    pub fn new(ident: &str, kind: Kind) -> Self {
        Item { ident: ident.to_string(), kind, rename: None, rename_all: None, generics: vec![], annot: Annot::Plain, docs: vec![], cfgs: vec![], ts_args: vec![], serialized_as: None, mods: vec![], derives: true, extra_serde: vec![] }
    }
    pub fn is_annotated(&self) -> bool {
        self.annot != Annot::None
    }
    /// user types this item refers to through non-skipped parts
    pub fn refs(&self) -> Vec<String> {
        let mut out = vec![];
        match &self.kind {
            Kind::Struct(fs) => {
                for f in fs.iter().filter(|f| f.skip == Skip::No) {
                    f.ty.user_refs(&mut out);
                }
            }
            Kind::Newtype(t) | Kind::Alias(t) => t.user_refs(&mut out),
            Kind::TupleStruct(ts) => {
                for t in ts {
                    t.user_refs(&mut out);
                }
            }
            Kind::Enum { variants, .. } => {
                for v in variants.iter().filter(|v| v.skip == Skip::No) {
                    match &v.kind {
                        VKind::Unit => {}
                        VKind::Newtype(t) => t.user_refs(&mut out),
                        VKind::Struct(fs) => {
                            for f in fs.iter().filter(|f| f.skip == Skip::No) {
                                f.ty.user_refs(&mut out);
                            }
                        }
                        VKind::Tuple(ts) => {
                            for t in ts {
                                t.user_refs(&mut out);
                            }
                        }
                    }
                }
            }
            Kind::Const { ty, .. } => ty.user_refs(&mut out),
            Kind::UnitStruct => {}
        }
        out
    }
}

/// How the text is rendered; everything here must not matter to typeshare.
#[derive(Clone, Debug)]
pub struct RenderOpts {
    /// vary attribute order, merged vs separate serde attributes, path qualification, whitespace
    pub vary: bool,
    /// include `use` lines and derives so that the program is plausible Rust
    pub prelude: bool,
    /// render without any typeshare attribute (stripped twin / serde oracle)
    pub strip_typeshare: bool,
}

impl Default for RenderOpts {
    fn default() -> Self {
        RenderOpts { vary: true, prelude: true, strip_typeshare: false }
    }
}

fn esc(s: &str) -> String {
    let mut o = String::new();
    for c in s.chars() {
        match c {
            '"' => o.push_str("\\\""),
            '\\' => o.push_str("\\\\"),
            '\n' => o.push_str("\\n"),
            '\r' => o.push_str("\\r"),
            '\t' => o.push_str("\\t"),
            c => o.push(c),
        }
    }
    o
}

pub fn render_docs(docs: &[Doc], ind: &str, out: &mut String) {
    for d in docs {
        match d.style {
            DocStyle::Line if !d.text.contains('\n') => {
                out.push_str(&format!("{ind}///{}\n", d.text));
            }
            DocStyle::Block if !d.text.contains("*/") && !d.text.contains("/*") => {
                out.push_str(&format!("{ind}/**{}*/\n", d.text));
            }
            _ => {
                out.push_str(&format!("{ind}#[doc = \"{}\"]\n", esc(&d.text)));
            }
        }
    }
}

fn serde_attr(parts: &[String], rng: &mut Rng, vary: bool, ind: &str, out: &mut String) {
    if parts.is_empty() {
        return;
    }
    let mut parts = parts.to_vec();
    if vary {
        rng.shuffle(&mut parts);
    }
    if vary && parts.len() > 1 && rng.coin() {
        for p in parts {
            out.push_str(&format!("{ind}#[serde({p})]\n"));
        }
    } else {
        out.push_str(&attr_list("serde", &parts, rng, vary, ind));
    }
}

/// `#[name(a, b)]` in the spellings rustc accepts: on one line, with a trailing comma, or one argument per line (the
/// layout rustfmt produces for long lists, which ends every argument with a comma)
pub fn attr_list(name: &str, parts: &[String], rng: &mut Rng, vary: bool, ind: &str) -> String {
    match if vary { rng.below(6) } else { 0 } {
        0 | 1 | 2 => format!("{ind}#[{name}({})]\n", parts.join(", ")),
        3 => format!("{ind}#[{name}({},)]\n", parts.join(", ")),
        4 => format!("{ind}#[{name}( {} , )]\n", parts.join(" , ")),
        _ => {
            let mut s = format!("{ind}#[{name}(\n");
            for p in parts {
                s.push_str(&format!("{ind}    {p},\n"));
            }
            s.push_str(&format!("{ind})]\n"));
            s
        }
    }
}

fn field_attrs(f: &Field, o: &RenderOpts, rng: &mut Rng, ind: &str, out: &mut String) {
    render_docs(&f.docs, ind, out);
    for c in &f.cfgs {
        out.push_str(&format!("{ind}#[cfg({c})]\n"));
    }
    let mut blocks: Vec<String> = vec![];
    let mut serde = vec![];
    if let Some(r) = &f.rename {
        serde.push(format!("rename = \"{}\"", esc(r)));
    }
    if f.default {
        serde.push("default".to_string());
    }
    if f.flatten {
        serde.push("flatten".to_string());
    }
    if f.skip == Skip::Serde {
        serde.push("skip".to_string());
    }
    let mut s = String::new();
    serde_attr(&serde, rng, o.vary, ind, &mut s);
    if !s.is_empty() {
        blocks.push(s);
    }
    if !o.strip_typeshare {
        let mut ts = f.ts_args.clone();
        if f.skip == Skip::Typeshare {
            ts.push("skip".into());
        }
        if let Some(sa) = &f.serialized_as {
            ts.push(format!("serialized_as = \"{}\"", esc(sa)));
        }
        if !ts.is_empty() {
            if o.vary {
                rng.shuffle(&mut ts);
            }
            blocks.push(attr_list("typeshare", &ts, rng, o.vary, ind));
        }
    } else if f.skip == Skip::Typeshare {
        blocks.push(format!("{ind}#[serde(skip)]\n"));
    }
    for a in &f.extra_attrs {
        blocks.push(format!("{ind}{a}\n"));
    }
    if o.vary {
        rng.shuffle(&mut blocks);
    }
    for b in blocks {
        out.push_str(&b);
    }
}

fn render_field(f: &Field, o: &RenderOpts, rng: &mut Rng, ind: &str, out: &mut String) {
    field_attrs(f, o, rng, ind, out);
    let vis = if o.vary {
        *rng.pick(&["pub ", "", "pub(crate) "])
    } else {
        "pub "
    };
    out.push_str(&format!("{ind}{vis}{}{}: {},\n", if f.raw { "r#" } else { "" }, f.ident, f.ty.render(rng, o.vary)));
}

pub fn render_item(it: &Item, o: &RenderOpts, rng: &mut Rng, out: &mut String) {
    let ind = "    ".repeat(it.mods.len());
    render_docs(&it.docs, &ind, out);
    let mut blocks: Vec<String> = vec![];
    for c in &it.cfgs {
        blocks.push(format!("{ind}#[cfg({c})]\n"));
    }
    // the typeshare attribute
    if it.annot != Annot::None && !o.strip_typeshare {
        let mut args = it.ts_args.clone();
        if let Some(sa) = &it.serialized_as {
            args.push(format!("serialized_as = \"{}\"", esc(sa)));
        }
        let path = if it.annot == Annot::Qualified { "typeshare::typeshare" } else { "typeshare" };
        if args.is_empty() {
            blocks.push(format!("{ind}#[{path}]\n"));
        } else {
            blocks.push(attr_list(path, &args, rng, o.vary, &ind));
        }
    }
    let is_type = !matches!(it.kind, Kind::Alias(_) | Kind::Const { .. });
    if is_type && it.derives {
        blocks.push(format!("{ind}#[derive(Serialize)]\n"));
    }
    let mut serde = vec![];
    if let Some(r) = &it.rename {
        serde.push(format!("rename = \"{}\"", esc(r)));
    }
    if let Some(r) = &it.rename_all {
        serde.push(format!("rename_all = \"{}\"", esc(r)));
    }
    serde.extend(it.extra_serde.iter().cloned());
    if let Kind::Enum { tag, content, .. } = &it.kind {
        if let Some(t) = tag {
            serde.push(format!("tag = \"{}\"", esc(t)));
        }
        if let Some(c) = content {
            serde.push(format!("content = \"{}\"", esc(c)));
        }
    }
    if is_type {
        let mut s = String::new();
        serde_attr(&serde, rng, o.vary, &ind, &mut s);
        if !s.is_empty() {
            blocks.push(s);
        }
    }
    // derive must precede serde helper attributes for rustc; keep relative order of those two, vary the rest
    if o.vary && !is_type {
        rng.shuffle(&mut blocks);
    } else if o.vary {
        // move the typeshare attribute to a random position
        if let Some(p) = blocks.iter().position(|b| b.contains("#[typeshare")) {
            let b = blocks.remove(p);
            let at = rng.below(blocks.len() + 1);
            blocks.insert(at, b);
        }
    }
    for b in blocks {
        out.push_str(&b);
    }
    // a quarter of the generic items (chosen by their name, not by the random stream) declare defaults for their trailing or
    // for all of their type parameters (`<T, U = String>`): a parameter with a default is a parameter like any other
    let gens = if it.generics.is_empty() {
        String::new()
    } else {
        let h = it.ident.bytes().map(|b| b as usize).sum::<usize>();
        let n = it.generics.len();
        let ps: Vec<String> = it
            .generics
            .iter()
            .enumerate()
            .map(|(i, g)| match (o.vary, h % 8) {
                (true, 0) if i == n - 1 => format!("{g} = String"),
                (true, 1) => format!("{g} = u32"),
                _ => g.clone(),
            })
            .collect();
        format!("<{}>", ps.join(", "))
    };
    match &it.kind {
        Kind::Struct(fs) => {
            out.push_str(&format!("{ind}pub struct {}{} {{\n", it.ident, gens));
            for f in fs {
                render_field(f, o, rng, &format!("{ind}    "), out);
            }
            out.push_str(&format!("{ind}}}\n"));
        }
        Kind::UnitStruct => out.push_str(&format!("{ind}pub struct {}{};\n", it.ident, gens)),
        Kind::Newtype(t) => out.push_str(&format!("{ind}pub struct {}{}(pub {});\n", it.ident, gens, t.render(rng, o.vary))),
        Kind::TupleStruct(ts) => {
            let inner: Vec<String> = ts.iter().map(|t| t.render(rng, o.vary)).collect();
            out.push_str(&format!("{ind}pub struct {}{}({});\n", it.ident, gens, inner.join(", ")));
        }
        Kind::Enum { variants, .. } => {
            out.push_str(&format!("{ind}pub enum {}{} {{\n", it.ident, gens));
            let vind = format!("{ind}    ");
            for v in variants {
                render_docs(&v.docs, &vind, out);
                for c in &v.cfgs {
                    out.push_str(&format!("{vind}#[cfg({c})]\n"));
                }
                let mut serde = vec![];
                if let Some(r) = &v.rename {
                    serde.push(format!("rename = \"{}\"", esc(r)));
                }
                if let Some(r) = &v.rename_all {
                    serde.push(format!("rename_all = \"{}\"", esc(r)));
                }
                if v.skip == Skip::Serde || (v.skip == Skip::Typeshare && o.strip_typeshare) {
                    serde.push("skip".into());
                }
                serde.extend(v.extra_serde.iter().cloned());
                serde_attr(&serde, rng, o.vary, &vind, out);
                if !o.strip_typeshare {
                    let mut ts = vec![];
                    if v.skip == Skip::Typeshare {
                        ts.push("skip".to_string());
                    }
                    if let Some(sa) = &v.serialized_as {
                        ts.push(format!("serialized_as = \"{}\"", esc(sa)));
                    }
                    if !ts.is_empty() {
                        out.push_str(&format!("{vind}#[typeshare({})]\n", ts.join(", ")));
                    }
                }
                // one variant in nine (chosen by its name, not by the random stream) is written as a raw identifier
                // (`r#Started`, legal for any identifier and usual in generated code): the same variant to rustc and serde
                let vident = if o.vary && v.ident.bytes().map(|b| b as usize).sum::<usize>() % 9 == 0 { format!("r#{}", v.ident) } else { v.ident.clone() };
                let v_ident = &vident;
                match &v.kind {
                    VKind::Unit => out.push_str(&format!("{vind}{},\n", v_ident)),
                    VKind::Newtype(t) => out.push_str(&format!("{vind}{}({}),\n", v_ident, t.render(rng, o.vary))),
                    VKind::Tuple(ts) => {
                        let inner: Vec<String> = ts.iter().map(|t| t.render(rng, o.vary)).collect();
                        out.push_str(&format!("{vind}{}({}),\n", v_ident, inner.join(", ")));
                    }
                    VKind::Struct(fs) => {
                        out.push_str(&format!("{vind}{} {{\n", v_ident));
                        for f in fs {
                            // fields of struct variants have no visibility
                            let find = format!("{vind}    ");
                            field_attrs(f, o, rng, &find, out);
                            out.push_str(&format!("{find}{}{}: {},\n", if f.raw { "r#" } else { "" }, f.ident, f.ty.render(rng, o.vary)));
                        }
                        out.push_str(&format!("{vind}}},\n"));
                    }
                }
            }
            out.push_str(&format!("{ind}}}\n"));
        }
        Kind::Alias(t) => out.push_str(&format!("{ind}pub type {}{} = {};\n", it.ident, gens, t.render(rng, o.vary))),
        Kind::Const { ty, expr } => out.push_str(&format!("{ind}pub const {}: {} = {};\n", it.ident, ty.render(rng, o.vary), expr)),
    }
}

/// Render a file: items grouped into their nested `mod` blocks, in the given order.
pub fn render_file(items: &[Item], inner_attrs: &[String], uses: &[String], o: &RenderOpts, rng: &mut Rng) -> String {
    let mut out = String::new();
    for a in inner_attrs {
        out.push_str(&format!("#![{a}]\n"));
    }
    if o.prelude {
        out.push_str("#![allow(dead_code, unused_imports)]\nuse serde::Serialize;\n");
        if !o.strip_typeshare {
            out.push_str("use typeshare::typeshare;\n");
        }
        out.push_str("use std::collections::HashMap;\nuse std::{borrow::Cow, boxed::Box, cell::{Cell, RefCell}, rc::{Rc, Weak}, sync::{Arc, Mutex, RwLock}};\n");
    }
    for u in uses {
        out.push_str(&format!("use {u};\n"));
    }
    out.push('\n');
    let mut open: Vec<String> = vec![];
    for it in items {
        // close / open modules to reach it.mods
        let mut common = 0;
        while common < open.len() && common < it.mods.len() && open[common] == it.mods[common] {
            common += 1;
        }
        while open.len() > common {
            let closed = open.pop().unwrap_or_default();
            out.push_str(&format!("{}}}{}\n", "    ".repeat(open.len()), if closed.starts_with("constblock") { ";" } else { "" }));
        }
        while open.len() < it.mods.len() {
            let m = &it.mods[open.len()];
            // a container named fn_* is a function body, constblock* an anonymous const block: items may be declared there too
            if m.starts_with("fn_") {
                out.push_str(&format!("{}pub fn {}() {{\n", "    ".repeat(open.len()), m));
            } else if m.starts_with("constblock") {
                out.push_str(&format!("{}const _: () = {{\n", "    ".repeat(open.len())));
            } else {
                out.push_str(&format!("{}pub mod {} {{\n", "    ".repeat(open.len()), m));
            }
            if o.prelude {
                out.push_str(&format!("{}use super::*;\n", "    ".repeat(open.len() + 1)));
            }
            open.push(m.clone());
        }
        render_item(it, o, rng, &mut out);
        out.push('\n');
    }
    while !open.is_empty() {
        let closed = open.pop().unwrap_or_default();
        out.push_str(&format!("{}}}{}\n", "    ".repeat(open.len()), if closed.starts_with("constblock") { ";" } else { "" }));
    }
    out
}

/// Source layouts rustfmt would not produce but rustc accepts: the attribute is not the first token of its line.
/// mode 0: unchanged; 1: every `#[typeshare..]` line gets another attribute in front of it on the same line;
/// 2: attribute lines are joined with the line that follows (derive / serde / typeshare / item on one line);
/// 3: a block comment precedes every `#[typeshare..]`; 4: CRLF line endings and tab indentation.
pub fn relayout(src: &str, mode: usize) -> String {
    let is_ts = |l: &str| l.trim_start().starts_with("#[typeshare");
    match mode {
        1 | 3 => src
            .lines()
            .map(|l| {
                if is_ts(l) {
                    let ind = &l[..l.len() - l.trim_start().len()];
                    format!("{ind}{}{}", if mode == 1 { "#[allow(dead_code)] " } else { "/* shared */ " }, l.trim_start())
                } else {
                    l.to_string()
                }
            })
            .collect::<Vec<_>>()
            .join("\n")
            + "\n",
        2 => {
            let mut out = String::new();
            let mut pending: Vec<String> = vec![];
            for l in src.lines() {
                let t = l.trim();
                let is_attr = t.starts_with("#[") && t.ends_with(']');
                if is_attr {
                    pending.push(if pending.is_empty() { l.trim_end().to_string() } else { t.to_string() });
                } else if t.starts_with("//") || t.starts_with("/*") {
                    // a comment between attributes ends the joined line
                    if !pending.is_empty() {
                        out.push_str(&fix_first(&pending.join(" ")));
                        out.push('\n');
                        pending.clear();
                    }
                    out.push_str(l);
                    out.push('\n');
                } else if !pending.is_empty() {
                    pending.push(t.to_string());
                    out.push_str(&fix_first(&pending.join(" ")));
                    out.push('\n');
                    pending.clear();
                } else {
                    out.push_str(l);
                    out.push('\n');
                }
            }
            out
        }
        4 => src.replace("    ", "\t").replace('\n', "\r\n"),
        _ => src.to_string(),
    }
}

fn fix_first(line: &str) -> String {
    // the joined line must not begin with the typeshare attribute either
    if line.trim_start().starts_with("#[typeshare") {
        let ind = &line[..line.len() - line.trim_start().len()];
        format!("{ind}#[allow(dead_code)] {}", line.trim_start())
    } else {
        line.to_string()
    }
}
