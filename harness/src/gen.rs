//! Seeded generators: unique stems, identifiers, type expressions and whole programs.
use crate::model::*;
use crate::rng::Rng;
use crate::sut::LangId;
use std::collections::BTreeMap;

pub const RULES: [&str; 8] = [
    "lowercase",
    "UPPERCASE",
    "PascalCase",
    "camelCase",
    "snake_case",
    "SCREAMING_SNAKE_CASE",
    "kebab-case",
    "SCREAMING-KEBAB-CASE",
];

const STEM_ALPHA: &str = "abcdefghijklmnoprstuvwxyz"; // no 'q'
const WORDS: [&str; 24] = [
    "item", "value", "count", "name", "data", "info", "list", "map", "flag", "mode", "kind", "level", "index", "total", "user", "path", "code", "text", "state", "sum",
    "id", "url", "x", "a",
];

/// every stem is 'q' + 5 letters without 'q'; no other generated word contains 'q', so a stem can
/// only match at its own position after normalisation
#[derive(Default, Clone)]
pub struct Stems {
    pub all: Vec<String>,
}

impl Stems {
    pub fn fresh(&mut self, rng: &mut Rng) -> String {
        loop {
            let s = format!("q{}", rng.letters(STEM_ALPHA, 5));
            if !self.all.contains(&s) {
                self.all.push(s.clone());
                return s;
            }
        }
    }
}

pub fn normalise(s: &str) -> String {
    s.chars().filter(|c| *c != '_' && *c != '-').flat_map(|c| c.to_lowercase()).collect()
}

/// all stems occurring in `s` (after normalisation)
pub fn stems_in(s: &str) -> Vec<String> {
    let n: Vec<char> = normalise(s).chars().collect();
    let mut out = vec![];
    let mut i = 0;
    while i + 6 <= n.len() {
        if n[i] == 'q' && n[i + 1..i + 6].iter().all(|c| c.is_ascii_lowercase() && *c != 'q') {
            out.push(n[i..i + 6].iter().collect());
            i += 6;
        } else {
            i += 1;
        }
    }
    out
}

pub fn first_stem(s: &str) -> Option<String> {
    stems_in(s).into_iter().next()
}

pub fn cap(s: &str) -> String {
    let mut c = s.chars();
    match c.next() {
        Some(f) => f.to_uppercase().collect::<String>() + c.as_str(),
        None => String::new(),
    }
}

/// UpperCamelCase type / variant name around a stem
pub fn camel_name(stem: &str, rng: &mut Rng) -> String {
    match rng.below(4) {
        0 => cap(stem),
        1 => format!("{}{}", cap(stem), cap(word(rng))),
        2 => format!("{}{}", cap(word(rng)), cap(stem)),
        _ => format!("{}{}{}", cap(word(rng)), cap(stem), cap(word(rng))),
    }
}

/// snake_case field name around a stem
pub fn snake_name(stem: &str, rng: &mut Rng) -> String {
    match rng.below(7) {
        // a word that starts with a digit followed by letters (`enable_2fa`, `is_4k`)
        6 => format!("{}_{}{}", stem, rng.range(2, 9), rng.pick(&["fa", "d", "k", "x_mode"])),
        0 => stem.to_string(),
        // single-letter words in front (`r_g_b`, `x_y_offset`): a run of capitals once converted
        // (one such word alone puts the separator of a kebab-case wire name at the second character)
        5 => {
            if rng.coin() {
                format!("{}_{}_{}", rng.pick(&["r", "x", "u", "a"]), rng.pick(&["g", "y", "v", "b"]), stem)
            } else {
                format!("{}_{}", rng.pick(&["r", "x", "u", "a"]), stem)
            }
        }
        1 => format!("{}_{}", stem, word(rng)),
        2 => format!("{}_{}", word(rng), stem),
        3 => format!("{}_{}_{}", word(rng), stem, word(rng)),
        _ => format!("{}{}", stem, rng.range(0, 9)),
    }
}

/// explicit serde(rename) value over [A-Za-z_][A-Za-z0-9_-]* around a stem
pub fn rename_value(stem: &str, rng: &mut Rng, allow_dash: bool) -> String {
    let w = word(rng);
    let forms: Vec<String> = vec![
        format!("{}{}", cap(stem), cap(w)),
        format!("{stem}{}", cap(w)),
        format!("{w}_{stem}"),
        format!("{}_{}", stem.to_uppercase(), w.to_uppercase()),
        format!("_{stem}"),
        format!("{stem}9"),
        format!("{w}-{stem}"),
        format!("{}-{}-x", stem.to_uppercase(), w),
        format!("{}-{stem}", &w[..1]),
    ];
    let n = if allow_dash { forms.len() } else { forms.len() - 3 };
    forms[rng.below(n)].clone()
}

pub const PRIMS: [&str; 15] = ["bool", "char", "String", "&str", "i8", "i16", "i32", "u8", "u16", "u32", "I54", "U53", "f32", "f64", "isize_placeholder"];
pub const SUPPORTED_PRIMS: [&str; 14] = ["bool", "char", "String", "&str", "i8", "i16", "i32", "u8", "u16", "u32", "I54", "U53", "f32", "f64"];
pub const KEY_PRIMS: [&str; 6] = ["String", "&str", "i32", "u32", "u8", "char"];
pub const PLAIN_WRAPPERS: [&str; 8] = ["Box", "Arc", "Rc", "Cow", "Cell", "RefCell", "Mutex", "RwLock"];

#[derive(Clone, Debug)]
pub struct TyCtx {
    /// user types that may be referenced: (rust ident, number of generic parameters)
    pub users: Vec<(String, usize)>,
    /// generic parameters in scope
    pub params: Vec<String>,
    pub allow_unit: bool,
    pub allow_wrappers: bool,
    pub allow_arrays: bool,
    pub allow_option: bool,
    pub allow_datetime: bool,
    pub allow_map: bool,
    /// arrays of length 0 as well (`[T; 0]`: serde writes `[]`)
    pub zero_len_arrays: bool,
}

impl Default for TyCtx {
    fn default() -> Self {
        TyCtx { users: vec![], params: vec![], allow_unit: true, allow_wrappers: true, allow_arrays: true, allow_option: true, allow_datetime: false, allow_map: true, zero_len_arrays: false }
    }
}

pub fn gen_leaf(rng: &mut Rng, cx: &TyCtx) -> Ty {
    let mut choices = 10;
    if !cx.users.is_empty() {
        choices += 5;
    }
    if !cx.params.is_empty() {
        choices += 3;
    }
    let r = rng.below(choices + if cx.allow_unit { 1 } else { 0 } + if cx.allow_datetime { 1 } else { 0 });
    if r < 10 {
        return Ty::Prim(*rng.pick(&SUPPORTED_PRIMS));
    }
    let mut r = r - 10;
    if !cx.users.is_empty() {
        if r < 5 {
            let (n, k) = rng.pick(&cx.users).clone();
            let mut leafcx = cx.clone();
            leafcx.users.clear();
            let args = (0..k).map(|_| gen_leaf(rng, &leafcx)).collect();
            return Ty::User(n, args);
        }
        r -= 5;
    }
    if !cx.params.is_empty() {
        if r < 3 {
            return Ty::Param(rng.pick(&cx.params).clone());
        }
        r -= 3;
    }
    if cx.allow_unit && r == 0 {
        return Ty::Unit;
    }
    if cx.allow_datetime {
        return Ty::DateTime;
    }
    Ty::Prim("String")
}

pub fn gen_key(rng: &mut Rng) -> Ty {
    Ty::Prim(*rng.pick(&KEY_PRIMS))
}

/// random type expression of at most `depth` constructor levels
pub fn gen_ty(rng: &mut Rng, cx: &TyCtx, depth: usize) -> Ty {
    if depth == 0 || rng.chance(1, 4) {
        return gen_leaf(rng, cx);
    }
    let mut kinds: Vec<u8> = vec![0, 0]; // Vec twice as likely
    if cx.allow_arrays {
        kinds.extend([1, 2]);
    }
    if cx.allow_option {
        kinds.push(3);
    }
    if cx.allow_map {
        kinds.push(4);
    }
    if cx.allow_wrappers {
        kinds.extend([5, 6]);
    }
    let generic_users: Vec<&(String, usize)> = cx.users.iter().filter(|u| u.1 > 0).collect();
    if !generic_users.is_empty() {
        kinds.push(7);
    }
    match *rng.pick(&kinds) {
        0 => Ty::Vec(Box::new(gen_ty(rng, cx, depth - 1))),
        1 => Ty::Array(Box::new(gen_ty(rng, cx, depth - 1)), rng.range(if cx.zero_len_arrays { 0 } else { 1 }, 4)),
        2 => Ty::Slice(Box::new(gen_ty(rng, cx, depth - 1))),
        3 => Ty::Opt(Box::new(gen_ty(rng, cx, depth - 1))),
        4 => Ty::Map(Box::new(gen_key(rng)), Box::new(gen_ty(rng, cx, depth - 1))),
        5 => Ty::Wrap(*rng.pick(&PLAIN_WRAPPERS), Box::new(gen_ty(rng, cx, depth - 1))),
        6 => Ty::Ref(Box::new(gen_ty(rng, cx, depth - 1))),
        _ => {
            let (n, k) = (*rng.pick(&generic_users)).clone();
            let args = (0..k).map(|_| gen_ty(rng, cx, depth - 1)).collect();
            Ty::User(n, args)
        }
    }
}

// ---------------------------------------------------------------------------------------------
// whole programs in the grammar every backend supports

#[derive(Clone, Debug)]
pub struct Profile {
    pub items: (usize, usize),
    pub fields: (usize, usize),
    pub type_depth: usize,
    pub generics: bool,
    pub type_renames: bool,
    pub field_renames: bool,
    pub rename_all: bool,
    pub dashed: bool,
    pub enums: bool,
    pub aliases: bool,
    pub consts: bool,
    pub docs: bool,
    pub decoys: bool,
    pub skips: bool,
    pub defaults: bool,
    pub mods: usize,
    pub refs: bool,
    pub unit: bool,
    pub datetime: bool,
    pub decorators: bool,
    pub keyword_fields: bool,
    pub wrappers: bool,
}

impl Profile {
    pub fn broad() -> Self {
        Profile {
            items: (2, 7),
            fields: (0, 5),
            type_depth: 3,
            generics: true,
            type_renames: false,
            field_renames: true,
            rename_all: true,
            dashed: true,
            enums: true,
            aliases: true,
            consts: false,
            docs: true,
            decoys: true,
            skips: true,
            defaults: true,
            mods: 2,
            refs: true,
            unit: true,
            datetime: false,
            decorators: true,
            keyword_fields: true,
            wrappers: true,
        }
    }
}

#[derive(Clone, Debug)]
pub struct Program {
    pub items: Vec<Item>,
    /// stem -> what it names ("item:<ident>", "field:<item>.<ident>", "variant:<item>.<ident>", "decoy:..", "skipped:..")
    pub stems: BTreeMap<String, String>,
}

pub const KEYWORD_FIELDS: [&str; 14] = ["type", "default", "class", "in", "is", "for", "self_", "return", "import", "func", "val", "object", "package", "None_"];

fn docs(rng: &mut Rng, p: &Profile) -> Vec<Doc> {
    if !p.docs || !rng.chance(1, 3) {
        return vec![];
    }
    let n = rng.range(1, 2);
    (0..n)
        .map(|_| Doc {
            text: format!(" {} {} {}", word(rng), rng.pick(&["holds", "is", "for", "of"]), word(rng)),
            style: *rng.pick(&[DocStyle::Line, DocStyle::Line, DocStyle::Attr]),
        })
        .collect()
}

fn gen_fields(rng: &mut Rng, p: &Profile, stems: &mut Stems, map: &mut BTreeMap<String, String>, owner: &str, cx: &TyCtx, n: usize, lang_safe_keywords: bool) -> Vec<Field> {
    let mut out = vec![];
    for _ in 0..n {
        let st = stems.fresh(rng);
        let mut f = Field::new(&snake_name(&st, rng), gen_ty(rng, cx, p.type_depth));
        if p.keyword_fields && lang_safe_keywords && rng.chance(1, 12) {
            // a raw identifier carrying the stem
            f.raw = true;
        }
        if p.field_renames && rng.chance(1, 4) {
            f.rename = Some(rename_value(&st, rng, p.dashed));
        }
        if p.defaults && rng.chance(1, 6) {
            f.default = true;
        }
        f.docs = docs(rng, p);
        if p.skips && rng.chance(1, 8) {
            f.skip = *rng.pick(&[Skip::Serde, Skip::Typeshare]);
            map.insert(st.clone(), format!("skipped-field:{owner}.{}", f.ident));
        } else {
            map.insert(st.clone(), format!("field:{owner}.{}", f.ident));
        }
        out.push(f);
    }
    out
}

/// A program all six backends are documented to support (subject to `lang` for consts / DateTime / generic enums).
pub fn gen_program(rng: &mut Rng, p: &Profile, lang: Option<LangId>) -> Program {
    let mut stems = Stems::default();
    let mut map = BTreeMap::new();
    let n = rng.range(p.items.0, p.items.1);
    let mut items: Vec<Item> = vec![];
    // later items may reference earlier ones (acyclic); order is shuffled afterwards
    let mut users: Vec<(String, usize)> = vec![];
    let generic_enum_ok = !matches!(lang, Some(LangId::Go) | Some(LangId::Python));
    let generic_alias_ok = !matches!(lang, Some(LangId::Go) | Some(LangId::Python));
    let const_ok = p.consts && lang.map(|l| l.supports_const()).unwrap_or(false);
    for _ in 0..n {
        let st = stems.fresh(rng);
        let ident = camel_name(&st, rng);
        let mut kinds: Vec<u8> = vec![0, 0, 0];
        if p.enums {
            kinds.extend([1, 2, 2]);
        }
        if p.aliases {
            kinds.extend([3, 4]);
        }
        if const_ok {
            kinds.push(5);
        }
        let k = *rng.pick(&kinds);
        let mut generics: Vec<String> = vec![];
        let allow_generics = p.generics && match k {
            0 => true,
            2 => generic_enum_ok,
            3 | 4 => generic_alias_ok,
            _ => false,
        };
        if allow_generics && rng.chance(1, 5) {
            generics = (0..rng.range(1, 2)).map(|i| ["T", "U"][i].to_string()).collect();
        }
        let cx = TyCtx {
            users: if p.refs { users.clone() } else { vec![] },
            params: generics.clone(),
            allow_unit: p.unit,
            allow_wrappers: p.wrappers,
            allow_datetime: p.datetime && matches!(lang, Some(LangId::Ts) | Some(LangId::Go) | Some(LangId::Python)),
            ..Default::default()
        };
        let mut it = match k {
            0 => {
                let nf = rng.range(p.fields.0, p.fields.1);
                let fs = gen_fields(rng, p, &mut stems, &mut map, &ident, &cx, nf, true);
                if fs.is_empty() && rng.coin() {
                    Item::new(&ident, Kind::UnitStruct)
                } else {
                    Item::new(&ident, Kind::Struct(fs))
                }
            }
            1 => {
                // unit enum
                let nv = rng.range(1, 6);
                let mut vs = vec![];
                for _ in 0..nv {
                    let vst = stems.fresh(rng);
                    let mut v = Variant::new(&camel_name(&vst, rng), VKind::Unit);
                    if p.field_renames && rng.chance(1, 5) {
                        v.rename = Some(rename_value(&vst, rng, p.dashed));
                    }
                    v.docs = docs(rng, p);
                    if p.skips && nv > 1 && rng.chance(1, 8) {
                        v.skip = *rng.pick(&[Skip::Serde, Skip::Typeshare]);
                        map.insert(vst, format!("skipped-variant:{ident}.{}", v.ident));
                    } else {
                        map.insert(vst, format!("variant:{ident}.{}", v.ident));
                    }
                    vs.push(v);
                }
                if vs.iter().all(|v| v.skip != Skip::No) {
                    vs[0].skip = Skip::No;
                    let vst = first_stem(&vs[0].ident).unwrap();
                    map.insert(vst, format!("variant:{ident}.{}", vs[0].ident));
                }
                Item::new(&ident, Kind::Enum { variants: vs, tag: None, content: None })
            }
            2 => {
                let nv = rng.range(1, 5);
                let mut vs = vec![];
                let mut has_data = false;
                for i in 0..nv {
                    let vst = stems.fresh(rng);
                    let force_data = i == nv - 1 && !has_data;
                    let kind = match if force_data { rng.range(1, 2) } else { rng.below(3) } {
                        0 => VKind::Unit,
                        1 => VKind::Newtype(gen_ty(rng, &cx, p.type_depth)),
                        _ => {
                            let nf = rng.range(1, 4);
                            VKind::Struct(gen_fields(rng, p, &mut stems, &mut map, &ident, &cx, nf, true))
                        }
                    };
                    let data = !matches!(kind, VKind::Unit);
                    let mut v = Variant::new(&camel_name(&vst, rng), kind);
                    if p.field_renames && rng.chance(1, 5) {
                        v.rename = Some(rename_value(&vst, rng, p.dashed));
                    }
                    if p.rename_all && matches!(v.kind, VKind::Struct(_)) && rng.chance(1, 4) {
                        v.rename_all = Some(rng.pick(&RULES).to_string());
                    }
                    v.docs = docs(rng, p);
                    // never skip the variant that makes the enum algebraic
                    if p.skips && !force_data && !data && rng.chance(1, 8) {
                        v.skip = *rng.pick(&[Skip::Serde, Skip::Typeshare]);
                        map.insert(vst, format!("skipped-variant:{ident}.{}", v.ident));
                    } else {
                        has_data |= data;
                        map.insert(vst, format!("variant:{ident}.{}", v.ident));
                    }
                    vs.push(v);
                }
                let (tag, content) = *rng.pick(&[("type", "content"), ("t", "c"), ("kind", "data"), ("tagKey", "contentKey"), ("tag_key", "payload")]);
                Item::new(&ident, Kind::Enum { variants: vs, tag: Some(tag.into()), content: Some(content.into()) })
            }
            3 => Item::new(&ident, Kind::Alias(gen_ty(rng, &cx, p.type_depth))),
            4 => Item::new(&ident, Kind::Newtype(gen_ty(rng, &cx, p.type_depth))),
            _ => {
                let (ty, expr) = match rng.below(3) {
                    0 => ("u32", rng.below(100000).to_string()),
                    1 => ("i32", rng.below(1000).to_string()),
                    _ => ("u8", rng.below(255).to_string()),
                };
                let mut c = Item::new(&format!("{}_{}", st.to_uppercase(), word(rng).to_uppercase()), Kind::Const { ty: Ty::Prim(ty), expr });
                c.ident = c.ident.replace('-', "_");
                c
            }
        };
        it.generics = generics.clone();
        // unused generic parameters are an error in rustc for structs/enums; typeshare does not care, keep them used when possible
        if p.rename_all && matches!(it.kind, Kind::Struct(_) | Kind::Enum { .. }) && rng.chance(1, 3) {
            it.rename_all = Some(rng.pick(&RULES).to_string());
        }
        if p.type_renames && !matches!(it.kind, Kind::Const { .. }) && rng.chance(1, 4) {
            it.rename = Some(format!("{}Renamed", cap(&st)));
        }
        it.docs = docs(rng, p);
        if p.decorators && rng.chance(1, 8) && !matches!(it.kind, Kind::Const { .. }) {
            it.ts_args.push(rng.pick(&["swift = \"Equatable\"", "swift = \"Equatable, Hashable\"", "kotlin = \"JvmInline\"", "redacted", "swiftGenericConstraints = \"T: Equatable\""]).to_string());
        }
        if rng.chance(1, 6) {
            it.annot = Annot::Qualified;
        }
        if p.mods > 0 && rng.chance(1, 4) {
            let d = rng.range(1, p.mods);
            it.mods = (0..d).map(|i| format!("m{}", i)).collect();
        }
        map.insert(st, format!("item:{}", it.ident));
        if !matches!(it.kind, Kind::Const { .. }) {
            users.push((it.ident.clone(), it.generics.len()));
        }
        items.push(it);
        // decoys
        if p.decoys && rng.chance(1, 4) {
            let dst = stems.fresh(rng);
            let dident = camel_name(&dst, rng);
            let fst = stems.fresh(rng);
            let mut d = Item::new(&dident, Kind::Struct(vec![Field::new(&snake_name(&fst, rng), Ty::Prim("u32"))]));
            d.annot = Annot::None;
            map.insert(dst, format!("decoy:{dident}"));
            map.insert(fst, format!("decoy-field:{dident}"));
            items.push(d);
        }
    }
    // items with the same mods must be contiguous for render_file to group them; sort by mods, shuffle inside
    rng.shuffle(&mut items);
    items.sort_by(|a, b| a.mods.cmp(&b.mods));
    Program { items, stems: map }
}

impl Program {
    pub fn render(&self, rng: &mut Rng, o: &RenderOpts) -> String {
        render_file(&self.items, &[], &[], o, rng)
    }
}

pub fn word(rng: &mut Rng) -> &'static str {
    WORDS[rng.below(WORDS.len())]
}
