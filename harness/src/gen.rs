// placeholder
