pub mod serde_case;
pub mod serde_real;
