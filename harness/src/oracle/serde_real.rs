//! Ground truth from the real serde: generated programs (rendered without typeshare attributes) are
//! compiled against serde_derive / serde_json exactly as /repo/Cargo.lock pins them, values are
//! serialised by a generated `main`, and the printed JSON is what serde really does.
use crate::report::Ctx;
use serde_json::Value;
use std::collections::BTreeMap;
use std::path::PathBuf;
use std::process::Command;

pub struct OracleProgram {
    /// Rust items (no `use` lines needed: the module gets a prelude)
    pub module_src: String,
    /// (label, Rust expression evaluating to a Serialize value, written relative to the module)
    pub values: Vec<(String, String)>,
}

pub struct OracleOut {
    /// program index -> label -> JSON
    pub json: Vec<BTreeMap<String, Value>>,
    pub build_s: f64,
    pub crates: usize,
}

fn crate_dir(ctx: &Ctx, name: &str, k: usize) -> PathBuf {
    ctx.build.join(format!("oracle-{}-{}-{}", name, ctx.tag, k))
}

fn ensure_crate(ctx: &Ctx, dir: &PathBuf) {
    std::fs::create_dir_all(dir.join("src")).expect("mkdir oracle");
    let manifest = "[package]\nname = \"serde_oracle\"\nversion = \"0.1.0\"\nedition = \"2021\"\n\n[workspace]\n\n[dependencies]\nserde = { version = \"1\", features = [\"derive\"] }\nserde_json = \"1\"\n\n[profile.dev]\nopt-level = 0\ndebug = 0\nincremental = false\n";
    let mp = dir.join("Cargo.toml");
    if std::fs::read_to_string(&mp).ok().as_deref() != Some(manifest) {
        std::fs::write(&mp, manifest).expect("write manifest");
    }
    let lock = dir.join("Cargo.lock");
    if !lock.exists() {
        std::fs::copy(ctx.repo.join("Cargo.lock"), &lock).expect("copy Cargo.lock");
    }
}

/// Compile and run; programs are spread over `crates` cargo projects built in parallel.
/// Err(text) = the oracle itself failed (rustc rejected a generated program): a harness error.
pub fn run(ctx: &Ctx, name: &str, programs: &[OracleProgram], crates: usize) -> Result<OracleOut, String> {
    let start = std::time::Instant::now();
    // memory bound: one rustc over ~1 250 derive-heavy modules needs > 5 GB, sixteen of them at once were OOM-killed
    // on a loaded machine. Programs go into chunks of <= 250 modules; at most 8 workers build at a time, each reusing
    // its own cargo project; a build killed by a signal is retried (twice) before it counts as an oracle failure.
    let per = 250usize;
    let n_chunks = (programs.len() + per - 1) / per;
    let workers = crates.max(1).min(8).min(n_chunks.max(1));
    let crates = n_chunks;
    let results: Vec<Result<Vec<(usize, String, String)>, String>> = std::thread::scope(|s| {
        let mut hs = vec![];
        for k in 0..workers {
            hs.push(s.spawn(move || -> Result<Vec<(usize, String, String)>, String> {
                let mut out = vec![];
                let dir = crate_dir(ctx, name, k);
                ensure_crate(ctx, &dir);
                let mut chunk = k;
                while chunk < n_chunks {
                    let lo = chunk * per;
                    let hi = ((chunk + 1) * per).min(programs.len());
                    chunk += workers;
                    let slice = &programs[lo..hi];
                    let mut src = String::from("#![allow(dead_code, unused_imports, non_snake_case, non_camel_case_types, unused_variables, non_upper_case_globals)]\n");
                    for (i, p) in slice.iter().enumerate() {
                        src.push_str(&format!("mod p{} {{\n    use serde::Serialize;\n    use std::collections::HashMap;\n", lo + i));
                        src.push_str(&p.module_src);
                        src.push_str("\n}\n");
                    }
                    src.push_str("fn main() {\n    use std::io::Write;\n    let out = std::io::stdout();\n    let mut out = std::io::BufWriter::new(out.lock());\n");
                    for (i, p) in slice.iter().enumerate() {
                        src.push_str(&format!("    {{\n        use p{}::*;\n", lo + i));
                        for (label, expr) in &p.values {
                            src.push_str(&format!(
                                "        writeln!(out, \"{}\\t{}\\t{{}}\", serde_json::to_string(&{}).unwrap()).unwrap();\n",
                                lo + i,
                                label.replace('\\', "\\\\").replace('"', "\\\"").replace('{', "{{").replace('}', "}}"),
                                expr
                            ));
                        }
                        src.push_str("    }\n");
                    }
                    src.push_str("}\n");
                    std::fs::write(dir.join("src/main.rs"), &src).map_err(|e| e.to_string())?;
                    let target = ctx.build.join(format!("oracle-target-{}", ctx.tag)).join(format!("{name}-{k}"));
                    let mut attempt = 0;
                    loop {
                        let b = Command::new("cargo").args(["build", "--offline", "--quiet"]).current_dir(&dir).env("CARGO_TARGET_DIR", &target).env_remove("RUSTFLAGS").output().map_err(|e| e.to_string())?;
                        if b.status.success() {
                            break;
                        }
                        let err = String::from_utf8_lossy(&b.stderr).into_owned();
                        attempt += 1;
                        if err.contains("signal:") && attempt <= 2 {
                            std::thread::sleep(std::time::Duration::from_secs(10 * attempt));
                            continue;
                        }
                        return Err(format!("oracle crate {k} (programs {lo}..{hi}) failed to build:\n{}", err.chars().take(3000).collect::<String>()));
                    }
                    let exe = target.join("debug/serde_oracle");
                    let r = Command::new(&exe).output().map_err(|e| e.to_string())?;
                    if !r.status.success() {
                        return Err(format!("oracle binary {k} failed: {}", String::from_utf8_lossy(&r.stderr)));
                    }
                    for line in String::from_utf8_lossy(&r.stdout).lines() {
                        let mut it = line.splitn(3, '\t');
                        let (Some(a), Some(b), Some(c)) = (it.next(), it.next(), it.next()) else { continue };
                        out.push((a.parse::<usize>().unwrap_or(usize::MAX), b.to_string(), c.to_string()));
                    }
                }
                Ok(out)
            }));
        }
        hs.into_iter().map(|h| h.join().unwrap()).collect()
    });
    let mut json: Vec<BTreeMap<String, Value>> = vec![BTreeMap::new(); programs.len()];
    for r in results {
        for (i, label, text) in r? {
            if i < json.len() {
                let v: Value = serde_json::from_str(&text).map_err(|e| format!("oracle printed invalid JSON {text}: {e}"))?;
                json[i].insert(label, v);
            }
        }
    }
    Ok(OracleOut { json, build_s: start.elapsed().as_secs_f64(), crates })
}
