#!/usr/bin/env python3
"""Facts about generated Python modules, recovered with CPython itself.

usage: pycheck.py <in.json> <out.json>
in : [{"id": .., "source": .., "exec": bool}]
out: [{"id": .., "syntax_ok": bool, "syntax_error": str, "defs": [...], "imports": [...],
       "unresolved": [...], "exec": {...}, "spans": [[start, end, kind]], "order": [...]}]
Only the standard library is used; `pydantic` is the stub package next to this file.
"""
import ast
import builtins
import io
import json
import os
import sys
import tokenize

HERE = os.path.dirname(os.path.abspath(__file__))
sys.path.insert(0, os.path.join(HERE, "stubs"))


def texpr(node):
    """annotation AST -> TypeExpr json"""
    if node is None:
        return {"k": "other", "v": "<none>"}
    if isinstance(node, ast.Constant):
        if node.value is None:
            return {"k": "name", "n": "None", "a": []}
        if isinstance(node.value, str):
            # string annotation: parse it
            try:
                return texpr(ast.parse(node.value, mode="eval").body)
            except SyntaxError:
                return {"k": "other", "v": repr(node.value)}
        return {"k": "lit", "v": repr(node.value)}
    if isinstance(node, ast.Name):
        return {"k": "name", "n": node.id, "a": []}
    if isinstance(node, ast.Attribute):
        return {"k": "name", "n": dotted(node), "a": []}
    if isinstance(node, ast.Subscript):
        base = dotted(node.value)
        sl = node.slice
        args = list(sl.elts) if isinstance(sl, ast.Tuple) else [sl]
        if base in ("List", "list", "typing.List", "Sequence") and len(args) == 1:
            return {"k": "seq", "t": texpr(args[0])}
        if base in ("Dict", "dict", "typing.Dict", "Mapping") and len(args) == 2:
            return {"k": "map", "a": texpr(args[0]), "b": texpr(args[1])}
        if base in ("Optional", "typing.Optional") and len(args) == 1:
            return {"k": "opt", "t": texpr(args[0])}
        if base in ("Union", "typing.Union"):
            return {"k": "union", "a": [texpr(a) for a in args]}
        if base in ("Literal", "typing.Literal"):
            return {"k": "lit", "v": ast.unparse(sl)}
        if base in ("Annotated", "typing.Annotated") and args:
            inner = texpr(args[0])
            inner = dict(inner)
            inner["annotated"] = [ast.unparse(a) for a in args[1:]]
            return inner
        return {"k": "name", "n": base, "a": [texpr(a) for a in args]}
    if isinstance(node, ast.BinOp) and isinstance(node.op, ast.BitOr):
        return {"k": "union", "a": [texpr(node.left), texpr(node.right)]}
    return {"k": "other", "v": ast.unparse(node)}


def dotted(node):
    if isinstance(node, ast.Name):
        return node.id
    if isinstance(node, ast.Attribute):
        return dotted(node.value) + "." + node.attr
    return ast.unparse(node)


def names_in(node):
    """all Name loads inside an expression (string annotations are parsed)"""
    out = []
    if node is None:
        return out
    for n in ast.walk(node):
        if isinstance(n, ast.Name):
            out.append(n.id)
        elif isinstance(n, ast.Constant) and isinstance(n.value, str) and n is not node:
            pass
    return out


def line_offsets(src_bytes):
    offs = [0]
    for i, b in enumerate(src_bytes):
        if b == 10:
            offs.append(i + 1)
    return offs


def analyse(item):
    src = item["source"]
    res = {"id": item["id"], "syntax_ok": True, "syntax_error": None, "defs": [], "imports": [],
           "unresolved": [], "exec": None, "spans": [], "order": [], "eager_undefined": []}
    try:
        tree = ast.parse(src)
        compile(src, "<generated>", "exec")
    except SyntaxError as e:
        res["syntax_ok"] = False
        res["syntax_error"] = f"{type(e).__name__}: {e.msg} (line {e.lineno})"
        return res
    except ValueError as e:  # e.g. null bytes
        res["syntax_ok"] = False
        res["syntax_error"] = f"ValueError: {e}"
        return res

    src_bytes = src.encode("utf-8")
    offs = line_offsets(src_bytes)
    lines = src.split("\n")

    def boff(lineno, col_chars):
        # tokenize gives columns in characters; convert to bytes
        line = lines[lineno - 1] if lineno - 1 < len(lines) else ""
        return offs[lineno - 1] + len(line[:col_chars].encode("utf-8"))

    # comment / docstring spans for C15
    doc_lines = set()
    for n in ast.walk(tree):
        if isinstance(n, ast.Expr) and isinstance(n.value, ast.Constant) and isinstance(n.value.value, str):
            doc_lines.add((n.value.lineno, n.value.col_offset))
    try:
        for tok in tokenize.generate_tokens(io.StringIO(src).readline):
            if tok.type == tokenize.COMMENT:
                res["spans"].append([boff(*tok.start), boff(*tok.end), "comment"])
            elif tok.type == tokenize.STRING:
                # ast col_offset is in utf8 bytes, tokenize in chars
                line = lines[tok.start[0] - 1]
                bcol = len(line[:tok.start[1]].encode("utf-8"))
                kind = "docstring" if (tok.start[0], bcol) in doc_lines else "string"
                res["spans"].append([boff(*tok.start), boff(*tok.end), kind])
    except (tokenize.TokenError, IndentationError) as e:
        res["syntax_ok"] = False
        res["syntax_error"] = f"tokenize: {e}"
        return res

    defined = set(dir(builtins))
    imported = set()
    module_defs = []  # (name, lineno)
    used = []  # (name, lineno, eager)
    classes = {}

    for st in tree.body:
        if isinstance(st, ast.ImportFrom):
            names = [a.asname or a.name for a in st.names]
            res["imports"].append([st.module or "", names])
            imported.update(names)
        elif isinstance(st, ast.Import):
            for a in st.names:
                nm = (a.asname or a.name).split(".")[0]
                res["imports"].append([a.name, [nm]])
                imported.add(nm)

    for st in tree.body:
        if isinstance(st, ast.ClassDef):
            module_defs.append((st.name, st.lineno))
            d = {"kind": "Struct", "name": st.name, "generics": [], "fields": [], "variants": [], "bases": [],
                 "line": st.lineno, "start": offs[st.lineno - 1], "doc": ast.get_docstring(st), "issues": []}
            for b in st.bases:
                d["bases"].append(ast.unparse(b))
                for nm in names_in(b):
                    used.append((nm, st.lineno, True))
                if isinstance(b, ast.Subscript) and dotted(b.value) == "Generic":
                    sl = b.slice
                    d["generics"] = [ast.unparse(x) for x in (sl.elts if isinstance(sl, ast.Tuple) else [sl])]
            is_enum = any(ast.unparse(b) == "Enum" for b in st.bases)
            if is_enum:
                d["kind"] = "UnitEnum"
            for m in st.body:
                if isinstance(m, ast.AnnAssign) and isinstance(m.target, ast.Name):
                    ident = m.target.id
                    t = texpr(m.annotation)
                    for nm in names_in(m.annotation):
                        used.append((nm, m.lineno, False))
                    if isinstance(m.annotation, ast.Constant) and isinstance(m.annotation.value, str):
                        try:
                            for nm in names_in(ast.parse(m.annotation.value, mode="eval")):
                                used.append((nm, m.lineno, False))
                        except SyntaxError:
                            d["issues"].append(f"unparsable string annotation on {ident}")
                    markers = []
                    wire = ident
                    default_src = None
                    if m.value is not None:
                        default_src = ast.unparse(m.value)
                        for nm in names_in(m.value):
                            used.append((nm, m.lineno, True))
                        if isinstance(m.value, ast.Call) and dotted(m.value.func) == "Field":
                            for kw in m.value.keywords:
                                if kw.arg == "alias" and isinstance(kw.value, ast.Constant):
                                    wire = kw.value.value
                                if kw.arg == "default":
                                    markers.append("default=" + ast.unparse(kw.value))
                        elif isinstance(m.value, ast.Constant) and m.value.value is None:
                            markers.append("=None")
                    if t.get("k") == "opt":
                        markers.append("Optional")
                        ann = t.get("annotated")
                        t = t["t"]
                        if ann:
                            t = dict(t)
                            t["annotated"] = ann
                    elif t.get("annotated") and t.get("k") == "opt":
                        pass
                    d["fields"].append({"ident": ident, "wire_key": wire, "type": t, "markers": markers,
                                        "default": default_src, "start": offs[m.lineno - 1]})
                elif isinstance(m, ast.Assign) and len(m.targets) == 1 and isinstance(m.targets[0], ast.Name):
                    tname = m.targets[0].id
                    for nm in names_in(m.value):
                        used.append((nm, m.lineno, True))
                    if is_enum:
                        val = m.value.value if isinstance(m.value, ast.Constant) else ast.unparse(m.value)
                        d["variants"].append({"ident": tname, "wire_name": val, "start": offs[m.lineno - 1]})
                    elif tname != "model_config":
                        d["issues"].append(f"unexpected class attribute {tname}")
                elif isinstance(m, (ast.Pass, ast.Expr)):
                    pass
                elif isinstance(m, ast.FunctionDef):
                    pass
                else:
                    d["issues"].append("unexpected class member " + type(m).__name__)
            classes[st.name] = d
            res["defs"].append(d)
        elif isinstance(st, ast.Assign) and len(st.targets) == 1:
            tgt = st.targets[0]
            for nm in names_in(st.value):
                used.append((nm, st.lineno, True))
            if isinstance(tgt, ast.Name):
                module_defs.append((tgt.id, st.lineno))
                if isinstance(st.value, ast.Call) and dotted(st.value.func) == "TypeVar":
                    res["defs"].append({"kind": "Helper", "name": tgt.id, "typevar": True, "line": st.lineno,
                                        "start": offs[st.lineno - 1]})
                else:
                    res["defs"].append({"kind": "Alias", "name": tgt.id, "generics": [], "target": texpr(st.value),
                                        "line": st.lineno, "start": offs[st.lineno - 1]})
            elif isinstance(tgt, ast.Subscript) and isinstance(tgt.value, ast.Name):
                # `Name[T] = ...` : assignment to a subscript of an (undefined) name
                for nm in names_in(tgt):
                    used.append((nm, st.lineno, True))
                sl = tgt.slice
                res["defs"].append({"kind": "Alias", "name": tgt.value.id,
                                    "generics": [ast.unparse(x) for x in (sl.elts if isinstance(sl, ast.Tuple) else [sl])],
                                    "target": texpr(st.value), "line": st.lineno, "start": offs[st.lineno - 1],
                                    "subscript_assignment": True})
        elif isinstance(st, ast.AnnAssign) and isinstance(st.target, ast.Name):
            module_defs.append((st.target.id, st.lineno))
            for nm in names_in(st.annotation):
                used.append((nm, st.lineno, False))
            res["defs"].append({"kind": "Const", "name": st.target.id, "const_type": texpr(st.annotation),
                                "const_value": ast.unparse(st.value) if st.value is not None else None,
                                "line": st.lineno, "start": offs[st.lineno - 1]})
        elif isinstance(st, ast.FunctionDef):
            module_defs.append((st.name, st.lineno))
            res["defs"].append({"kind": "Helper", "name": st.name, "func": True, "line": st.lineno,
                                "start": offs[st.lineno - 1]})
            local = {a.arg for a in st.args.args}
            for n in ast.walk(st):
                if isinstance(n, ast.Name) and isinstance(n.ctx, ast.Store):
                    local.add(n.id)
            for n in ast.walk(st):
                if isinstance(n, ast.Name) and isinstance(n.ctx, ast.Load) and n.id not in local:
                    used.append((n.id, n.lineno, False))
                if isinstance(n, (ast.comprehension,)):
                    for t in ast.walk(n.target):
                        if isinstance(t, ast.Name):
                            local.add(t.id)
        elif isinstance(st, (ast.ImportFrom, ast.Import, ast.Expr, ast.Pass)):
            pass
        else:
            res["defs"].append({"kind": "Helper", "name": "<" + type(st).__name__ + ">", "line": st.lineno,
                                "start": offs[st.lineno - 1], "unexpected": True})

    # tagged enums: alias to Union[...] (or a single class) of classes whose first field is a Literal tag
    for d in res["defs"]:
        if d.get("kind") != "Alias":
            continue
        t = d["target"]
        members = None
        if t.get("k") == "union":
            members = t["a"]
        elif t.get("k") == "name" and not t["a"] and t["n"] in classes:
            members = [t]
        if not members or not all(m.get("k") == "name" and m["n"] in classes for m in members):
            continue
        vs = []
        ok = True
        for m in members:
            c = classes[m["n"]]
            if not c["fields"] or c["fields"][0]["type"].get("k") != "lit":
                ok = False
                break
            tagf = c["fields"][0]
            lit = tagf["type"]["v"]  # e.g. FooTypes.BAR
            wire = None
            if "." in lit:
                en, mem = lit.split(".", 1)
                if en in classes:
                    for v in classes[en]["variants"]:
                        if v["ident"] == mem:
                            wire = v["wire_name"]
                    classes[en]["kind"] = "Helper"
            elif lit.startswith(("'", '"')):
                wire = ast.literal_eval(lit)
            v = {"ident": m["n"], "wire_name": wire, "tag_key": tagf["wire_key"], "tag_default": tagf.get("default"),
                 "tag_literal": lit, "start": c["start"], "content_key": None, "payload": None, "markers": []}
            if len(c["fields"]) >= 2:
                cf = c["fields"][1]
                v["content_key"] = cf["wire_key"]
                v["payload"] = cf["type"]
                v["markers"] = cf["markers"]
            if len(c["fields"]) > 2:
                c["issues"].append("variant class with more than tag and content")
            vs.append(v)
        if ok:
            d["kind"] = "TaggedEnum"
            d["variants"] = vs
            for m in members:
                classes[m["n"]]["kind"] = "Helper"
                classes[m["n"]]["variant_of"] = d["name"]

    res["order"] = [[d["name"], d["kind"]] for d in res["defs"]]
    known = defined | imported | {n for n, _ in module_defs}
    res["unresolved"] = sorted({n for n, _, _ in used if n not in known})
    first_def = {}
    for n, ln in module_defs:
        first_def.setdefault(n, ln)
    res["eager_undefined"] = sorted({n for n, ln, eager in used
                                     if eager and n in first_def and first_def[n] > ln and n not in imported})

    if item.get("exec"):
        ns = {"__name__": "generated"}
        try:
            exec(compile(src, "<generated>", "exec"), ns)
            res["exec"] = {"ok": True}
        except BaseException as e:  # noqa
            res["exec"] = {"ok": False, "error_type": type(e).__name__, "error": str(e)[:300]}
    return res


def main():
    items = json.load(open(sys.argv[1]))
    out = []
    for it in items:
        try:
            out.append(analyse(it))
        except RecursionError:
            out.append({"id": it["id"], "syntax_ok": True, "harness_error": "RecursionError"})
        except Exception as e:  # harness problem, reported as inconclusive by the caller
            import traceback
            out.append({"id": it["id"], "syntax_ok": True, "harness_error": traceback.format_exc()[-800:]})
    json.dump(out, open(sys.argv[2], "w"))


if __name__ == "__main__":
    main()
