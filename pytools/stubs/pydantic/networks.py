class AnyUrl(str):
    pass
