"""Minimal stand-in for pydantic v2: enough for generated modules to import and build their classes."""
from typing import Any


class _ModelMeta(type):
    pass


class BaseModel(metaclass=_ModelMeta):
    model_config: dict = {}

    def __init__(self, **data: Any) -> None:
        for k, v in data.items():
            setattr(self, k, v)

    def __class_getitem__(cls, item):
        return cls


class _FieldInfo:
    def __init__(self, **kw):
        self.kw = kw


def Field(*args, **kw):
    return _FieldInfo(**kw)


def ConfigDict(**kw):
    return dict(kw)


class BeforeValidator:
    def __init__(self, func):
        if not callable(func):
            raise TypeError("BeforeValidator needs a callable")
        self.func = func


class PlainSerializer:
    def __init__(self, func, **kw):
        if not callable(func):
            raise TypeError("PlainSerializer needs a callable")
        self.func = func


class AfterValidator(BeforeValidator):
    pass
