#!/usr/bin/env bash
# Developer tool: every check at several seeds on the current tree; anything but exit 0 is printed.
# usage: tools/seed_sweep.sh <tier> <seed>...
cd /verif; tier=$1; shift
for s in "$@"; do for i in $(seq -w 1 20); do
  out=$(VERIF_SEED=$s ./check C$i $tier 2>&1); code=$?
  echo "seed=$s C$i exit=$code $(echo "$out" | grep SUMMARY | sed 's/.*evaluations/evaluations/')"
  [ $code -ne 0 ] && echo "$out" | grep -E "VIOLATION|violation signature|HARNESS" | head -5
done; done
