#!/usr/bin/env python3
"""Developer tool (never called by a check): append known-finding entries.
usage: add_known.py <property> <file with lines 'signature :: what'> [note]"""
import json, sys
prop, path = sys.argv[1], sys.argv[2]
note = sys.argv[3] if len(sys.argv) > 3 else ""
kf = json.load(open('/verif/known_findings.json'))
have = {(f['property'], f['signature']) for f in kf['findings']}
for line in open(path):
    line = line.strip()
    if not line or line.startswith('SUMMARY'):
        continue
    sig, _, what = line.partition(' :: ')
    if (prop, sig) in have:
        continue
    kf['findings'].append({"property": prop, "signature": sig, "status": "known",
                           "what": (note + " e.g. " if note else "") + what})
json.dump(kf, open('/verif/known_findings.json', 'w'), indent=1)
print(len(kf['findings']), "entries")
