#!/usr/bin/env bash
# Developer tool: for every `fix:` commit of /repo, revert it in a scratch worktree and run the check of the
# property it repaired; the check must report the violation again (exit 1). usage: tools/revert_matrix.sh [commit...]
set -u
WT=/tmp/wt-rv
LOG=/verif/.build/revert-logs; mkdir -p "$LOG"
[ -d "$WT" ] || git -C /repo worktree add -q --detach "$WT" HEAD
head=$(git -C /repo rev-parse HEAD)
pairs=$(python3 - "$@" <<'PY'
import json,sys,re
d=json.load(open('/verif/known_findings.json'))
want=set(sys.argv[1:])
seen=set()
for f in d['findings']:
    if f.get('status')!='fixed': continue
    for c in re.findall(r'\b[0-9a-f]{7}\b', f.get('commit','')):
        if want and c not in want: continue
        if (f['property'],c) in seen: continue
        seen.add((f['property'],c)); print(f['property'],c)
PY
)
while read -r prop commit; do
  [ -n "$prop" ] || continue
  cd "$WT" && git checkout -q -- . && git clean -qfd -e target && git checkout -q --detach "$head"
  if ! git revert --no-commit "$commit" >/dev/null 2>&1; then
    git revert --abort >/dev/null 2>&1; git checkout -q -- .
    echo "$prop $commit revert-conflicts (later fixes touch the same lines)"; continue
  fi
  cd /verif
  VERIF_REPO="$WT" ./check "$prop" quick >"$LOG/$prop.$commit.log" 2>&1; code=$?
  echo "$prop $commit exit=$code new_signatures=$(grep -c 'violation signature' "$LOG/$prop.$commit.log") :: $(grep -m1 'violation signature' "$LOG/$prop.$commit.log" | cut -c1-160)"
  cd "$WT" && git revert --abort >/dev/null 2>&1; git checkout -q -- .
done <<<"$pairs"
