#!/usr/bin/env python3
"""Developer tool: (re)write seeded/<name>/meta.json from agent_meta.json and the last mutant matrix
(.build/seeded-logs/matrix.txt). Hand-set fields (rebased, obsolete_after_fix, checks, notes, first_round_result) are kept."""
import json, os, re, glob
root = '/verif/seeded'
matrix = {}
mp = '/verif/.build/seeded-logs/matrix.txt'
if os.path.exists(mp):
    for line in open(mp):
        m = re.match(r'(\S+) (\S+) exit=(\d+) new_signatures=(\d+) ::\s*(?:violation signature: )?(.*?)(?: :: .*)?$', line.strip())
        if m:
            matrix.setdefault(m.group(1), {})[m.group(2)] = {
                'violation_reported': m.group(3) == '1', 'new_signatures': int(m.group(4)), 'example_signature': m.group(5).strip()}
for d in sorted(glob.glob(root + '/*/')):
    name = os.path.basename(d.rstrip('/'))
    mpath = d + 'meta.json'
    meta = json.load(open(mpath)) if os.path.exists(mpath) else {}
    agent = json.load(open(d + 'agent_meta.json')) if os.path.exists(d + 'agent_meta.json') else {}
    prop = re.match(r'(C\d+)', name).group(1)
    meta.setdefault('property', prop)
    meta['name'] = name
    for k in ('summary', 'needs', 'files_changed'):
        if k in agent and k not in meta:
            meta[k] = agent[k]
    sfx = re.match(r'C\d+([a-z]?)-', name).group(1)
    meta['round'] = 1 if not sfx else ord(sfx) - ord('a') + 1
    meta.setdefault('origin', 'written by a fresh sub-agent that saw only the property text and its own scratch worktree of /repo (nothing from /verif)')
    meta.setdefault('confirmed_by_me', [
        'patch applies with git apply at the repository root',
        'demo/run.sh <root> exits 0 on the unmodified tree and non-zero with the patch applied (tools/try_seeded.sh)',
        'cargo test --workspace --no-fail-fast --offline with the patch: 370 unit/snapshot tests pass (25+7+27+10+301), only the pre-existing typeshare-core doctest fails'])
    if name in matrix:
        meta['checks_run_against_it'] = matrix[name]
    checks = meta.get('checks', [prop])
    meta['how_to_rerun'] = f"tools/run_mutant.sh {name} {' '.join(checks)}   (applies patch.diff in scratch worktree /tmp/wt-m, runs ./check with VERIF_REPO=/tmp/wt-m, reverts)"
    json.dump(meta, open(mpath, 'w'), indent=1, ensure_ascii=False)
    caught = [c for c, r in meta.get('checks_run_against_it', {}).items() if r.get('violation_reported')]
    print(name, 'obsolete' if meta.get('obsolete_after_fix') else ('caught by ' + ','.join(caught) if caught else 'NOT CAUGHT'))
