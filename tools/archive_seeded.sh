#!/usr/bin/env bash
# usage: tools/archive_seeded.sh <worktree> <PROPERTY-ID> <name>   -> /verif/seeded/<name>/
set -eu
WT="$1"; PID="$2"; NAME="$3"
D=/verif/seeded/$NAME; rm -rf "$D"; mkdir -p "$D"
cp "$WT/SEEDED/patch.diff" "$D/patch.diff"
cp -r "$WT/SEEDED/demo" "$D/demo"
cp "$WT/SEEDED/meta.json" "$D/agent_meta.json" 2>/dev/null || echo '{}' > "$D/agent_meta.json"
echo "archived $D"
