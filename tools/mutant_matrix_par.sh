#!/usr/bin/env bash
# Developer tool: tools/mutant_matrix.sh with K parallel workers (one scratch worktree each).
# usage: tools/mutant_matrix_par.sh [K]   -> /verif/.build/seeded-logs/matrix.txt, then seeded_meta.py
cd /verif
K=${1:-4}
mkdir -p .build/seeded-logs
ls -d seeded/*/ | sed 's#seeded/##; s#/##' > .build/seeded-logs/all.txt
worker() {
  k=$1
  export MUTANT_WT=/tmp/wt-mxp$k
  : > .build/seeded-logs/matrix-$k.txt
  awk -v k=$k -v K=$K 'NR % K == k' .build/seeded-logs/all.txt | while read -r name; do
    d=seeded/$name
    if grep -q obsolete_after_fix "$d/meta.json" 2>/dev/null; then echo "$name obsolete (see meta.json)" >> .build/seeded-logs/matrix-$k.txt; continue; fi
    prop=$(echo "$name" | grep -oE '^C[0-9]+')
    checks=$(python3 -c "import json,sys; print(' '.join(json.load(open('$d/meta.json')).get('checks', ['$prop'])))" 2>/dev/null || echo "$prop")
    tools/run_mutant.sh "$name" $checks >> .build/seeded-logs/matrix-$k.txt 2>&1
  done
  git -C /repo worktree remove --force $MUTANT_WT 2>/dev/null
}
for k in $(seq 0 $((K-1))); do worker $k & done
wait
cat .build/seeded-logs/matrix-*.txt | sort > .build/seeded-logs/matrix.txt
python3 tools/seeded_meta.py | grep -v "caught by" 
echo "matrix done: $(grep -c 'exit=1' .build/seeded-logs/matrix.txt) caught, $(grep -c 'exit=0' .build/seeded-logs/matrix.txt) silent, $(grep -c 'does not apply' .build/seeded-logs/matrix.txt) not applying"
