#!/usr/bin/env bash
# Developer tool: run checks against an archived seeded change, in the shared scratch worktree /tmp/wt-m.
# usage: tools/run_mutant.sh <seeded-name> <check-id>...
set -u
NAME="$1"; shift
WT="${MUTANT_WT:-/tmp/wt-m}"
[ -d "$WT" ] || git -C /repo worktree add -q --detach "$WT" HEAD
cd "$WT" && git checkout -q -- . && git checkout -q --detach "$(git -C /repo rev-parse HEAD)" 2>/dev/null
git apply "/verif/seeded/$NAME/patch.diff" || { echo "patch does not apply to current HEAD"; exit 2; }
LOG=/verif/.build/seeded-logs; mkdir -p "$LOG"
cd /verif
for c in "$@"; do
  VERIF_REPO="$WT" ./check "$c" quick >"$LOG/$NAME.$c.log" 2>&1; code=$?
  n=$(grep -c "violation signature" "$LOG/$NAME.$c.log")
  echo "$NAME $c exit=$code new_signatures=$n :: $(grep -m1 'violation signature' "$LOG/$NAME.$c.log" | cut -c1-200)"
done
cd "$WT" && git checkout -q -- .
