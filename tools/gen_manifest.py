#!/usr/bin/env python3
"""Developer tool: (re)generate /verif/MANIFEST.json from the table below."""
import json, subprocess

BASELINE_OFF = "cd /repo && cargo test --workspace --no-fail-fast --offline"

# id -> (category, technique, text, note, design_ref)
CHECKS = {
 "C01": ("translation_validation", "runtime monitoring: foreign-code parsers observe generated keys; oracle = real serde_json on the twin program",
         "Every generated field key (TS property, @SerialName, CodingKeys, json tag, pydantic alias) in thousands of generated programs x 6 languages is compared with the key the real serde derive emitted for that field; held-on-what-was-observed, not a proof.",
         "Trusts the harness's TS/Kotlin/Swift/Scala/Go parsers and CPython's ast for reading keys, and serde_derive/serde_json as pinned in /repo/Cargo.lock as the reference; library pipeline mirrors the CLI.", "5/C01"),
 "C02": ("translation_validation", "runtime monitoring: parsers recover variant names and every tag/content key site incl. synthesized Swift/Go (de)coders; oracle = real serde_json",
         "Variant wire names, tag/content keys at every site they are spelled and the one-case-per-variant structure are compared with real serde output for every variant of every generated enum x 6 languages.",
         "Same trusted base as C01; Swift/Go encoder bodies are analysed by token patterns (forKey:, CodingKeys., case arms, json tags).", "5/C02"),
 "C03": ("exploration", "runtime monitoring: output parsers attribute every definition/member to a source element by unique stems; oracle = the generator's item list",
         "Thousands of generated files with annotated and decoy items at module depth 0-4 and skip markers on random subsets; every definition, field and variant of the output of each backend is attributed by stem and compared (count, kind, order) with the model; decoy/skipped stems searched over the whole output.",
         "Trusts the output parsers and the stem scheme (q+5 letters, no other q in generated words). Two recorded findings (Scala drops consts, unions ignored).", "5/C03"),
 "C04": ("exploration", "runtime monitoring with a model table plus a metamorphic oracle (required sibling of the same type)",
         "The full product {T, Option<T>, Option<Option<T>>} x {no default, bare default, merged forms} x wrappers x positions is generated per base type and each backend's optional markers and underlying type are read back and compared.",
         "Trusts the parsers' marker extraction; double-option distinguishability is required for TypeScript only, as the property states.", "5/C04"),
 "C05": ("exploration", "runtime monitoring: every type use site is parsed back into a tree and compared with an independent reference translator and per-language category/range tables",
         "All type trees of depth <= 2 over the property's alphabet (exhaustive) plus random trees to depth 5, with random prefix and type_mappings tables, in 4 positions and 6 languages.",
         "Reference translator and primitive tables are written from the property text; TS nested Option may be dropped (stated assumption). 8 recorded findings (Scala unsigned aliases, Go rune).", "5/C05"),
 "C06": ("exploration", "runtime monitoring of the real binary under controlled and real schedules (collector hook permutations, thread counts, injected delays, fresh processes), byte-equality oracle; ThreadSanitizer and Miri in thorough",
         "Every arrival-order permutation for k<=5/6 files, sampled permutations for larger trees, thread counts 1..16 x delay seeds with distinct delivered orders counted from the hook log, repeated processes for hash seeds, and re-splits; 6 languages, single/multi-file.",
         "Trusts the hook to deliver the requested order (read back from its log). A clean TSan/Miri run is 'no report on N runs', not memory safety. Two defects found and repaired (fix: commits).", "5/C06"),
 "C07": ("exploration", "runtime monitoring: catch_unwind around the library pipeline and process-level observation of the real binary (exit status, stderr, output presence, CPU time, /proc thread-state dead-lock diagnosis); Miri on the edge corpus in thorough",
         "Liveness restated as bounded progress. ~85 hand-written edge classes x 6 languages x 2 modes through library and binary, a file-system fault tree, thousands of generated programs with hostile type forms and the mutated snapshot corpus.",
         "Watchdog 20 s wall + /proc diagnosis; unreadable files approximated by invalid UTF-8/symlink faults (sandbox runs as root). 16 recorded findings (panic sites, hang after worker panic, diagnostics without file name).", "5/C07"),
 "C08": ("fault_enumeration", "runtime monitoring with planted faults: library outcome over the full plant product; the real binary under strace (syscall event history on the output location) plus stat before/after",
         "Exactly one unsupported construct is planted into a supported program at every position, wrapper depth 0-5 and skip variant (546+ plants x 6 languages); a slice of the cells runs the real binary under strace with and without pre-existing output, single- and multi-file.",
         "Trusts strace's view of open/creat/rename/unlink/truncate/mkdir/write calls; consts only for backends with const support. Two defects found and repaired (flatten in struct variants, non-literal consts).", "5/C08"),
 "C09": ("exploration", "runtime monitoring: definition and reference names recovered by the output parsers and paired by stems; oracle = agreement, no presumed spelling",
         "Programs of 3-10 mutually referencing types with random serde renames and prefixes; every type name used in a field, payload, generic argument, alias target, variant parent or helper reference must equal the name of the definition with the same stem.",
         "Trusts the parsers; either spelling passes if both sides agree. Several defects repaired (generic references, Kotlin/Scala/Go definition names); Go unit enums recorded (pinned by a snapshot).", "5/C09"),
 "C10": ("exploration", "runtime monitoring: every generated file is fed to a parser - CPython (compile + import under stub pydantic) or strict recursive-descent parsers of the declaration subset",
         "Thousands of programs mixing every supported feature incl. Swift/Python keyword collisions, per-language overrides and all configuration shapes, plus the snapshot corpus, x 6 languages, single/multi-file.",
         "The five hand-written parsers are the trusted base for TS/Kotlin/Swift/Scala/Go (no compilers for them exist in the image); files outside their subset count as inconclusive (observed: 0). One defect repaired (Scala stray braces), one recorded (Scala `= _`).", "5/C10"),
 "C11": ("exploration", "runtime monitoring against the model's reference graph: definition order recovered by the parsers; exhaustive 3-node graphs + random graphs; Python import as end-to-end confirmation",
         "All 512 edge sets on 3 items plus thousands of random graphs on 1-12 items with every reference position and wrapper; exactly-once and dependency-before-use are checked for TS, Kotlin, Swift, Go, Python.",
         "Acyclicity decided on the model graph. Ordering defects for arrays/slices/nested generics/enum variants repaired; ordering after serde-renamed targets recorded (pinned by snapshots).", "5/C11"),
 "C12": ("exploration", "runtime monitoring: names each backend introduces are collected from parsed output (CPython ast for Python) and checked against definitions/imports; multi-crate Swift through the real binary",
         "Every trigger type x position x depth 0-3 (exhaustive grid) plus random deeper/combined placements; Swift CodableVoid, Scala unsigned aliases, Go imports, Kotlin serialization imports, TS helper pair, all Python names; Codable.swift in multi-file mode.",
         "TypeScript is judged in the weak form (helpers come in pairs and test existing keys). One defect repaired (Scala shallow unsigned scan).", "5/C12"),
 "C14": ("exploration", "runtime monitoring of the real binary in --output-folder mode against the model's crate partition, a single-file twin run and import resolution from model edges",
         "Generated workspaces of 1-5 crates with files at depth 1-4, every `use`/path form, renamed types, prefixes, mappings and same-named types; file set, partition, union of definitions and TS/Kotlin imports are judged.",
         "Scala and Go have no multi-file support and are excluded. Two defects repaired (glob imports, Kotlin import prefix), one recorded (imports of serde-renamed types).", "5/C14"),
 "C15": ("exploration", "runtime monitoring: sentinels planted in doc strings are located in the output and classified by the language tokenisers (CPython tokenize/ast for Python) as inside/outside comments",
         "All unit sequences of length 1-3 over {newline, */, /*, //, triple quotes, backslash, #, backtick, text} (exhaustive) plus random ones to length 12, three doc spellings, 7 documentable positions, 6 languages; the output must also keep the definitions of its doc-free twin.",
         "Comment spans come from the harness lexers / CPython. 17 recorded findings: the terminator of each backend's comment form is not escaped.", "5/C15"),
 "C17": ("exploration", "runtime monitoring of histories of real runs into a persistent output location: strace event log per run + (bytes, mtime_ns, inode) snapshots + fresh-run reference",
         "All 30 histories of length <= 4 over two versions for every (language, mode) plus seeded longer histories over 2-4 versions with types added/removed/renamed/moved and () use toggled.",
         "Stale files of vanished crates are not the last run's responsibility. One defect repaired (Codable.swift rewritten on every run).", "5/C17"),
 "C19": ("translation_validation", "runtime monitoring of rustc itself: annotated vs stripped twins - acceptance via cargo --keep-going, -Zunpretty=expanded token comparison, serde_json behaviour",
         "Hundreds of generated items per batch (structs, enums, unions, aliases, consts with generics, lifetimes, where-clauses, attribute mixes and every typeshare helper) as twins; negative twins must both be rejected; expanded modules compared item by item; values serialised and round-tripped through both.",
         "Doc comments compared after syn normalisation; the stripped twin is rendered by the generator. Needs the nightly toolchain for the expansion part (inconclusive if unavailable).", "5/C19"),
 "C20": ("exploration", "runtime monitoring of the real binary against a 3-level precedence model: output bytes must equal the library pipeline run with cli ?? file ?? default; -g judged by behaviour and by strace",
         "The full {absent,present}^2 matrix for every dual option per language with random file-only tables and config discovery by -c / ancestor search / none; generate-config round trips for all languages and overwrite attempts under strace.",
         "The library driver's mapping from configuration to backend structs mirrors cli/src/main.rs::language(). Scala/Go without a package are accepted as diagnosed failures.", "5/C20"),
 "C13": ("exploration", "runtime monitoring against an executable reference rule written from the property text; exhaustive enumeration of cfg expressions",
         "All cfg expressions to depth 3 (depth 4 over a reduced alphabet in thorough) x all 16 target lists x 5 attachment levels through the library, random deep expressions and multi-attribute elements, and the real binary with every documented option spelling.",
         "The evaluator (N = names under any not, P = others) is the oracle; presence is read from generated TypeScript. One defect found and repaired (comma-separated --target-os).", "5/C13"),
 "C16": ("exploration", "runtime monitoring with a differential oracle: vendored serde_derive case.rs; exhaustive enumeration of identifiers <= 7 over class representatives",
         "All identifiers up to length 7 over {a,B,7,_,é} x 9 rules x field/variant position are pushed through parser::parse and compared with serde_derive's own algorithm; the finite space is enumerated completely (exhaustive: true) and extended by dictionary/random identifiers.",
         "case.rs is a verbatim vendored copy (validated against the running derive by C01/C02); identifiers on which serde itself panics are out of domain. 44 pinned disagreements are listed in known_findings.json.", "5/C16"),
 "C18": ("exploration", "runtime monitoring of the public integer API against first-principles bounds; exhaustive neighbourhoods + stratified random draws",
         "Every u64/i64 within 2^12 of each power of two, the limits and zero (exhaustive) plus 10^6/10^7 stratified draws go through every constructor/conversion/serde path and are judged by (1<<53)-1 and f64 exactness.",
         "Trusts serde_json's number parser and the Rust integer/float semantics of this target.", "5/C18"),
}

NOT_YET = {}

def main():
    props = [json.loads(l) for l in open('/verif/properties.jsonl')]
    checks = []
    na = []
    for p in props:
        pid = p['id']
        if pid in CHECKS:
            cat, tech, text, note, ref = CHECKS[pid]
            checks.append({
                "property_id": pid,
                "quick_cmd": f"./check {pid} quick",
                "thorough_cmd": f"./check {pid} thorough",
                "evidence_file": f"/verif/evidence/{pid}.json",
                "replay_cmd_template": f"./check {pid} --replay {{path}}",
                "engine": "tsv",
                "level_claimed": {"category": cat, "text": text, "design_ref": f"DESIGN.md section {ref}"},
                "level_note": note,
                "technique": tech,
            })
        else:
            na.append({"property_id": pid, "reason": NOT_YET.get(pid, "check not built yet in this round (runtime monitoring applies; see DESIGN.md section 5); not claimed until its monitor exists and is silent on the unchanged tree")})
    hooks_commits = subprocess.run(["git", "-C", "/repo", "log", "--format=%H", "--grep=typeshare_verif"], capture_output=True, text=True).stdout.split()
    m = {
        "version": 1,
        "setup_cmd": "./setup.sh",
        "hooks": {
            "guard": "typeshare_verif",
            "enable": "RUSTFLAGS=\"--cfg typeshare_verif\" cargo build --offline --release -p typeshare-cli --features go,python (done by ./check into /verif/.build/cli-hooked-main)",
            "baseline_off_cmd": BASELINE_OFF,
            "source_commits": hooks_commits,
            "add_only": True,
        },
        "engines": [
            {"name": "tsv", "path": "/verif/harness", "serves_properties": sorted(CHECKS), "kind_free_text": "Rust harness: seeded generators, in-process library driver and hooked-binary driver, per-language output parsers, oracles (real serde, vendored case.rs, executable reference models), event-log/strace/proc monitors, sanitizer runners"},
            {"name": "pycheck", "path": "/verif/pytools/pycheck.py", "serves_properties": [c for c in sorted(CHECKS) if c in ("C01","C02","C03","C04","C05","C09","C10","C11","C12","C15")], "kind_free_text": "CPython ast/compile/exec under stub pydantic: facts and well-formedness of generated Python"},
        ],
        "checks": checks,
        "not_applicable": na,
        "notes": "All verdicts are 'held on the executions observed'. Exit 2 = harness/build error or inconclusive run (never a verdict). known_findings.json lists genuine defects recorded rather than repaired.",
    }
    json.dump(m, open('/verif/MANIFEST.json', 'w'), indent=1)
    print("checks:", len(checks), "not_applicable:", len(na))

main()
