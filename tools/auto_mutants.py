#!/usr/bin/env python3
"""Developer tool: mechanical mutants of typeshare's own source, as a sensitivity measurement for the checks.

  tools/auto_mutants.py enumerate                 -> number of candidate sites per operator / file
  tools/auto_mutants.py run N [SEED] [WORKER/K]   -> sample N sites, and for each one, in a scratch worktree:
        1. apply the one-token mutation, build the CLI, run the repository's own tests (unit + snapshot)
        2. if it compiles and the suite still passes ("survivor"): run all 20 quick checks with VERIF_REPO=<worktree>
     results accumulate in /verif/.build/auto-mutants/results.jsonl (resumable); `report` prints the table.
  tools/auto_mutants.py report

Nothing here is registered in MANIFEST.json; the scratch worktree lives under /tmp and is removed at the end.
"""
import json, os, random, re, subprocess, sys, time

REPO = '/repo'
OUT = '/verif/.build/auto-mutants'
FILES = [
    'core/src/parser.rs', 'core/src/reconcile.rs', 'core/src/rename.rs', 'core/src/rust_types.rs', 'core/src/target_os_check.rs',
    'core/src/topsort.rs', 'core/src/visitors.rs', 'core/src/language/mod.rs', 'core/src/language/go.rs', 'core/src/language/kotlin.rs',
    'core/src/language/python.rs', 'core/src/language/scala.rs', 'core/src/language/swift.rs', 'core/src/language/typescript.rs',
    'cli/src/args.rs', 'cli/src/config.rs', 'cli/src/main.rs', 'cli/src/parse.rs', 'cli/src/writer.rs', 'lib/src/integer.rs', 'annotation/src/lib.rs',
]
CHECKS = ['C%02d' % i for i in range(1, 21)]

OPERATORS = [
    ('renamed->original', re.compile(r'\.renamed\b'), '.original'),
    ('original->renamed', re.compile(r'\.original\b'), '.renamed'),
    ('eq->ne', re.compile(r' == '), ' != '),
    ('ne->eq', re.compile(r' != '), ' == '),
    ('and->or', re.compile(r' && '), ' || '),
    ('or->and', re.compile(r' \|\| '), ' && '),
    ('drop-not', re.compile(r'(?<=[\s(|])!(?=[a-z_(])'), ''),
    ('true->false', re.compile(r'\btrue\b'), 'false'),
    ('false->true', re.compile(r'\bfalse\b'), 'true'),
    ('lt->le', re.compile(r' < (?=[a-z0-9$(])'), ' <= '),
    ('gt->ge', re.compile(r' > (?=[a-z0-9$(])'), ' >= '),
    ('any->all', re.compile(r'\.any\('), '.all('),
    ('all->any', re.compile(r'\.all\('), '.any('),
    ('is_some->is_none', re.compile(r'\.is_some\(\)'), '.is_none()'),
    ('is_none->is_some', re.compile(r'\.is_none\(\)'), '.is_some()'),
    ('is_empty-negate', re.compile(r'(?<!\!)\b([a-z_.]+)\.is_empty\(\)'), r'!\1.is_empty()'),
    ('drop-sort', re.compile(r'^\s*[a-z_.]+\.sort(_unstable)?(_by|_by_key)?\(.*\);\s*$'), ''),
    ('first->last', re.compile(r'\.first\(\)'), '.last()'),
    ('plus1', re.compile(r'\[1\.\.\]'), '[2..]'),
]


def sites():
    out = []
    for f in FILES:
        lines = open(os.path.join(REPO, f)).read().split('\n')
        in_test = False
        for ln, line in enumerate(lines):
            s = line.strip()
            if s.startswith('#[cfg(test)]'):
                in_test = True  # test modules close the files they are in
            if in_test or s.startswith('//') or s.startswith('#[') or s.startswith('debug!') or s.startswith('info!') or s.startswith('error!') or s.startswith('warn!'):
                continue
            if 'typeshare_verif' in line or 'verif_hooks' in line:
                continue
            for name, rx, rep in OPERATORS:
                for k, m in enumerate(rx.finditer(line)):
                    out.append({'file': f, 'line': ln + 1, 'op': name, 'occurrence': k, 'text': line.strip()[:160]})
    return out


def mutate(wt, site):
    p = os.path.join(wt, site['file'])
    lines = open(p).read().split('\n')
    line = lines[site['line'] - 1]
    name, rx, rep = next(o for o in OPERATORS if o[0] == site['op'])
    ms = list(rx.finditer(line))
    m = ms[site['occurrence']]
    new = line[:m.start()] + m.expand(rep) + line[m.end():]
    lines[site['line'] - 1] = new
    open(p, 'w').write('\n'.join(lines))
    return new.strip()[:160]


def sh(cmd, cwd=None, timeout=3600, env=None):
    e = dict(os.environ)
    e['CARGO_NET_OFFLINE'] = 'true'
    if env:
        e.update(env)
    try:
        r = subprocess.run(cmd, shell=True, cwd=cwd, env=e, stdout=subprocess.PIPE, stderr=subprocess.STDOUT, timeout=timeout, text=True)
        return r.returncode, r.stdout
    except subprocess.TimeoutExpired as ex:
        return -9, (ex.stdout or '') if isinstance(ex.stdout, str) else ''


def run(n, seed, worker, k):
    os.makedirs(OUT, exist_ok=True)
    allsites = sites()
    rng = random.Random(seed)
    rng.shuffle(allsites)
    # stratify: round-robin over (file, operator) buckets so that no file / operator dominates
    buckets = {}
    for s in allsites:
        buckets.setdefault((s['file'], s['op']), []).append(s)
    keys = sorted(buckets)
    rng.shuffle(keys)
    sample = []
    i = 0
    while len(sample) < n and any(buckets.values()):
        key = keys[i % len(keys)]
        if buckets[key]:
            sample.append(buckets[key].pop())
        i += 1
    done = set()
    res_path = os.path.join(OUT, 'results.jsonl')
    if os.path.exists(res_path):
        for l in open(res_path):
            done.add(json.loads(l)['id'])
    wt = f'/tmp/wt-am{worker}'
    head = subprocess.check_output(['git', '-C', REPO, 'rev-parse', 'HEAD'], text=True).strip()
    if not os.path.isdir(wt):
        subprocess.check_call(['git', '-C', REPO, 'worktree', 'add', '-q', '--detach', wt, head])
    # what the checks say about the unmutated worktree (expected: nothing); subtracted from every mutant's reports
    sh(f'git checkout -q -- . && git checkout -q --detach {head}', cwd=wt)
    baseline = {}
    for c in CHECKS:
        code, out = sh(f'./check {c} quick', cwd='/verif', timeout=3600, env={'VERIF_REPO': wt})
        baseline[c] = set(re.findall(r'violation signature: (.*?) ::', out))
        if baseline[c]:
            print('BASELINE', c, sorted(baseline[c])[:3], flush=True)
    for idx, site in enumerate(sample):
        if idx % k != worker:
            continue
        mid = f"{site['file']}:{site['line']}:{site['op']}:{site['occurrence']}"
        if mid in done:
            continue
        sh(f'git checkout -q -- . && git checkout -q --detach {head}', cwd=wt)
        new = mutate(wt, site)
        rec = {'id': mid, 'site': site, 'mutated_line': new, 'head': head}
        t0 = time.time()
        code, out = sh('cargo test --workspace --no-fail-fast --offline --lib --bins --tests', cwd=wt, timeout=1800)
        failed = re.findall(r'^test (\S+) \.\.\. FAILED', out, re.M)
        if code != 0 and not failed and 'could not compile' in out:
            rec['status'] = 'does-not-compile'
        else:
            if code != 0 or failed:
                rec['status'] = 'killed-by-suite'
                rec['failed_tests'] = len(failed)
            else:
                rec['status'] = 'survives-suite'
                rec['checks'] = {}
                for c in CHECKS:
                    code, out = sh(f'./check {c} quick', cwd='/verif', timeout=3600, env={'VERIF_REPO': wt})
                    sigs = [x for x in re.findall(r'violation signature: (.*?) ::', out) if x not in baseline.get(c, set())]
                    rec['checks'][c] = {'exit': code, 'new_signatures': len(sigs), 'example': sigs[0][:140] if sigs else None}
                rec['caught_by'] = [c for c, r in rec['checks'].items() if r['exit'] == 1 and r['new_signatures'] > 0]
                rec['harness_errors'] = [c for c, r in rec['checks'].items() if r['exit'] not in (0, 1)]
        rec['wall_s'] = round(time.time() - t0, 1)
        with open(res_path, 'a') as f:
            f.write(json.dumps(rec) + '\n')
        print(mid, rec['status'], rec.get('caught_by'), rec.get('harness_errors') or '', flush=True)
    sh('git checkout -q -- .', cwd=wt)
    subprocess.call(['git', '-C', REPO, 'worktree', 'remove', '--force', wt])


def report():
    res = [json.loads(l) for l in open(os.path.join(OUT, 'results.jsonl'))]
    by = {}
    for r in res:
        by[r['status']] = by.get(r['status'], 0) + 1
    print('mutants:', len(res), by)
    surv = [r for r in res if r['status'] == 'survives-suite']
    caught = [r for r in surv if r['caught_by']]
    print(f'survive the suite: {len(surv)}; reported by at least one check: {len(caught)}; silent: {len(surv) - len(caught)}')
    for r in surv:
        print(('CAUGHT ' + ','.join(r['caught_by'])) if r['caught_by'] else 'SILENT', '|', r['id'], '|', r['mutated_line'])


def rerun_silent():
    """survivors no check reported: apply again at the current HEAD and run all checks once more (after checks were extended)"""
    res_path = os.path.join(OUT, 'results.jsonl')
    res = [json.loads(l) for l in open(res_path)]
    wt = '/tmp/wt-am9'
    head = subprocess.check_output(['git', '-C', REPO, 'rev-parse', 'HEAD'], text=True).strip()
    if not os.path.isdir(wt):
        subprocess.check_call(['git', '-C', REPO, 'worktree', 'add', '-q', '--detach', wt, head])
    sh(f'git checkout -q -- . && git checkout -q --detach {head}', cwd=wt)
    baseline = {}
    for c in CHECKS:
        code, out = sh(f'./check {c} quick', cwd='/verif', timeout=3600, env={'VERIF_REPO': wt})
        baseline[c] = set(re.findall(r'violation signature: (.*?) ::', out))
    out_path = os.path.join(OUT, 'rerun-silent.jsonl')
    for r in res:
        if r['status'] != 'survives-suite' or r.get('caught_by'):
            continue
        sh('git checkout -q -- .', cwd=wt)
        try:
            new = mutate(wt, r['site'])
        except Exception as e:
            print(r['id'], 'site no longer matches:', e, flush=True)
            continue
        rec = {'id': r['id'], 'mutated_line': new, 'head': head, 'checks': {}}
        for c in CHECKS:
            code, out = sh(f'./check {c} quick', cwd='/verif', timeout=3600, env={'VERIF_REPO': wt})
            sigs = [x for x in re.findall(r'violation signature: (.*?) ::', out) if x not in baseline.get(c, set())]
            rec['checks'][c] = {'exit': code, 'new_signatures': len(sigs), 'example': sigs[0][:140] if sigs else None}
        rec['caught_by'] = [c for c, x in rec['checks'].items() if x['exit'] == 1 and x['new_signatures'] > 0]
        with open(out_path, 'a') as f:
            f.write(json.dumps(rec) + '\n')
        print(r['id'], 'now caught by' if rec['caught_by'] else 'still silent', rec['caught_by'], flush=True)
    sh('git checkout -q -- .', cwd=wt)
    subprocess.call(['git', '-C', REPO, 'worktree', 'remove', '--force', wt])


if __name__ == '__main__':
    cmd = sys.argv[1] if len(sys.argv) > 1 else 'enumerate'
    if cmd == 'enumerate':
        s = sites()
        print(len(s), 'sites')
        agg = {}
        for x in s:
            agg[x['op']] = agg.get(x['op'], 0) + 1
        print(agg)
    elif cmd == 'run':
        n = int(sys.argv[2])
        seed = int(sys.argv[3]) if len(sys.argv) > 3 else 1
        w, k = (int(x) for x in sys.argv[4].split('/')) if len(sys.argv) > 4 else (0, 1)
        run(n, seed, w, k)
    elif cmd == 'rerun-silent':
        rerun_silent()
    else:
        report()
