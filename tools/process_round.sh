#!/usr/bin/env bash
# Developer tool: confirm, archive and test a batch of seeded changes delivered by sub-agents.
# usage: tools/process_round.sh <worktree-prefix> <suffix-letter> "<ID> <slug>"...
#   for each: demo in both directions (try_seeded.sh), copy to seeded/<ID><letter>-<slug>, remove the worktree, run the property's quick check
cd /verif
pre=$1; sfx=$2; shift 2
for t in "$@"; do
  set -- $t; id=$1; name=${id}${sfx}-$2
  tools/try_seeded.sh $pre-$id $name 2>&1 | grep -E "^== demo|exit=" | paste - - | head -3
  tools/archive_seeded.sh $pre-$id $id $name
  git -C /repo worktree remove --force $pre-$id
  tools/run_mutant.sh $name $id
done
