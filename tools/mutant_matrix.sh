#!/usr/bin/env bash
# Developer tool: every archived seeded change against its own property's check (plus extra checks given as args).
# usage: tools/mutant_matrix.sh [extra-check-id...]   -> /verif/.build/seeded-logs/matrix.txt
cd /verif
export MUTANT_WT=/tmp/wt-mx
: > .build/seeded-logs/matrix.txt
for d in seeded/*/; do
  name=$(basename "$d"); prop=${name%%-*}
  if grep -q obsolete_after_fix "$d/meta.json" 2>/dev/null; then echo "$name obsolete (see meta.json)" | tee -a .build/seeded-logs/matrix.txt; continue; fi
  prop=$(echo "$prop" | grep -oE '^C[0-9]+')
  # meta.json may name the checks that are expected to see the change (default: the property's own)
  checks=$(python3 -c "import json,sys; print(' '.join(json.load(open('$d/meta.json')).get('checks', ['$prop'])))" 2>/dev/null || echo "$prop")
  tools/run_mutant.sh "$name" $checks "$@" 2>&1 | tee -a .build/seeded-logs/matrix.txt
done
git -C /repo worktree remove --force /tmp/wt-mx 2>/dev/null
python3 tools/seeded_meta.py
