#!/usr/bin/env bash
# Developer tool: confirm a seeded change (compiles, suite green, demo fails with / passes without) in its
# scratch worktree and run the given checks against it via VERIF_REPO.
# usage: tools/try_seeded.sh <worktree> <name> <check-id>...     (results: /verif/.build/seeded-logs/<name>.*)
set -u
WT="$1"; NAME="$2"; shift 2
LOG=/verif/.build/seeded-logs; mkdir -p "$LOG"
S="$WT/SEEDED"
[ -f "$S/patch.diff" ] || { echo "no patch in $S"; exit 2; }
cd "$WT" && git checkout -q -- . 
echo "== demo without change"; bash "$S/demo/run.sh" "$WT" >"$LOG/$NAME.demo-clean.log" 2>&1; echo "exit=$?"
git apply "$S/patch.diff" || { echo "patch does not apply"; exit 2; }
echo "== demo with change"; bash "$S/demo/run.sh" "$WT" >"$LOG/$NAME.demo-mut.log" 2>&1; echo "exit=$?"
echo "== suite with change"; cargo test --workspace --no-fail-fast --offline 2>&1 | grep -E "^test result|FAILED|failed" | sort | uniq -c
cd /verif
for c in "$@"; do
  echo "== check $c quick against mutant"
  VERIF_REPO="$WT" ./check "$c" quick >"$LOG/$NAME.$c.log" 2>&1; echo "exit=$?"
  grep -E "VIOLATION|violation signature|SUMMARY|HARNESS" "$LOG/$NAME.$c.log" | head -12
done
cd "$WT" && git checkout -q -- .
