#!/usr/bin/env bash
# Developer tool: which lines of typeshare's own source do the quick workloads of all 20 checks execute?
# Builds the harness (in-process library driver) and the hooked CLI with -Cinstrument-coverage on the nightly
# toolchain, runs every quick check against them, merges the profiles and prints the lines of core/, cli/,
# lib/ and annotation/ that were never executed. Uncovered code = an input dimension no workload drives.
# usage: tools/coverage.sh [check ids...]        output: /verif/.build/cov/uncovered.txt, summary.txt
set -u
cd /verif
COV=/verif/.build/cov
BIN=$(rustc +nightly --print sysroot)/lib/rustlib/x86_64-unknown-linux-gnu/bin
mkdir -p "$COV/prof" "$COV/harness"
rm -f "$COV"/prof/*.profraw
sed -e "s|@VERIF@|/verif|g" -e "s|@REPO@|/repo|g" harness/Cargo.toml.in > "$COV/harness/Cargo.toml"
cp -n /repo/Cargo.lock "$COV/harness/Cargo.lock" 2>/dev/null
export CARGO_NET_OFFLINE=true
# build scripts and proc macros are instrumented too: keep their profiles out of the package directories
export LLVM_PROFILE_FILE="$COV/prof/build-%p.profraw"
echo "building instrumented harness and CLI ..."
RUSTFLAGS="-Cinstrument-coverage" cargo +nightly build --offline -q --manifest-path "$COV/harness/Cargo.toml" --target-dir "$COV/harness-target" || exit 2
RUSTFLAGS="-Cinstrument-coverage --cfg typeshare_verif" cargo +nightly build --offline -q --release -p typeshare-cli --features go,python \
    --manifest-path /repo/Cargo.toml --target-dir "$COV/cli-target" || exit 2
rm -f "$COV"/prof/build-*.profraw
TSV="$COV/harness-target/debug/tsv"
CLI="$COV/cli-target/release/typeshare"
checks=("$@"); [ ${#checks[@]} -eq 0 ] && checks=(C01 C02 C03 C04 C05 C06 C07 C08 C09 C10 C11 C12 C13 C14 C15 C16 C17 C18 C19 C20)
for c in "${checks[@]}"; do
  LLVM_PROFILE_FILE="$COV/prof/run-%8m.profraw" VERIF_CLI="$CLI" VERIF_TAG=cov VERIF_BUILD=/verif/.build \
    "$TSV" "$c" quick 2>&1 | grep -E "SUMMARY|HARNESS" | cut -c1-160
done
"$BIN/llvm-profdata" merge -sparse "$COV"/prof/*.profraw -o "$COV/cov.profdata" || exit 2
"$BIN/llvm-cov" report "$TSV" -object "$CLI" -instr-profile="$COV/cov.profdata" \
    $(ls /repo/core/src/*.rs /repo/core/src/language/*.rs /repo/cli/src/*.rs /repo/lib/src/*.rs) 2>/dev/null > "$COV/summary.txt"
"$BIN/llvm-cov" show "$TSV" -object "$CLI" -instr-profile="$COV/cov.profdata" -show-line-counts-or-regions \
    $(ls /repo/core/src/*.rs /repo/core/src/language/*.rs /repo/cli/src/*.rs /repo/lib/src/*.rs) 2>/dev/null > "$COV/show.txt"
# uncovered lines (count 0), without test modules
python3 - "$COV/show.txt" > "$COV/uncovered.txt" <<'PY'
import re, sys
cur = None; in_test = False
for line in open(sys.argv[1], errors='replace'):
    m = re.match(r'^(/repo/\S+):$', line.strip())
    if m:
        cur = m.group(1); in_test = False; continue
    m = re.match(r'^\s*(\d+)\|\s*([0-9.kM]+)?\|(.*)$', line.rstrip('\n'))
    if not m or cur is None:
        continue
    ln, cnt, text = m.groups()
    if '#[cfg(test)]' in text:
        in_test = True
    if in_test:
        continue
    if cnt == '0':
        print(f'{cur}:{ln}: {text.strip()[:140]}')
PY
tail -3 "$COV/summary.txt"; wc -l "$COV/uncovered.txt"
