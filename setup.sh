#!/usr/bin/env bash
# MANIFEST.setup_cmd — offline build of everything the checks need. Safe to re-run.
set -eu
VERIF="$(cd "$(dirname "${BASH_SOURCE[0]}")" && pwd)"
cd "$VERIF"
export CARGO_NET_OFFLINE=true
mkdir -p .build evidence replays
# builds the harness and the hooked release CLI from /repo's working tree; C18 is the cheapest check
./check C18 quick >/dev/null || { echo "setup: harness build or smoke check failed" >&2; exit 1; }
echo "setup ok"
